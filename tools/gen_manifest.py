#!/usr/bin/env python3
"""Regenerate /verif/MANIFEST.json from rv/registry.py (and validate it against the schema if jsonschema is available)."""
import json, os, sys
HERE = os.path.dirname(os.path.dirname(os.path.abspath(__file__)))
sys.path.insert(0, HERE)
from rv import registry

props = [json.loads(l) for l in open(os.path.join(HERE, "properties.jsonl"))]
checks, na = [], []
for p in props:
    pid = p["id"]
    c = registry.CLAIMED.get(pid)
    if c is None:
        na.append({"property_id": pid, "reason": getattr(registry, "NOT_APPLICABLE", {}).get(pid, registry.PENDING_REASON)})
        continue
    checks.append({
        "property_id": pid,
        "quick_cmd": "./check %s quick" % pid,
        "thorough_cmd": "./check %s thorough" % pid,
        "evidence_file": "/verif/evidence/%s.json" % pid,
        "replay_cmd_template": "env PYTHONPATH=/verif:/repo /venv/bin/python -B -m rv replay {path}",
        "engine": "rv",
        "level_claimed": {"category": c["level"], "text": c["text"], "design_ref": c["design"]},
        "level_note": c["note"],
        "technique": c["technique"],
    })
m = {
    "version": 1,
    "setup_cmd": "env PYTHONPATH=/verif:/repo PYTHONHASHSEED=0 /venv/bin/python -B -m rv selftest",
    "hooks": {
        "guard": "CONSTRUCT_VERIF",
        "enable": "none needed: all instrumentation is attached from the harness process (sys.monitoring tools, wrappers around Renamed/Error/Construct.__setattr__, traced stream objects); the guard is declared but no repository code reads it",
        "baseline_off_cmd": "cd /repo && /venv/bin/python -m pytest -ra -q -p no:cacheprovider --timeout=900 --continue-on-collection-errors",
        "source_commits": [],
        "add_only": True,
    },
    "engines": [{"name": "rv", "path": "/verif/rv", "serves_properties": [c["property_id"] for c in checks],
                 "kind_free_text": "stdlib-only runtime-monitoring harness: generated/hostile workloads against the real library, traced+faulty streams, reference models, metamorphic and differential oracles, sys.monitoring coverage/step budgets"}],
    "checks": checks,
    "not_applicable": na,
    "notes": "Exit codes: 0 held on everything explored, 1 VIOLATION (replay file written under /verif/replays/<id>/), 2 INCONCLUSIVE (a deciding monitor was not reached / watchdog). Known findings: /verif/known_findings.json. See DESIGN.md.",
}
json.dump(m, open(os.path.join(HERE, "MANIFEST.json"), "w"), indent=1)
try:
    import jsonschema
    jsonschema.validate(m, json.load(open("/root/.vp/MANIFEST.schema.json")))
    print("MANIFEST.json valid: %d checks, %d not_applicable" % (len(checks), len(na)))
except ImportError:
    print("MANIFEST.json written (jsonschema not available here): %d checks, %d not_applicable" % (len(checks), len(na)))
