#!/usr/bin/env python3
"""Print the markdown table "which check catches which seeded change" from /verif/seeded/<ID>/<name>/meta.json."""
import json, glob, os, sys

rows = []
for p in sorted(glob.glob(os.path.join(os.path.dirname(__file__), "..", "seeded", "C*", "*", "meta.json"))):
    m = json.load(open(p))
    name = os.path.basename(os.path.dirname(p))
    cr = m.get("check_result", {})
    summ = (m.get("summary") or "").replace("|", "\\|").replace("\n", " ")
    if len(summ) > 230:
        summ = summ[:227] + "..."
    mech = (cr.get("mechanisms") or "").strip(";").replace("|", "\\|")
    mech = "; ".join(x.split(" (x")[0] for x in mech.split(";") if x)
    if len(mech) > 160:
        mech = mech[:157] + "..."
    extra = m.get("strengthened")
    first = m.get("check_result_first")
    status = "caught" if cr.get("caught") else "MISSED"
    if first is not None and not first.get("caught") and cr.get("caught"):
        status = "missed at first, caught after the extension"
    if m.get("obsolete"):
        status = "no longer a breaking change (see note)"
        extra = m["obsolete"]
    if m.get("out_of_scope"):
        status = "outside the property's quantifier (see note)"
        extra = m["out_of_scope"]
    rows.append((m["property"], name, summ, status, mech, extra or ""))
print("| property | change | what was changed | quick check | mechanisms reported | check extended because of it |")
print("|---|---|---|---|---|---|")
for r in rows:
    print("| %s | %s | %s | %s | %s | %s |" % r)
print()
print("%d seeded changes; %d caught by the property's quick check as it stood when the change arrived, %d only after the check was extended, %d missed."
      % (len(rows), sum(1 for r in rows if r[3] == "caught"), sum(1 for r in rows if r[3].startswith("missed at first")), sum(1 for r in rows if r[3] == "MISSED")))
print("%d change(s) stopped being property-breaking when a genuine defect they depended on was repaired." % sum(1 for r in rows if r[3].startswith("no longer")))
