#!/bin/sh
# usage: tools/try_mutant.sh <patch.diff> <tier> <ID> [<ID>...]
# Applies a seeded change to /repo, runs the named checks, and always restores /repo afterwards.
P="$1"; TIER="$2"; shift 2
cd /verif || exit 2
if ! git -C /repo diff --quiet; then echo "/repo has local modifications; refusing"; exit 2; fi
git -C /repo apply "$P" || { echo "patch does not apply"; exit 2; }
trap 'git -C /repo checkout -- . ' EXIT INT TERM
for ID in "$@"; do
  ./check "$ID" "$TIER" > /tmp/try_mutant.$$.log 2>&1; rc=$?
  echo "== $ID ($TIER) on $(basename $(dirname $P))/$(basename $P): exit $rc"
  grep -E "^(VIOLATION|INCONCLUSIVE|  mechanism)" /tmp/try_mutant.$$.log | head -6
  rm -f /tmp/try_mutant.$$.log
done
