#!/usr/bin/env python3
"""Regenerate section 10.4 of DESIGN.md (seeded breaking changes) and seeded/README.md from seeded/*/*/meta.json."""
import json, glob, os, re, subprocess, sys

V = os.path.dirname(os.path.dirname(os.path.abspath(__file__)))
metas = []
for p in sorted(glob.glob(os.path.join(V, "seeded", "C*", "*", "meta.json"))):
    m = json.load(open(p))
    m["_name"] = os.path.basename(os.path.dirname(p))
    metas.append(m)


def rnd(m):
    mm = re.match(r"r(\d+)-", m["_name"])
    return int(mm.group(1)) if mm else 1


def first_missed(m):
    f = m.get("check_result_first")
    return bool(f) and not f.get("caught")


rows, ext = [], {}
for m in metas:
    cr = m.get("check_result", {})
    s = (m.get("summary") or "").replace("|", "\\|").replace("\n", " ")
    s = s if len(s) <= 150 else s[:147] + "..."
    mech = (cr.get("mechanisms") or "").split(";")[0]
    if m.get("out_of_scope"):
        st = "outside the property's quantifier"
    elif m.get("obsolete"):
        st = "no longer breaking (defect it needed was fixed)"
    elif not cr.get("caught"):
        st = "MISSED"
    elif first_missed(m):
        st = "after extension"
    else:
        st = "caught"
    seeds = cr.get("seeds")
    if seeds and cr.get("caught"):
        st += " (seeds %s)" % ",".join(sorted(seeds))
    rows.append("| %s | %s | %s | %s | `%s` |" % (m["property"], m["_name"], s, st, mech))
    if m.get("strengthened"):
        ext.setdefault(m["property"], []).append((rnd(m), m["strengthened"]))

per_round = {}
for m in metas:
    r = per_round.setdefault(rnd(m), {"n": 0, "first": 0, "after": 0, "missed": 0, "obsolete": 0})
    r["n"] += 1
    if m.get("out_of_scope"):
        r["oos"] = r.get("oos", 0) + 1
    elif m.get("obsolete"):
        r["obsolete"] += 1
    elif not m.get("check_result", {}).get("caught"):
        r["missed"] += 1
    elif first_missed(m):
        r["after"] += 1
    else:
        r["first"] += 1

out = []
out.append("""### 10.4 Seeded breaking changes: which check catches which change

Method.  For every property a fresh sub-agent was given only the property's text and its own scratch worktree of /repo (nothing from /verif)
and asked for small, realistic changes that break the property while the pinned suite still gives the baseline summary: round 1 two per
property, round 2 three per property (rarely used parameters, multi-step histories, second code paths), round 3 three per property (other
source files and classes than before, interactions of two constructs, the build and error paths, helper code in construct/lib), round 4 three
per property (multi-step histories, two cooperating edit sites, rarely used parameters with unusual inputs), round 5 three per property (unusual
nesting orders and re-entrant use, boundary parameter values, unusual value and input types, behaviours the documentation states explicitly that
had not been attacked yet), round 6 three per property (changes dressed as improvements: performance optimisations - caches, fast paths,
hoisted or removed re-evaluations; refactorings - merged code paths, shared helpers, loops turned into slices or library calls; modernisation and
robustness tweaks - type checks, truthiness, exception types, extra validation), round 7 three per property (triggers that depend on particular data values,
changes in the shared infrastructure - stream helpers, expression objects, containers, base classes -, less-travelled classes and options; the agents also
reported where the unmodified library already violates the property); from round 2 on the agents were told one-line summaries of the earlier changes so as not to repeat them.  `tools/harvest_seeded.sh` confirmed each one on a scratch
worktree (patch applies to the current HEAD, pinned suite summary unchanged, the agent's demonstration passes without and fails with the patch),
then ran the property's quick check against /repo with the patch applied (`git -C /repo apply`, reverted straight afterwards) and recorded the
outcome in `/verif/seeded/<ID>/<name>/meta.json` next to `patch.diff` and `demo.py`.  Nothing of this was ever committed to /repo; the
worktrees are removed.  When a later `fix:` commit touched the same lines, the patch was re-applied three-way, re-confirmed and stored again
(`patch.orig.diff` keeps what was delivered).

Result.""")
for r in sorted(per_round):
    d = per_round[r]
    out.append("* round %d: %d confirmed changes - %d caught by the quick check as it stood, %d only after the check was extended, %d missed, %d no longer property-breaking, %d outside the property's quantifier."
               % (r, d["n"], d["first"], d["after"], d["missed"], d["obsolete"], d.get("oos", 0)))
out.append("""
Every miss led to a widening of the check (never to a loosening); `tools/recheck_seeded.py [--seeds 1,2,3] all` re-runs every stored change
against the current checks, and the unchanged tree is swept over several seeds afterwards (`tools/sweep.sh`).  Two stored changes stopped being
property-breaking when the genuine defect they depended on was repaired (e073995); they are kept and marked.  Changes whose lines were rewritten
by a later `fix:` commit are re-made by hand on the new lines and re-confirmed (`rebased_onto` in meta.json, `patch.orig.diff` keeps the original).  The full table with the
mechanisms reported is `/verif/seeded/README.md`.

What the misses changed in the checks (by property, round in brackets):
""")
for k in sorted(ext):
    seen = set()
    for rn, t in sorted(ext[k]):
        if t in seen:
            continue
        seen.add(t)
        out.append("* %s [r%d] - %s" % (k, rn, t))
out.append("""
Lessons that apply beyond the individual change: (1) a check whose cases are partitioned over worker processes cannot see history effects
between cases that land in different workers, and a reference computed in the same process inherits whatever state earlier calls left - C15 runs
explicit per-process sequences and C17 compares three fresh processes that differ only in call order; (2) a snapshot taken after a warm-up phase
hides mutations done by the warm-up (C17 fingerprints are taken before the first use); (3) a monitor can be silently vacuous - C04 compared sizeof
on programs that never answer sizeof, and its nested templates referred to header fields through the wrong scope so that most of them were rejected
by the interpreter and compared nothing (counters such as `programs_whose_sizeof_depends_on_context` and `comparisons_build_from_blanked_value`
now show what was compared); (4) an oracle derived from the trace of the code under test moves with that code - C18 now cross-checks the member
that performs a read against the member whose byte extent contains the offset; (5) generated grammars drift towards the common case: rarely used
arguments (Pointer stream=, NullTerminated include/consume/require, Compressed level 0, enum classes with aliases, Select alternatives that fail
late, callables instead of this-expressions, collections that are not lists, mixed positional/keyword members) are enumerated deliberately; (6)
detection that depends on the seed is weak detection: stored changes are re-run over several seeds; (7) widening a check for a seeded change
found genuine defects next to it (95ca5cf, e073995, 2659739, 6197bc4); (8) an INCONCLUSIVE exit under a seeded change is a miss, not a
catch - where the harness itself dies on the changed behaviour (calling an accessor it assumed to work) or an anchor silently disappears, the
check was changed to observe that behaviour and report it; (9) boundary parameter values (size 0, empty key, empty region, exact multiples) and
values of the library's own result types are enumerated deliberately - random generation does not drift there.

| property | change | what was changed | result | first mechanism reported |
|---|---|---|---|---|""")
out += rows
section = "\n".join(out) + "\n"
dp = os.path.join(V, "DESIGN.md")
s = open(dp).read()
i = s.index("### 10.4 ")
j = s.index("### 10.5 ") if "### 10.5 " in s else len(s)
open(dp, "w").write(s[:i] + section + "\n" + s[j:])
readme = subprocess.run([sys.executable, os.path.join(V, "tools", "seeded_table.py")], stdout=subprocess.PIPE, text=True).stdout
open(os.path.join(V, "seeded", "README.md"), "w").write("# Seeded breaking changes and what the checks report on them\n\nGenerated by `tools/design_seeded_section.py` from the `meta.json` files (each directory: `patch.diff`, `demo.py`, `meta.json`).\nRe-run one with `tools/recheck_seeded.py <ID>/<name>` (applies the patch to /repo, runs `./check <ID> quick`, reverts).\n\n" + readme)
print("section 10.4: %d rows" % len(rows))
