#!/bin/sh
# usage: tools/harvest_seeded.sh <outdir of candidate mutants, e.g. /tmp/seeded_out> [name prefix]
# For every candidate <out>/<ID>/m*/ : confirm on a scratch worktree of /repo (HEAD) that the patch applies, the pinned
# test-suite summary is unchanged, the demonstration passes without and fails with the patch; then run the property's
# check (quick) against /repo with the patch applied and record everything in /verif/seeded/<ID>/<name>/meta.json.
# HARVEST_CHECKS=<dir>: run the checks from a frozen copy of /verif (made when the round arrived), so that the first result of
# every change is "the check as it stood" even while the checks are being extended in /verif.
OUT="$1"
PREFIX="${2:-}"      # e.g. r2- for a second round
BASE="19 failed, 452 passed, 12 xfailed, 2 xpassed"
WT=$(mktemp -d /tmp/harvest-wt.XXXXXX)
git -C /repo worktree add -q --detach "$WT" HEAD || exit 2
trap 'git -C /repo worktree remove --force "$WT" >/dev/null 2>&1' EXIT
for d in "$OUT"/C*/m*/; do
  ID=$(basename $(dirname "$d")); M=$(basename "$d")
  [ -f "$d/patch.diff" ] || continue
  DEST=/verif/seeded/$ID/$PREFIX$M
  [ -f "$DEST/meta.json" ] && continue
  git -C "$WT" checkout -q -- . 
  PATCH="$d/patch.diff"
  [ -f "$d/patch.rebased.diff" ] && PATCH="$d/patch.rebased.diff"
  if ! git -C "$WT" apply "$PATCH" 2>/dev/null; then echo "$ID/$M: patch does not apply to the current tree (needs rebasing)"; continue; fi
  TS=$(cd "$WT" && /venv/bin/python -m pytest -q -p no:cacheprovider --timeout=900 --benchmark-disable 2>&1 | tail -1)
  DM=$(cd /tmp && PYTHONPATH="$WT" /venv/bin/python -B "$d/demo.py" >/dev/null 2>&1; echo $?)
  git -C "$WT" checkout -q -- .
  DC=$(cd /tmp && PYTHONPATH="$WT" /venv/bin/python -B "$d/demo.py" >/dev/null 2>&1; echo $?)
  case "$TS" in *"$BASE"*) TOK=1;; *) TOK=0;; esac
  if [ "$TOK" != 1 ] || [ "$DC" != 0 ] || [ "$DM" = 0 ]; then echo "$ID/$M: NOT confirmed (tests='$TS' demo clean=$DC mutated=$DM)"; continue; fi
  # run the check against /repo with the patch applied
  git -C /repo diff --quiet || { echo "/repo dirty"; exit 2; }
  git -C /repo apply "$PATCH"
  (cd "${HARVEST_CHECKS:-/verif}" && ./check $ID quick > /tmp/harvest.$$.log 2>&1); RC=$?
  git -C /repo checkout -- .
  MECH=$(grep -E "^  mechanism" /tmp/harvest.$$.log | head -4 | sed 's/^  mechanism: //' | tr '\n' ';')
  mkdir -p "$DEST"; cp "$PATCH" "$DEST/patch.diff"; cp "$d/demo.py" "$DEST/demo.py"
  python3 - "$d/meta.json" "$DEST/meta.json" "$ID" "$RC" "$MECH" "$TS" "$DC" "$DM" "$PATCH" <<'PY'
import json,sys
src,dst,pid,rc,mech,ts,dc,dm,patch=sys.argv[1:10]
try: m=json.load(open(src))
except Exception: m={}
out={"property":pid,"summary":m.get("summary"),"needs":m.get("needs"),"origin":"independent sub-agent given only the property text and a scratch worktree",
 "confirmed":{"tests_summary_with_patch":ts,"demo_exit_clean":int(dc),"demo_exit_patched":int(dm),"patch_applies_to":"current /repo HEAD (with the fix: commits)", "rebased": patch.endswith("rebased.diff")},
 "check_result":{"command":"./check %s quick (patch applied to /repo, reverted afterwards)"%pid,"exit":int(rc),"caught":int(rc)==1,"mechanisms":mech}}
json.dump(out,open(dst,"w"),indent=1)
PY
  echo "$ID/$M: confirmed; check exit $RC  $MECH"
  rm -f /tmp/harvest.$$.log
done
