#!/usr/bin/env python3
"""usage: tools/recheck_seeded.py [--tier quick] [--note TEXT] [--seeds 1,2] [--lanes N] <ID>/<name> ...   (or  all  /  missed)
Re-run the property's check against /repo with a stored seeded change applied (always reverted), and record the outcome
in /verif/seeded/<ID>/<name>/meta.json.  The first recorded outcome is kept as check_result_first when it differs.
--lanes N (regression runs over all stored changes): N scratch worktrees of /repo HEAD under /tmp, each lane takes whole
properties (evidence and replay files are per property), the patch is applied there and the check runs with VERIF_REPO
pointing at the lane; /repo itself is not touched.  The worktrees are removed at the end."""
import json, os, subprocess, sys, glob, re, threading

VERIF = os.path.dirname(os.path.dirname(os.path.abspath(__file__)))


def sh(*a, **k):
    return subprocess.run(a, stdout=subprocess.PIPE, stderr=subprocess.STDOUT, text=True, **k)


def main():
    args = sys.argv[1:]
    tier, note, seeds, lanes = "quick", None, None, 0
    while args and args[0].startswith("--"):
        if args[0] == "--tier":
            tier = args[1]
        elif args[0] == "--note":
            note = args[1]
        elif args[0] == "--lanes":
            lanes = int(args[1])
        elif args[0] == "--seeds":        # e.g. --seeds 0,1,2 : caught only if every seed catches it (recorded as seeds_caught)
            seeds = [int(x) for x in args[1].split(",")]
        args = args[2:]
    targets = []
    for a in args:
        if a in ("all", "missed"):
            for p in sorted(glob.glob(os.path.join(VERIF, "seeded", "C*", "*", "meta.json"))):
                m = json.load(open(p))
                if m.get("obsolete") or m.get("out_of_scope"):
                    continue
                if a == "all" or not m.get("check_result", {}).get("caught"):
                    targets.append(os.path.relpath(os.path.dirname(p), os.path.join(VERIF, "seeded")))
        else:
            targets.append(a)
    if sh("git", "-C", "/repo", "diff", "--quiet").returncode != 0:
        print("/repo is dirty")
        return 2
    if lanes:
        return run_lanes(targets, tier, note, seeds, lanes)
    rc_all = 0
    for t in targets:
        d = os.path.join(VERIF, "seeded", t)
        pid = t.split("/")[0]
        meta = json.load(open(os.path.join(d, "meta.json")))
        r = sh("git", "-C", "/repo", "apply", os.path.join(d, "patch.diff"))
        if r.returncode != 0:
            print("%s: patch does not apply: %s" % (t, r.stdout.strip()[:200]))
            rc_all = 2
            continue
        per_seed = {}
        try:
            if seeds:
                for sd in seeds:
                    r = sh(os.path.join(VERIF, "check"), pid, tier, cwd=VERIF, env=dict(os.environ, VERIF_SEED=str(sd)))
                    per_seed[sd] = r.returncode
                    if r.returncode != 1:
                        break
            else:
                r = sh(os.path.join(VERIF, "check"), pid, tier, cwd=VERIF)
        finally:
            sh("git", "-C", "/repo", "checkout", "--", ".")
        mech = [re.sub(r"\s+\(x\d+\)\s*$", "", l.split("mechanism: ", 1)[1]) for l in r.stdout.splitlines() if l.startswith("  mechanism: ")][:4]
        new = {"command": "./check %s %s (patch applied to /repo, reverted afterwards)" % (pid, tier), "exit": r.returncode, "caught": r.returncode == 1, "mechanisms": ";".join(mech)}
        old = meta.get("check_result")
        if old and old.get("caught") != new["caught"] and "check_result_first" not in meta:
            meta["check_result_first"] = old
        if per_seed:
            new["seeds"] = {str(k): v for k, v in per_seed.items()}
        meta["check_result"] = new
        if note:
            meta["strengthened"] = note
        json.dump(meta, open(os.path.join(d, "meta.json"), "w"), indent=1)
        print("%s: exit %d %s %s" % (t, r.returncode, per_seed if per_seed else "", "; ".join(mech)))
        if r.returncode != 1:
            rc_all = rc_all or 1
    return rc_all


def run_lanes(targets, tier, note, seeds, lanes):
    byprop = {}
    for t in targets:
        byprop.setdefault(t.split("/")[0], []).append(t)
    props = sorted(byprop, key=lambda k: -len(byprop[k]))
    lock = threading.Lock()
    rc = [0]

    def lane(k):
        wt = "/tmp/rc-lane-%d-%d" % (os.getpid(), k)
        if sh("git", "-C", "/repo", "worktree", "add", "-q", "--detach", wt, "HEAD").returncode != 0:
            rc[0] = 2
            return
        try:
            while True:
                with lock:
                    if not props:
                        return
                    pid = props.pop(0)
                for t in byprop[pid]:
                    d = os.path.join(VERIF, "seeded", t)
                    meta = json.load(open(os.path.join(d, "meta.json")))
                    r = sh("git", "-C", wt, "apply", os.path.join(d, "patch.diff"))
                    if r.returncode != 0:
                        print("%s: patch does not apply: %s" % (t, r.stdout.strip()[:200]), flush=True)
                        rc[0] = 2
                        continue
                    per_seed = {}
                    try:
                        for sd in (seeds or [0]):
                            r = sh(os.path.join(VERIF, "check"), pid, tier, cwd=VERIF, env=dict(os.environ, VERIF_SEED=str(sd), VERIF_REPO=wt))
                            per_seed[sd] = r.returncode
                            if r.returncode != 1:
                                break
                    finally:
                        sh("git", "-C", wt, "checkout", "--", ".")
                    mech = [re.sub(r"\s+\(x\d+\)\s*$", "", l.split("mechanism: ", 1)[1]) for l in r.stdout.splitlines() if l.startswith("  mechanism: ")][:4]
                    new = {"command": "./check %s %s with VERIF_REPO = a scratch worktree of /repo HEAD carrying the patch (regression run over all stored changes)" % (pid, tier),
                           "exit": r.returncode, "caught": r.returncode == 1, "mechanisms": ";".join(mech), "seeds": {str(a): b for a, b in per_seed.items()}}
                    old = meta.get("check_result")
                    if old and old.get("caught") != new["caught"] and "check_result_first" not in meta:
                        meta["check_result_first"] = old
                    meta["check_result"] = new
                    if note:
                        meta["strengthened"] = note
                    json.dump(meta, open(os.path.join(d, "meta.json"), "w"), indent=1)
                    print("%s: exit %d %s %s" % (t, r.returncode, per_seed, "; ".join(mech)[:160]), flush=True)
                    if r.returncode != 1:
                        rc[0] = rc[0] or 1
        finally:
            sh("git", "-C", "/repo", "worktree", "remove", "--force", wt)
    ths = [threading.Thread(target=lane, args=(k,)) for k in range(lanes)]
    for th in ths:
        th.start()
    for th in ths:
        th.join()
    sh("git", "-C", "/repo", "worktree", "prune")
    return rc[0]


if __name__ == "__main__":
    sys.exit(main())
