#!/usr/bin/env python3
"""usage: tools/recheck_seeded.py [--tier quick] [--note TEXT] <ID>/<name> ...   (or  all  /  missed)
Re-run the property's check against /repo with a stored seeded change applied (always reverted), and record the outcome
in /verif/seeded/<ID>/<name>/meta.json.  The first recorded outcome is kept as check_result_first when it differs."""
import json, os, subprocess, sys, glob, re

VERIF = os.path.dirname(os.path.dirname(os.path.abspath(__file__)))


def sh(*a, **k):
    return subprocess.run(a, stdout=subprocess.PIPE, stderr=subprocess.STDOUT, text=True, **k)


def main():
    args = sys.argv[1:]
    tier, note, seeds = "quick", None, None
    while args and args[0].startswith("--"):
        if args[0] == "--tier":
            tier = args[1]
        elif args[0] == "--note":
            note = args[1]
        elif args[0] == "--seeds":        # e.g. --seeds 0,1,2 : caught only if every seed catches it (recorded as seeds_caught)
            seeds = [int(x) for x in args[1].split(",")]
        args = args[2:]
    targets = []
    for a in args:
        if a in ("all", "missed"):
            for p in sorted(glob.glob(os.path.join(VERIF, "seeded", "C*", "*", "meta.json"))):
                m = json.load(open(p))
                if m.get("obsolete") or m.get("out_of_scope"):
                    continue
                if a == "all" or not m.get("check_result", {}).get("caught"):
                    targets.append(os.path.relpath(os.path.dirname(p), os.path.join(VERIF, "seeded")))
        else:
            targets.append(a)
    if sh("git", "-C", "/repo", "diff", "--quiet").returncode != 0:
        print("/repo is dirty")
        return 2
    rc_all = 0
    for t in targets:
        d = os.path.join(VERIF, "seeded", t)
        pid = t.split("/")[0]
        meta = json.load(open(os.path.join(d, "meta.json")))
        r = sh("git", "-C", "/repo", "apply", os.path.join(d, "patch.diff"))
        if r.returncode != 0:
            print("%s: patch does not apply: %s" % (t, r.stdout.strip()[:200]))
            rc_all = 2
            continue
        per_seed = {}
        try:
            if seeds:
                for sd in seeds:
                    r = sh(os.path.join(VERIF, "check"), pid, tier, cwd=VERIF, env=dict(os.environ, VERIF_SEED=str(sd)))
                    per_seed[sd] = r.returncode
                    if r.returncode != 1:
                        break
            else:
                r = sh(os.path.join(VERIF, "check"), pid, tier, cwd=VERIF)
        finally:
            sh("git", "-C", "/repo", "checkout", "--", ".")
        mech = [re.sub(r"\s+\(x\d+\)\s*$", "", l.split("mechanism: ", 1)[1]) for l in r.stdout.splitlines() if l.startswith("  mechanism: ")][:4]
        new = {"command": "./check %s %s (patch applied to /repo, reverted afterwards)" % (pid, tier), "exit": r.returncode, "caught": r.returncode == 1, "mechanisms": ";".join(mech)}
        old = meta.get("check_result")
        if old and old.get("caught") != new["caught"] and "check_result_first" not in meta:
            meta["check_result_first"] = old
        if per_seed:
            new["seeds"] = {str(k): v for k, v in per_seed.items()}
        meta["check_result"] = new
        if note:
            meta["strengthened"] = note
        json.dump(meta, open(os.path.join(d, "meta.json"), "w"), indent=1)
        print("%s: exit %d %s %s" % (t, r.returncode, per_seed if per_seed else "", "; ".join(mech)))
        if r.returncode != 1:
            rc_all = rc_all or 1
    return rc_all


if __name__ == "__main__":
    sys.exit(main())
