#!/bin/sh
# usage: tools/sweep.sh <tier> <seed>...   - every claimed check on the unchanged tree for each seed; prints one line per run
TIER="$1"; shift
for SD in "$@"; do
  for i in 01 02 03 04 05 06 07 08 09 10 11 12 13 14 15 16 17 18 19 20; do
    OUT=$(VERIF_SEED=$SD /verif/check C$i $TIER 2>&1); RC=$?
    echo "seed=$SD C$i rc=$RC $(echo "$OUT" | grep -E "^C$i tier" | sed 's/.*: //' | cut -c1-90) $(echo "$OUT" | grep -cE '^VIOLATION') violations $(echo "$OUT" | grep -E 'INCONCLUSIVE' | head -1 | cut -c1-200)"
  done
done
