"""C01 - build then parse returns the value that was built (symmetry).

Metamorphic monitor on the real library, with the expected parse result ("the value built, with the members
build derives by itself filled in") supplied by the reference model:  canon(v) = model.dec(model.enc(v)).
A value is in the construct's domain only if the model itself is symmetric on it (canon covers v); the
filtered fraction is reported.
"""
from ..common import tag, untag
from ..recipes import mk, shape, rdepth
from .. import refmodel as M
from ..gen import Gen, genval, INT_NAMES, FLOAT_NAMES, ENCODINGS
from ..libmodel import lib_build, lib_parse, model_build, model_parse, same_value, top_kind, kinds_in, loosen
from ..veq import norm

LEVEL = "exploration"
RULE = ("(1) deterministic parameter sweep: every primitive parameterisation (width x signedness x endianness x public name/constructor; every encoding "
        "x string kind; bit widths 1..64 x signed x swapped; NullTerminated terminators, Prefixed includelength, Padded/Aligned patterns and moduli 2..9) "
        "alone and under each single-level wrapper, on boundary values; (2) random compositions from the typed grammar (depth<=3 quick, 4 thorough, "
        "arity<=4; incl. rotations, streaming bit regions with counted / read-to-end tails, Sequences and Structs whose named self-derived members select "
        "later layouts, Select families, the lazy family, regions delimited from their end, tunnels referring to the enclosing scope, references to the "
        "outermost scope from three levels down - the first recipes of every worker are drawn from these families directly) x generated values x keyword contexts. non-trivial = recipe of depth >= 2 or with a derived member (Const/Rebuild/Default/Computed/"
        "Padding); distinct by recipe shape")
ASSUMPTIONS = ["values on which the reference model itself is not symmetric (terminator inside a CString, data ending in the pad unit, overlapping flag "
               "masks, doubles not representable in binary32/16, integers that have an Enum label) are outside the domain: counted, not judged",
               "documented asymmetric options (NullTerminated include/consume, Peek/Pointer/Seek) are not in this grammar (C08/C09 cover them)"]
REQUIRED_ANCHORS = ["core:FormatField._parse", "core:FormatField._build", "core:BytesInteger._build", "core:BitsInteger._build", "core:VarInt._build", "core:ZigZag._build",
                    "core:Adapter._parse", "core:Adapter._build", "core:Struct._build", "core:Sequence._build", "core:Array._build", "core:GreedyRange._build",
                    "core:RepeatUntil._build", "core:Rebuild._build", "core:Default._build", "core:Const._build", "core:Computed._build", "core:Prefixed._build",
                    "core:FixedSized._build", "core:NullTerminated._build", "core:Padded._build", "core:Aligned._build", "core:FocusedSeq._build",
                    "core:IfThenElse._build", "core:Switch._build", "core:ProcessXor._build", "core:Transformed._build"]
ANCHORS = REQUIRED_ANCHORS
DERIVED = {"Const", "Rebuild", "Default", "Computed", "Padding"}


def covers(canon, v):
    """does the parsed-back value equal the built one, with derived members filled in?  (normal forms)"""
    if v is None:
        return True                       # omitted / build-from-nothing member: anything may be filled in
    if isinstance(canon, tuple) and isinstance(v, tuple) and canon and v:
        if canon[0] == "dict" and v[0] == "dict":
            return all(k in canon[1] and covers(canon[1][k], x) for k, x in v[1].items())
        if canon[0] == "list" and v[0] == "list":
            return len(canon[1]) == len(v[1]) and all(covers(a, b) for a, b in zip(canon[1], v[1]))
    return canon == v


class Runner:
    def __init__(self, ctx):
        self.ctx = ctx
        self.cache = {}          # one construct object per recipe: all values of a recipe go through the same object, as in real use

    def con(self, r):
        key = repr(r)
        d = self.cache.get(key)
        if d is None:
            if len(self.cache) > 2000:
                self.cache.clear()
            d = self.cache[key] = mk(r)
        return d

    def roundtrip(self, r, v, kw, cls, domain_v=None):
        """domain_v: the value whose membership in the symmetric domain decides (v may additionally carry stale values in
        members that build derives by itself and therefore ignores)"""
        ctx = self.ctx
        ctx.ev()
        self.canon = None
        mb = model_build(r, v, kw)
        case = {"recipe": r, "kw": kw, "value": tag(v), "cls": cls}
        try:
            d = self.con(r)
        except Exception:
            ctx.count("recipe_not_constructible")
            return False
        if mb[0] == "gap":
            ctx.count("model_gap")
            return False
        if mb[0] != "ok":
            ctx.count("value_outside_domain(model rejects)")
            return False
        mp = model_parse(r, mb[1], kw)
        if mp[0] != "ok" or mp[2] != len(mb[1]) or not covers(loosen(norm(mp[1])), loosen(norm(v if domain_v is None else domain_v))):
            ctx.count("outside_symmetric_domain")
            return False
        lb = lib_build(d, v, kw)
        if lb[0] != "ok":
            ctx.violation("build-fails-on-domain-value:%s:%s" % (top_kind(r), lb[1]), "build(%r) raised %s (path %r); the reference builds it" % (v, lb[1], lb[2]), case)
            return False
        lp = lib_parse(d, lb[1], kw)
        if lp[0] != "ok":
            ctx.violation("parse-of-built-bytes-fails:%s:%s" % (top_kind(r), lp[1]), "parse(build(%r)) raised %s (path %r); built bytes %s" % (v, lp[1], lp[2], lb[1].hex()), case)
            return False
        if not same_value(lp[1], mp[1]):
            ctx.violation("roundtrip-value-differs:%s" % top_kind(r), "parse(build(v)) = %r, expected %r (v = %r, bytes %s)" % (lp[1], mp[1], v, lb[1].hex()), case)
            return False
        if lp[2] != len(lb[1]):
            ctx.violation("roundtrip-leaves-bytes:%s" % top_kind(r), "parse consumed %d of the %d bytes build produced" % (lp[2], len(lb[1])), case)
            return False
        ctx.count("roundtrips_ok")
        self.canon = mp[1]
        return True

    def stale_roundtrip(self, r, v, other, kw):
        """the state of a parsed container whose ordinary fields were edited: the members build derives whatever the value
        holds (Computed, Rebuild) carry values left over from another value of the same construct"""
        v2, n = stale(r, v, other)
        if not n:
            return False
        self.ctx.count("values_with_stale_derived_members")
        return self.roundtrip(r, v2, kw, "stale-derived", domain_v=v)


def stale(r, v, other):
    """-> (v with the named Computed / Rebuild members of its Structs overwritten, number of members overwritten)"""
    k = r[0]
    if k == "Renamed":
        return stale(r[2], v, other)
    if k in ("Struct", "AlignedStruct", "BitStruct") and isinstance(v, dict):
        out, n = dict(v), 0
        o = other if isinstance(other, dict) else {}
        for nm, m in M.members_of(r):
            base = m
            while base[0] == "Renamed":
                nm, base = nm or base[1], base[2]
            if not nm:
                continue
            if base[0] in ("Computed", "Rebuild"):
                x = o.get(nm)
                out[nm] = x + 1 if isinstance(x, int) and not isinstance(x, bool) else 77 if x is None else x
                n += 1
            elif nm in v:
                out[nm], c = stale(base, v[nm], o.get(nm))
                n += c
        return out, n
    from ..libmodel import subrecipes
    subs = subrecipes(r)
    if len(subs) == 1 or (k in ("Prefixed", "PrefixedArray") and len(subs) == 2):
        sub = subs[-1]
        if isinstance(v, dict):
            return stale(sub, v, other)
        if isinstance(v, list) and k in ("Array", "PrefixedArray", "GreedyRange", "RepeatUntil"):
            out, n = [], 0
            for i, x in enumerate(v):
                y, c = stale(sub, x, other[i % len(other)] if isinstance(other, list) and other else None)
                out.append(y)
                n += c
            return out, n
    return v, 0


WRAPPERS = ["plain", "struct", "struct-after-byte", "array2", "prefixed", "prefixed-incl", "fixedsized", "padded", "aligned3", "aligned4", "nullterm", "nullterm2",
            "renamed", "prefixedarray", "sequence", "focused", "switch", "ifthen", "default-none"]


def wrap(w, p, size):
    B = ["name", "Byte"]
    if w == "plain":
        return p, lambda v: v
    if w == "struct":
        return ["Struct", [["x", p]]], lambda v: {"x": v}
    if w == "struct-after-byte":
        return ["Struct", [["h", B], ["x", p], ["t", ["name", "Int16ul"]]]], lambda v: {"h": 1, "x": v, "t": 513}
    if w == "array2":
        return ["Array", 2, p], lambda v: [v, v]
    if w == "prefixed":
        return ["Prefixed", ["name", "VarInt"], p, False], lambda v: v
    if w == "prefixed-incl":
        return ["Prefixed", ["name", "Int16ub"], p, True], lambda v: v
    if w == "fixedsized":
        return (["FixedSized", size + 2, p], lambda v: v) if size is not None else (None, None)
    if w == "padded":
        return (["Padded", size + 3, p, tag(b"*")], lambda v: v) if size is not None else (None, None)
    if w in ("aligned3", "aligned4"):
        return ["Struct", [["h", B], ["x", ["Aligned", int(w[-1]), p, tag(b"\xaa")]], ["t", B]]], lambda v: {"h": 7, "x": v, "t": 9}
    if w == "nullterm":
        return ["NullTerminated", p, tag(b"\xfe"), False, True, True], lambda v: v
    if w == "nullterm2":
        return ["NullTerminated", p, tag(b"\xfe\xfd"), False, True, True], lambda v: v
    if w == "renamed":
        return ["Renamed", "nm", p, "doc"], lambda v: v
    if w == "prefixedarray":
        return ["PrefixedArray", B, p], lambda v: [v, v, v]
    if w == "sequence":
        return ["Sequence", [[None, B], [None, p]]], lambda v: [3, v]
    if w == "focused":
        return ["FocusedSeq", "v", [[None, ["Const", tag(b"\x01"), None]], ["v", p], [None, ["Padding", 1]]]], lambda v: v
    if w == "switch":
        return ["Struct", [["t0", B], ["x", ["Switch", ["this", "t0"], [[1, p]], None]]]], lambda v: {"t0": 1, "x": v}
    if w == "ifthen":
        return ["Struct", [["f0", ["name", "Flag"]], ["x", ["IfThenElse", ["this", "f0"], p, B]]]], lambda v: {"f0": True, "x": v}
    if w == "default-none":
        return ["Struct", [["x", p], ["d", ["Default", B, 9]], ["c", ["Computed", 4]]]], lambda v: {"x": v}
    raise ValueError(w)


def primitives():
    ps = []
    for n in INT_NAMES + ["Byte", "Short", "Int", "Long"]:
        ps.append(["name", n])
    for e in "=<>":
        for f in "BHLQbhlqefd?":
            ps.append(["FormatField", e, f])
    for n in (1, 2, 3, 5, 8, 16):
        for s in (False, True):
            for sw in (False, True):
                ps.append(["BytesInteger", n, s, sw])
    for n in FLOAT_NAMES + ["Half", "Single", "Double"]:
        ps.append(["name", n])
    ps += [["name", "VarInt"], ["name", "ZigZag"], ["name", "Flag"], ["Bytes", 0], ["Bytes", 3]]
    for enc in ENCODINGS:
        u = M.UNIT[enc]
        ps += [["CString", enc], ["PascalString", ["name", "VarInt"], enc], ["PaddedString", 6 * u, enc]]
    for w in list(range(1, 25)) + [32, 48, 64]:
        for s in (False, True):
            for sw in ((False, True) if w % 8 == 0 else (False,)):
                pad = (8 - w % 8) % 8
                ms = [["v", ["BitsInteger", w, s, sw]]] + ([[None, ["Padding", pad]]] if pad else [])
                ps.append(["Bitwise", ["Struct", ms]])
    ps += [["Enum", ["name", "Byte"], [["one", 1], ["two", 2]]], ["EnumClass", ["name", "Int16ul"], [["a", 1], ["b", 300]]],
           # an enum class with aliases (several names for one number: the first one is the member, the others are aliases of it)
           ["EnumClass", ["name", "Byte"], [["ack", 2], ["acknowledge", 2], ["nak", 3], ["negative", 3], ["idle", 0]]],
           ["EnumMixed", ["name", "Byte"], [["ack", 2], ["acknowledge", 2]], [["extra", 9]]],
           ["FlagsEnumClass", ["name", "Byte"], [["r", 1], ["read", 1], ["w", 2], ["x", 4]]],
           ["FlagsEnum", ["name", "Byte"], [["r", 1], ["w", 2], ["x", 4]]], ["FlagsEnum", ["name", "Int16ub"], [["lo", 1], ["hi", 0x8000]]],
           ["Mapping", ["name", "Byte"], [["a", 0], ["b", 1]]], ["ByteSwapped", ["name", "Int32ub"]], ["ByteSwapped", ["Bytes", 3]],
           ["Hex", ["name", "Int24ul"]], ["OneOf", ["name", "Byte"], [1, 5, 9]], ["ProcessXor", 0x5a, ["name", "Int16ub"]]]
    # rotation: every group width 1..5 x amounts around the whole-byte, over-wide and negative cases
    for g in (1, 2, 3, 4, 5):
        for amount in (-16, -8, -1, 0, 1, 7, 8, 9, 16, 24, 8 * g, 8 * g + 8):
            ps.append(["ProcessRotateLeft", amount, g, ["Bytes", 2 * g]])
    # bit regions whose size is discovered while streaming: a partially consumed byte followed by a read-to-end field / counted fields
    for w in range(1, 8):
        ps.append(["Bitwise", ["Struct", [["w", ["BitsInteger", w, False, False]], ["rest", ["name", "GreedyBytes"]]]]])
        ps.append(["Bitwise", ["Struct", [["n0", ["BitsInteger", w, False, False]], [None, ["Padding", 8 - w]], ["xs", ["Array", ["bin", "&", ["this", "n0"], 1], ["BitsInteger", 12, True, False]]],
                                          ["ys", ["Array", ["bin", "&", ["this", "n0"], 1], ["name", "Nibble"]]]]]])
    # Sequences whose named, self-derived members select the layout of later members
    B = ["name", "Byte"]
    for derived in (["Default", B, 2], ["Const", 3, B], ["Default", ["name", "Int16ul"], 1], ["Rebuild", B, 2]):
        ps.append(["Sequence", [["n", derived], [None, ["Bytes", ["this", "n"]]]]])
        ps.append(["Sequence", [["n", derived], ["xs", ["Array", ["this", "n"], ["name", "Int16ub"]]], [None, ["IfThenElse", ["bin", "==", ["this", "n"], 2], B, ["name", "Int24ub"]]]]])
        ps.append(["Sequence", [["n", derived], [None, ["Switch", ["this", "n"], [[1, B], [2, ["name", "Int16ul"]], [3, ["Bytes", 3]]], None]], [None, ["Struct", [["d", ["Bytes", ["this", "_", "n"]]]]]]]])
    return ps


def recursive_formats(ctx, rng):
    """tag-length-value trees and nested lists: every length-prefixed / counted / terminated region is built by the very object
    that is building the enclosing region.  Oracle: a direct recursive encoder; parse(build(v)) == v."""
    import construct as C
    from ..veq import veq

    def tree(depth, budget):
        kids = []
        if depth > 0:
            for _ in range(rng.randint(0, 3)):
                if budget[0] <= 0:
                    break
                budget[0] -= 1
                kids.append(tree(depth - 1, budget))
        return {"tag": rng.randrange(256), "children": kids}
    holder = {}
    tlv = C.Struct("tag" / C.Byte, "children" / C.Prefixed(C.Byte, C.GreedyRange(C.LazyBound(lambda: holder["tlv"]))))
    holder["tlv"] = tlv
    cnt = C.Struct("tag" / C.Byte, "children" / C.PrefixedArray(C.VarInt, C.LazyBound(lambda: holder["cnt"])))
    holder["cnt"] = cnt
    fixed = C.Struct("tag" / C.Byte, "children" / C.Padded(40, C.Prefixed(C.Int16ul, C.GreedyRange(C.LazyBound(lambda: holder["fx"])), includelength=True)))
    holder["fx"] = fixed
    aligned = C.Struct("tag" / C.Byte, "children" / C.Aligned(4, C.PrefixedArray(C.Byte, C.LazyBound(lambda: holder["al"]))))
    holder["al"] = aligned

    def enc_tlv(n):
        body = b"".join(enc_tlv(k) for k in n["children"])
        return bytes([n["tag"], len(body)]) + body

    def varint(x):
        out = bytearray()
        while x > 127:
            out.append(0x80 | (x & 0x7f))
            x >>= 7
        out.append(x)
        return bytes(out)

    def enc_cnt(n):
        return bytes([n["tag"]]) + varint(len(n["children"])) + b"".join(enc_cnt(k) for k in n["children"])

    def enc_fixed(n):
        body = b"".join(enc_fixed(k) for k in n["children"])
        inner = (len(body) + 2).to_bytes(2, "little") + body
        return None if len(inner) > 40 else bytes([n["tag"]]) + inner + bytes(40 - len(inner))

    def enc_al(n):
        inner = bytes([len(n["children"])]) + b"".join(enc_al(k) for k in n["children"])
        return bytes([n["tag"]]) + inner + bytes(-len(inner) % 4)
    for name, d, enc, maxdepth in (("tlv", tlv, enc_tlv, 3), ("counted", cnt, enc_cnt, 3), ("padded-includelength", fixed, enc_fixed, 1), ("aligned-counted", aligned, enc_al, 3)):
        ok = 0
        for _ in range(ctx.pick(40, 400)):
            v = tree(rng.randint(0, maxdepth), [12])
            want = enc(v)
            if want is None or len(want) > 250:
                ctx.count("recursive_value_too_large")
                continue
            ctx.ev()
            case = {"cls": "recursive", "format": name, "value": tag(v)}
            lb = lib_build(d, v, {})
            if lb[0] != "ok":
                ctx.violation("build-fails-on-domain-value:recursive-%s:%s" % (name, lb[1]), "build(%r) raised %s" % (v, lb[1]), case)
                break
            if lb[1] != want:
                ctx.violation("roundtrip-value-differs:recursive-%s:build" % name, "build(%r) = %s, the recursive reference encoder gives %s" % (v, lb[1].hex(), want.hex()), case)
                break
            lp = lib_parse(d, lb[1], {})
            if lp[0] != "ok" or not veq(lp[1], v) or lp[2] != len(lb[1]):
                ctx.violation("roundtrip-value-differs:recursive-%s" % name, "parse(build(v)) -> %r, v = %r" % (lp[1:], v), case)
                break
            ok += 1
            if any(k["children"] for k in v["children"]):
                ctx.nontrivial("recursive", name, repr(v)[:80])
        ctx.count("recursive_roundtrips_ok", ok)


def derived_steering():
    B, H = ["name", "Byte"], ["name", "Int16ub"]
    N = ["this", "n"]
    out = []
    for comp in (["bin", "+", N, 1], ["bin", "*", N, 2], ["bin", "&", N, 1], ["bin", "-", 4, N], ["bin", "|", N, 4], ["bin", "&", ["bin", "|", ["bin", "<<", N, 1], 1], 7],
                 ["bin", "|", ["bin", "&", N, 1], ["bin", "<<", ["bin", ">", N, 2], 2]], ["bin", "^", N, 3],
                 # the constant on the LEFT of a non-commutative operator (reflected operators must keep the operand order)
                 ["bin", "<<", 1, N], ["bin", ">>", 64, N], ["bin", "-", 9, ["bin", "*", 2, N]], ["bin", "//", 12, ["bin", "+", N, 1]], ["bin", "%", 7, ["bin", "+", N, 2]], ["bin", "**", 2, N]):
        for dep in (["Bytes", ["this", "c"]], ["Array", ["this", "c"], H], ["Padding", ["this", "c"]], ["PaddedString", ["bin", "+", ["this", "c"], 1], "ascii"],
                    ["Switch", ["this", "c"], [[0, B], [1, ["name", "Int16ul"]], [2, ["Bytes", 3]]], ["name", "Int32ub"]], ["IfThenElse", ["bin", "==", ["this", "c"], 2], B, ["name", "Int24ub"]],
                    ["FixedSized", ["bin", "+", ["this", "c"], 2], H], ["Struct", [["e", ["Bytes", ["this", "_", "c"]]]]]):
            st = ["Struct", [["n", B], ["c", ["Computed", comp]], ["d", dep], ["t", B]]]
            out += [st, ["Array", 2, st], ["Struct", [["h", B], ["s", st]]], ["Prefixed", B, st, False]]
    for flagbit in (7, 4):
        # a header byte packed from two fields with | while building, unpacked again by the members that follow
        st = ["Struct", [["last", ["name", "Flag"]], ["hdr", ["Rebuild", B, ["bin", "|", ["fn", "len", ["this", "payload"]], ["bin", "<<", ["this", "last"], flagbit]]]],
                         ["payload", ["Array", ["bin", "&", ["this", "hdr"], 7], H]], ["chk", ["Computed", ["bin", "&", ["bin", ">>", ["this", "hdr"], flagbit], 1]]]]]
        out += [st, ["Array", 2, st]]
    for cnt in (B, ["name", "VarInt"], ["name", "Int16ul"]):
        st = ["Struct", [["count", ["Rebuild", cnt, ["fn", "len", ["this", "items"]]]], ["items", ["Array", ["this", "count"], H]], ["t", B]]]
        out += [st, ["Array", 2, st], ["Struct", [["h", B], ["s", st]]]]
    return out


def boundary_values(p, rng):
    from ..gen import int_range
    sc = M.top_scope({})
    vals = []
    ir = int_range(p, sc) if p[0] in ("name", "FormatField", "BytesInteger") else None
    if ir is not None:
        lo, hi = ir
        hi2 = min(hi, 1 << 70)
        vals = [lo, hi2, 0, 1, max(lo, -1), lo + 1, hi2 - 1, (lo + hi2) // 2]
        return sorted(set(v for v in vals if lo <= v <= hi))
    return None


def run(ctx):
    rng = ctx.rng
    R = Runner(ctx)
    # ---- (1) deterministic parameter sweep
    ps = primitives()
    if ctx.index == 0:
        ctx.count("primitive_parameterisations", len(ps))
        ctx.count("wrappers", len(WRAPPERS))
    k = 0
    for p in ps:
        try:
            size = M.size(p, M.top_scope({}))
        except (M.Unsized, M.MissingKey, M.ModelGap):
            size = None
        bv = boundary_values(p, rng)
        for w in WRAPPERS:
            k += 1
            if not ctx.mine(k):
                continue
            r, lift = wrap(w, p, size)
            if r is None:
                continue
            vals = bv if bv is not None else []
            ok = 0
            for v in vals:
                ok += R.roundtrip(r, lift(v), {}, "sweep-boundary")
            for _ in range(12 - min(len(vals), 8)):
                try:
                    v = genval(p, rng, M.top_scope({}))
                except (M.ModelGap, M.MissingKey):
                    break
                ok += R.roundtrip(r, lift(v), {}, "sweep")
            if ok:
                ctx.nontrivial("sweep", shape(r), repr(p)[:60])
            if k % 500 == 0:
                ctx.sample({"recipe": r, "value": tag(lift(vals[0] if vals else genval(p, rng, M.top_scope({}))))})
    # ---- (1b) parsed-then-edited values: explicit formats whose computed / rebuilt members steer later lengths, counts and branches
    for j, r in enumerate(derived_steering()):
        if not ctx.mine(j):
            continue
        prev, ok = None, 0
        for _ in range(10):
            try:
                v = genval(r, rng, M.top_scope({}))
            except (M.ModelGap, M.MissingKey, M.Unsized, M.Reject):
                break
            if R.roundtrip(r, v, {}, "derived-steering"):
                canon = R.canon
                if prev is not None:
                    ok += R.stale_roundtrip(r, v, prev, {})
                prev = canon
        if ok:
            ctx.nontrivial("stale", shape(r))
    # ---- (1c) recursive formats: the same construct objects are entered again (through LazyBound) while they are still building
    if ctx.mine(7):
        recursive_formats(ctx, rng)
    # ---- (2) random compositions; the first ones of every worker are drawn directly from the special families of the grammar
    n = ctx.pick(4000, 120000) // ctx.nworkers
    nvals = ctx.pick(8, 16)
    nfam = ctx.pick(12, 60)
    for i in range(n):
        g = Gen(rng, maxdepth=rng.choice([1, 2, 3, 3] if ctx.quick else [2, 3, 3, 4]), fragment="full")
        try:
            if i < 7 * nfam:
                r = [g.select_family, lambda: g.lazy_family(2), g.region_family, g.root_family, lambda: g.bitstream(True), lambda: ["Sequence", g.struct(2, True, inseq=True)[1]], g.index_family][i % 7]()
            else:
                r = g.recipe()
        except (M.ModelGap, M.MissingKey, M.Unsized):
            continue
        kw = dict(g.kw)
        if "k" in kw and rng.random() < 0.5:
            kw["k"] = rng.choice([0, 1, 3])
        ok = 0
        prev = None
        for j in range(nvals):
            try:
                v = genval(r, rng, M.top_scope(dict(kw)))
            except (M.ModelGap, M.MissingKey, M.Unsized, M.Reject):
                ctx.count("value_generation_gap")
                break
            if j % 3 == 1:
                # calls that fail part-way on the same object (the last leaf made unbuildable) before the next value is built
                from .c05 import poisoned
                try:
                    dd = R.con(r)
                    for w in poisoned(v)[:3]:
                        lib_build(dd, w, kw)
                        ctx.count("failing_builds_interleaved")
                except Exception:
                    pass
            good = R.roundtrip(r, v, kw, "random")
            ok += good
            if good:
                canon = R.canon
                if prev is not None:
                    R.stale_roundtrip(r, v, prev, kw)
                prev = canon
        ks = kinds_in(r)
        if ok and (rdepth(r) >= 2 or ks & DERIVED):
            ctx.nontrivial("rec", shape(r))
        ctx.count("random_recipes")
        for kd in ks:
            ctx.count("kind_" + kd)
        if i < 2 and ctx.index < 2:
            ctx.sample({"recipe": r, "kw": kw})


def replay(ctx, case):
    if case.get("cls") == "recursive":
        return recursive_formats(ctx, ctx.rng)
    Runner(ctx).roundtrip(case["recipe"], untag(case["value"]), case.get("kw", {}), case.get("cls", "replay"))
