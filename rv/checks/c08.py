"""C08 - delimited regions confine their inner construct; offsets stay absolute.

Oracle: a reference *region calculus* (forward computation on the raw bytes): for a chain of delimiters
D1(D2(...(probe))) it computes each region's bytes, absolute base offset and the position after each
delimiter; the library is observed through a traced outer stream and through Tell / RawCopy / Pointer
probes placed inside every region and after every nested delimiter:
      level content = Struct("x"/D(next level | probe), "t"/Tell, "tail"/GreedyBytes)
"""
from ..common import tag, untag
from ..streams import TracedStream
from ..veq import veq

LEVEL = "exploration"
RULE = ("chains (depth 1..3 quick, ..4 thorough) of Prefixed(Byte|Int16ub|VarInt, includelength on/off) / FixedSized(const|ctx) / "
        "NullTerminated(all 8 flag combinations x term length 1,2,4) / NullStripped(pad 1,2,4) / OffsettedEnd / ProcessXor around probes "
        "GreedyBytes, GreedyRange(Byte), Byte, Bytes(2) and the offset probe Struct(Tell, RawCopy, Pointer(this.t0), Tell, GreedyBytes); "
        "start offsets 0..7; payloads incl. empty, terminator/pad units inside and at the end; region lengths exact, zero, and overlong "
        "(must be StreamError). non-trivial = depth >= 2 or start offset > 0; distinct by (chain, probe, offset, payload class)")
ASSUMPTIONS = ["multi-byte terminator payloads are unit-aligned (Issue 1046 documents unaligned data as undefined); for pad units of one repeated byte an incomplete last unit is padding only if it starts the pad unit",
               "building is observed only for the delimiters that assemble their region on its own (FixedSized, Prefixed): the region is exactly what the inner construct wrote"]
REQUIRED_ANCHORS = ["core:BytesIOWithOffsets.tell", "core:BytesIOWithOffsets.seek", "core:BytesIOWithOffsets.from_reading", "core:Prefixed._parse",
                    "core:FixedSized._parse", "core:OffsettedEnd._parse", "core:NullTerminated._parse", "core:NullStripped._parse",
                    "core:ProcessXor._parse", "core:Tell._parse", "core:RawCopy._parse", "core:Pointer._parse"]
ANCHORS = REQUIRED_ANCHORS


class Reject(Exception):
    pass


class Unspecified(Exception):
    """the bytes fall into the documented undefined zone (multi-byte unit, unaligned data - Issue 1046)"""


# delimiter spec forms (JSON):
#  ["Prefixed", lenkind, includelength]       lenkind in Byte Int16ub VarInt
#  ["FixedSized", n, form]                    form const|ctx
#  ["NullTerminated", termhex, include, consume, require]
#  ["NullStripped", padhex]
#  ["OffsettedEnd", k, form]                  k >= 0 (endoffset = -k)
#  ["ProcessXor", keyhex_or_int, form]
def region(D, view, base, pos):
    """-> (inner bytes, inner base, position after) in absolute offsets; raises Reject"""
    end = base + len(view)
    rel = pos - base
    k = D[0]
    if k == "Prefixed":
        lk, incl = D[1], D[2]
        if lk == "Byte":
            if rel + 1 > len(view):
                raise Reject()
            n, w = view[rel], 1
        elif lk == "Int16ub":
            if rel + 2 > len(view):
                raise Reject()
            n, w = view[rel] * 256 + view[rel + 1], 2
        else:
            n, w, sh = 0, 0, 0
            while True:
                if rel + w >= len(view):
                    raise Reject()
                b = view[rel + w]
                n |= (b & 0x7f) << sh
                sh += 7
                w += 1
                if not b & 0x80:
                    break
        if incl:
            if lk == "VarInt":
                raise Reject()       # sizeof(VarInt) is undefined: SizeofError (a ConstructError)
            n -= w
        if n < 0 or rel + w + n > len(view):
            raise Reject()
        return view[rel + w: rel + w + n], pos + w, pos + w + n
    if k == "FixedSized":
        n = D[1]
        if n < 0 or rel + n > len(view):
            raise Reject()
        return view[rel: rel + n], pos, pos + n
    if k == "NullTerminated":
        term, include, consume, require = bytes.fromhex(D[1]), D[2], D[3], D[4]
        u = len(term)
        data = b""
        p = rel
        while True:
            unit = view[p:p + u]
            if len(unit) < u:
                if require:
                    raise Reject()
                if len(unit):
                    raise Unspecified()      # trailing partial unit without terminator
                p = len(view)
                break
            p += u
            if unit == term:
                if include:
                    data += unit
                if not consume:
                    p -= u
                break
            data += unit
        return data, pos, base + p
    if k == "NullStripped":
        pad = bytes.fromhex(D[1])
        u = len(pad)
        data = view[rel:]
        t = len(data) % u
        if t:
            # a region that is not a whole number of pad units: an incomplete last unit is padding only if it is the beginning
            # of the pad unit; anything else is payload and stays (defined for pad units of one repeated byte only)
            if len(set(pad)) > 1:
                raise Unspecified()
            if data[len(data) - t:] == pad[:t]:
                data = data[:len(data) - t]
            else:
                return data, pos, end
        while len(data) >= u and data[len(data) - u:] == pad:
            data = data[:len(data) - u]
        return data, pos, end
    if k == "OffsettedEnd":
        kk = D[1]
        n = len(view) - kk - rel
        if n < 0:
            raise Reject()
        return view[rel: rel + n], pos, pos + n
    if k == "ProcessXor":
        key = D[1]
        key = bytes([key]) if isinstance(key, int) else bytes.fromhex(key)
        data = bytes(b ^ key[i % len(key)] for i, b in enumerate(view[rel:])) if key else bytes(view[rel:])
        return data, pos, end
    raise ValueError(D)


def ref_probe(probe, data, base):
    if probe == "greedybytes":
        return data
    if probe == "greedyrange":
        return list(data)
    if probe == "byte":
        if len(data) < 1:
            raise Reject()
        return data[0]
    if probe == "bytes2":
        if len(data) < 2:
            raise Reject()
        return data[:2]
    if probe == "lookahead":
        # a fixed-size inner format that looks beyond what it consumes: ahead of itself (Peek) and at the region's end (Pointer(-1));
        # both are confined to the region
        if len(data) < 1:
            raise Reject()
        return {"a": data[0], "ahead": int.from_bytes(data[1:3], "big") if len(data) >= 3 else None, "last": data[-1]}
    if probe == "pointer-before":
        # an absolute Pointer whose target lies one byte BEFORE the region's start: outside the region, refused (for a region that
        # starts at offset 0 the offset is -1, i.e. end-relative: the region's last byte)
        if len(data) < 1:
            raise Reject()
        if base > 0:
            raise Reject()
        return {"t0": base, "a": data[0], "p": data[-1]}
    if probe in ("offsets", "offsets-root"):
        if len(data) < 1:
            raise Reject()
        out = {"t0": base, "r": {"data": data[:1], "value": data[0], "offset1": base, "offset2": base + 1, "length": 1},
               "p": data[0], "t1": base + 1, "rest": data[1:]}
        if probe == "offsets-root":
            out["q"] = ROOT[0][ROOT[1]]           # read through the outermost stream at the absolute start offset
        return out
    raise ValueError(probe)


ROOT = [b"", 0]        # (whole buffer, start offset) of the case being evaluated, for the probe that looks at the outermost stream


def ref_level(view, base, pos, chain, probe):
    inner, ibase, after = region(chain[0], view, base, pos)
    if len(chain) == 1:
        x = ref_probe(probe, inner, ibase)
    else:
        x = ref_content(inner, ibase, chain[1:], probe)
    return x, after


def ref_content(view, base, chain, probe):
    x, after = ref_level(view, base, base, chain, probe)
    return {"x": x, "t": after, "tail": view[after - base:]}


# ----------------------------------------------------------------- library side
def mk_probe(probe):
    import construct as C
    if probe == "greedybytes":
        return C.GreedyBytes
    if probe == "greedyrange":
        return C.GreedyRange(C.Byte)
    if probe == "byte":
        return C.Byte
    if probe == "bytes2":
        return C.Bytes(2)
    if probe == "lookahead":
        return C.Struct("a" / C.Byte, "ahead" / C.Peek(C.Int16ub), "last" / C.Pointer(-1, C.Byte))
    if probe == "pointer-before":
        return C.Struct("t0" / C.Tell, "a" / C.Byte, "p" / C.Pointer(C.this.t0 - 1, C.Byte))
    if probe == "offsets-root":
        # ... plus a Pointer told to work on the outermost stream: that stream must be left exactly where it stood
        return C.Struct("t0" / C.Tell, "r" / C.RawCopy(C.Byte), "p" / C.Pointer(C.this.t0, C.Byte), "q" / C.Pointer(C.this._params.start, C.Byte, stream=C.this._root._io),
                        "t1" / C.Tell, "rest" / C.GreedyBytes)
    return C.Struct("t0" / C.Tell, "r" / C.RawCopy(C.Byte), "p" / C.Pointer(C.this.t0, C.Byte), "t1" / C.Tell, "rest" / C.GreedyBytes)


def mk_delim(D, inner, kw):
    import construct as C
    k = D[0]
    if k == "Prefixed":
        lf = {"Byte": C.Byte, "Int16ub": C.Int16ub, "VarInt": C.VarInt}[D[1]]
        return C.Prefixed(lf, inner, includelength=D[2])
    if k == "FixedSized":
        if D[2] == "ctx":
            name = "n%d" % len(kw)
            kw[name] = D[1]
            return C.FixedSized(getattr(C.this._params, name), inner)
        return C.FixedSized(D[1], inner)
    if k == "NullTerminated":
        return C.NullTerminated(inner, term=bytes.fromhex(D[1]), include=D[2], consume=D[3], require=D[4])
    if k == "NullStripped":
        return C.NullStripped(inner, pad=bytes.fromhex(D[1]))
    if k == "OffsettedEnd":
        if D[2] == "ctx":
            name = "n%d" % len(kw)
            kw[name] = -D[1]
            return C.OffsettedEnd(getattr(C.this._params, name), inner)
        return C.OffsettedEnd(-D[1], inner)
    if k == "ProcessXor":
        key = D[1] if isinstance(D[1], int) else bytes.fromhex(D[1])
        if D[2] == "ctx":
            name = "n%d" % len(kw)
            kw[name] = key
            return C.ProcessXor(getattr(C.this._params, name), inner)
        return C.ProcessXor(key, inner)


def mk_chain(chain, probe):
    import construct as C
    kw = {}

    def level(i):
        inner = mk_probe(probe) if i == len(chain) - 1 else content(i + 1)
        return mk_delim(chain[i], inner, kw)

    def content(i):
        return C.Struct("x" / level(i), "t" / C.Tell, "tail" / C.GreedyBytes)
    return content(0), kw


def run_case(ctx, case):
    import construct as C
    chain, probe = case["chain"], case["probe"]
    buf, off = untag(case["data"]), case["offset"]
    ctx.ev()
    ROOT[0], ROOT[1] = buf, off
    try:
        x, after = ref_level(buf, 0, off, chain, probe)
        want = ("ok", {"x": x, "t": after, "tail": buf[after:]})
    except Reject:
        want = ("reject",)
    except Unspecified:
        ctx.count("skipped_unaligned_multibyte_unit")
        return
    try:
        d, kw = mk_chain(chain, probe)
    except Exception as e:
        ctx.count("chain_not_constructible")
        return
    s = TracedStream(buf, pos=off)
    if probe == "offsets-root":
        kw = dict(kw, start=off)
    try:
        got = ("ok", d.parse_stream(s, **kw))
    except C.ConstructError as e:
        got = ("reject", type(e).__name__)
    except Exception as e:
        got = ("foreign", type(e).__name__, str(e)[:200])
    key = chain[-1][0] if len(chain) == 1 else chain[0][0] + ">.." + chain[-1][0]
    inner_kind = "/".join(D[0] for D in chain)
    if got[0] == "foreign":
        ctx.violation("foreign-exception:%s:%s" % (got[1], inner_kind), "parse raised %s: %s" % (got[1], got[2]), case)
        return
    if want[0] == "reject":
        ctx.count("rejected_by_reference")
        if got[0] == "ok":
            ctx.violation("accepts-overlong-or-short-region:" + first_diff_delim(chain, buf, off), "reference rejects (region exceeds the available bytes / probe starved) but parse returned %r" % (got[1],), case)
        elif got[1] not in ("StreamError", "SizeofError"):
            ctx.count("rejected_with_" + got[1])
        return
    if got[0] != "ok":
        ctx.violation("rejects-valid-region:%s:%s" % (got[1], first_diff_delim(chain, buf, off)), "reference accepts, parse raised %s" % got[1], case)
        return
    r = got[1]
    if not veq(r, want[1]):
        ctx.violation("region-mismatch:" + diff_kind(r, want[1], chain, probe), "parse -> %r\nreference -> %r" % (r, want[1]), case)
        return
    if s.pos != len(buf):
        ctx.violation("outer-position", "outer stream at %d after the top-level content (GreedyBytes tail), expected EOF %d" % (s.pos, len(buf)), case)
    if len(chain) >= 2 or off > 0:
        ctx.nontrivial("chain", chain, probe, off, case.get("cls"))
    ctx.count("accepted")
    for D in chain:
        ctx.count("delim_" + D[0])


def first_diff_delim(chain, buf, off):
    return "/".join(D[0] for D in chain)


def diff_kind(got, want, chain, probe):
    """mechanism key: which observation differs first, at which delimiter"""
    depth = 0
    g, w = got, want
    while True:
        D = chain[depth][0]
        if not isinstance(g, dict):
            return "%s:structure" % D
        if not veq(g.get("t"), w["t"]):
            return "%s:position-after" % D
        if not veq(g.get("tail"), w["tail"]):
            return "%s:bytes-after" % D
        if depth == len(chain) - 1:
            gx, wx = g.get("x"), w["x"]
            if probe in ("offsets", "offsets-root") and isinstance(gx, dict):
                for f in ("t0", "t1", "p", "q", "rest"):
                    if f in wx and not veq(gx.get(f), wx[f]):
                        return "%s:probe-%s" % (D, f)
                return "%s:probe-rawcopy" % D
            return "%s:inner-sees-wrong-bytes" % D
        g, w = g.get("x"), w["x"]
        depth += 1


# ----------------------------------------------------------------- generation (inside-out)
TERMS = ["00", "0000", "00000000", "0d0a", "ff"]
PADS = ["00", "0000", "00000000", "20"]


def gen_delim(rng, toend_ok):
    r = rng.random()
    if r < 0.25:
        lk = rng.choice(["Byte", "Byte", "Int16ub", "VarInt"])
        return ["Prefixed", lk, (rng.random() < 0.4) if lk != "VarInt" else False]
    if r < 0.42:
        return ["FixedSized", None, rng.choice(["const", "ctx"])]
    if r < 0.70:
        return ["NullTerminated", rng.choice(TERMS), rng.random() < 0.5, rng.random() < 0.5, rng.random() < 0.6]
    if r < 0.80:
        return ["NullStripped", rng.choice(PADS)]
    if r < 0.90:
        return ["OffsettedEnd", rng.randint(0, 3), rng.choice(["const", "ctx"])]
    key = rng.choice([0, 1, 0x5a, 0xff, "00", "a5", "0102", "00" * 3, "0f" * 5, "", "00" * 64, "00" * 70])
    return ["ProcessXor", key, rng.choice(["const", "ctx"])]


def payload_for(rng, D_inner, probe, cls):
    """innermost payload bytes"""
    n = {"empty": 0, "one": 1, "short": rng.randint(2, 4), "long": rng.randint(5, 12)}[cls]
    alphabet = [0, 0, 0x0d, 0x0a, 0x20, 0xff, 1, 2, 0x41, 0x80, rng.getrandbits(8)]
    return bytes(rng.choice(alphabet) for _ in range(n))


def wrap(rng, D, payload, variant):
    """bytes that D needs around `payload` so that (normally) the region is `payload`; returns (bytes, D finalised)"""
    k = D[0]
    D = list(D)
    if k == "Prefixed":
        w = {"Byte": 1, "Int16ub": 2, "VarInt": None}[D[1]]
        n = len(payload)
        if variant == "overlong":
            n += rng.randint(1, 3)
        if variant == "zero":
            n = 0
        if D[2]:
            n += w
        if D[1] == "Byte":
            return bytes([n & 0xff]) + payload, D
        if D[1] == "Int16ub":
            return n.to_bytes(2, "big") + payload, D
        out = bytearray()
        x = n
        while x > 0x7f:
            out.append(0x80 | (x & 0x7f))
            x >>= 7
        out.append(x)
        return bytes(out) + payload, D
    if k == "FixedSized":
        extra = rng.randint(0, 3) if variant != "overlong" else 0
        D[1] = len(payload) + extra + (rng.randint(1, 3) if variant == "overlong" else 0)
        if variant == "zero":
            D[1] = 0
        return payload + bytes(rng.getrandbits(8) for _ in range(extra)), D
    if k == "NullTerminated":
        term = bytes.fromhex(D[1])
        u = len(term)
        if len(payload) % u:
            payload = payload + bytes([0x41]) * (u - len(payload) % u)
        if variant == "overlong":
            return payload, D          # terminator missing
        return payload + term, D
    if k == "NullStripped":
        pad = bytes.fromhex(D[1])
        u = len(pad)
        if len(payload) % u:
            payload = payload + bytes([0x42]) * (u - len(payload) % u)
        return payload + pad * rng.randint(0, 3), D
    if k == "OffsettedEnd":
        kk = D[1]
        return payload + bytes(rng.getrandbits(8) for _ in range(kk if variant != "overlong" else max(0, kk - 1))), D
    if k == "ProcessXor":
        key = D[1]
        key = bytes([key]) if isinstance(key, int) else bytes.fromhex(key)
        return (bytes(b ^ key[i % len(key)] for i, b in enumerate(payload)) if key else bytes(payload)), D


TOEND = ("NullStripped", "OffsettedEnd", "ProcessXor")


def gen_case(rng, maxdepth):
    depth = rng.randint(1, maxdepth)
    chain = [gen_delim(rng, True) for _ in range(depth)]
    probe = rng.choice(["greedybytes", "greedyrange", "byte", "bytes2", "offsets", "offsets", "offsets-root", "greedybytes", "lookahead", "pointer-before"])
    cls = rng.choice(["empty", "one", "short", "short", "long"])
    variant_level = rng.randrange(depth) if rng.random() < 0.25 else None
    variant = rng.choice(["overlong", "zero", "overlong"])
    data = payload_for(rng, chain[-1], probe, cls)
    final = [None] * depth
    for i in range(depth - 1, -1, -1):
        v = variant if i == variant_level else "exact"
        data, Df = wrap(rng, chain[i], data, v)
        final[i] = Df
        # content of level i lives in region i-1: [delimiter bytes][tail]; to-end delimiters take everything
        if chain[i][0] not in TOEND:
            data = data + bytes(rng.choice([0, 0x41, 0xff, rng.getrandbits(8)]) for _ in range(rng.randint(0, 3)))
    off = rng.randint(0, 7)
    buf = bytes([0xEE]) * off + data
    if rng.random() < 0.08 and len(buf) > off:
        # arbitrary damage: flip one byte / truncate (the reference is a forward computation, any bytes are fine)
        j = rng.randrange(off, len(buf))
        buf = buf[:j] + bytes([buf[j] ^ rng.choice([1, 0x80, 0xff])]) + buf[j + 1:] if rng.random() < 0.5 else buf[:j]
    return {"chain": final, "probe": probe, "data": tag(buf), "offset": off, "cls": cls + ("/" + variant if variant_level is not None else "")}


def xor_key_history(ctx, rng):
    """one ProcessXor object whose key comes from the context / from the record being parsed, used with DIFFERENT keys one after the
    other (records that each carry their own key): every region is decoded with its own key"""
    import construct as C
    x = lambda data, k: bytes(b ^ k[i % len(k)] for i, b in enumerate(data)) if k else bytes(data)
    one = C.ProcessXor(C.this._params.k, C.GreedyBytes)
    keys = [1, 0x5a, 2, 0xff, 1, 0, 0x80, b"\x03", b"\x01\x02", 7, b"\x09\x08\x07", 0x5a]
    for rnd in range(ctx.pick(3, 20)):
        for k in keys:
            data = bytes(rng.randrange(256) for _ in range(rng.randint(0, 9)))
            kb = bytes([k]) if isinstance(k, int) else k
            case = {"xor-history": True, "key": tag(kb), "data": tag(data)}
            ctx.ev()
            try:
                got_p, got_b = one.parse(data, k=k), one.build(data, k=k)
            except Exception as e:
                ctx.violation("xor-key-history:raises:" + type(e).__name__, repr(e)[:200], case)
                return
            if got_p != x(data, kb) or got_b != x(data, kb):
                ctx.violation("xor-key-history:region-decoded-with-another-key", "key %r after other keys on the same object: parse -> %s, build -> %s, expected %s" % (k, got_p.hex(), got_b.hex(), x(data, kb).hex()), case)
                return
    recs = C.GreedyRange(C.Struct("k" / C.Byte, "d" / C.Prefixed(C.Byte, C.ProcessXor(C.this.k, C.GreedyBytes)), "t" / C.Tell))
    for rnd in range(ctx.pick(10, 60)):
        items = [(rng.choice([1, 2, 0x5a, 0xff, 0x10, 0]), bytes(rng.randrange(256) for _ in range(rng.randint(0, 5)))) for _ in range(rng.randint(2, 5))]
        blob = b"".join(bytes([k, len(p)]) + x(p, bytes([k])) for k, p in items)
        case = {"xor-history": True, "records": tag(blob)}
        ctx.ev()
        try:
            got = recs.parse(blob)
        except Exception as e:
            ctx.violation("xor-key-history:raises:" + type(e).__name__, repr(e)[:200], case)
            return
        want = [(k, p) for k, p in items]
        if [(g.k, g.d) for g in got] != want:
            ctx.violation("xor-key-history:region-decoded-with-another-key", "records each carrying their own key: parsed %r, expected %r" % ([(g.k, g.d) for g in got], want), case)
            return
        if recs.build([dict(k=k, d=p) for k, p in items]) != blob:
            ctx.violation("xor-key-history:region-encoded-with-another-key", "records each carrying their own key: build differs", case)
            return
    ctx.count("xor_key_histories")
    ctx.nontrivial("xor-history", len(keys))


def run(ctx):
    rng = ctx.rng
    if ctx.index == 3 % ctx.nworkers:
        xor_key_history(ctx, rng)
    n = ctx.pick(60000, 1200000) // ctx.nworkers
    maxdepth = ctx.pick(3, 4)
    # systematic single-delimiter sweep: all NullTerminated flag combinations x terms, all probes, offsets 0..7
    sysn = 0
    lrng = __import__("random").Random(7)
    singles = []
    for term in TERMS:
        for inc in (False, True):
            for cons in (False, True):
                for req in (False, True):
                    singles.append(["NullTerminated", term, inc, cons, req])
    for pad in PADS:
        singles.append(["NullStripped", pad])
    for lk in ("Byte", "Int16ub", "VarInt"):
        for incl in (False, True):
            if lk == "VarInt" and incl:
                continue
            singles.append(["Prefixed", lk, incl])
    for form in ("const", "ctx"):
        singles.append(["FixedSized", None, form])
        for k in (0, 1, 3):
            singles.append(["OffsettedEnd", k, form])
        for key in (0, 0x5a, "00", "a5", "0102", "000000", "", "ff" * 65, "00" * 65):      # (an empty key changes nothing; all-zero keys up to 64 bytes are short-cut)
            singles.append(["ProcessXor", key, form])
    i = 0
    for D in singles:
        for probe in ("greedybytes", "greedyrange", "byte", "bytes2", "offsets", "offsets-root", "lookahead", "pointer-before"):
            for cls in ("empty", "one", "short", "long"):
                for variant in ("exact", "overlong", "zero"):
                    i += 1
                    if not ctx.mine(i):
                        continue
                    for off in range(8):
                        payload = payload_for(lrng, D, probe, cls)
                        if cls in ("short", "long") and D[0] == "NullTerminated" and off % 2:
                            # terminator unit inside the payload (aligned)
                            t = bytes.fromhex(D[1])
                            payload = payload[:len(t)] * (len(t) // max(1, len(payload[:len(t)])) if False else 1)
                            payload = (bytes([0x41]) * len(t)) + t + payload
                        data, Df = wrap(lrng, D, payload, variant)
                        if D[0] not in TOEND:
                            data += bytes([0x7a, 0x00][: lrng.randint(0, 2)])
                        buf = bytes([0xEE]) * off + data
                        run_case(ctx, {"chain": [Df], "probe": probe, "data": tag(buf), "offset": off, "cls": cls + "/" + variant})
                        sysn += 1
    ctx.count("systematic_single_delimiter_cases", sysn)
    for j in range(n):
        case = gen_case(rng, maxdepth)
        run_case(ctx, case)
        if j < 2 and ctx.index < 3:
            ctx.sample(case)
    ctx.count("random_chain_cases", n)
    build_confinement(ctx)


def build_confinement(ctx):
    """building: a delimited region is assembled on its own and is exactly what the inner construct wrote, however the inner
    construct moved about inside it (a Pointer that restores the position, a backward Seek)"""
    import construct as C
    inners = [
        ("pointer-ahead", C.Struct("a" / C.Byte, "p" / C.Pointer(2, C.Byte), "b" / C.Byte), {"a": 1, "p": 9, "b": 2}, bytes([1, 2, 9])),
        ("pointer-back", C.Struct("a" / C.Byte, "b" / C.Byte, "p" / C.Pointer(0, C.Byte)), {"a": 1, "b": 2, "p": 9}, bytes([9, 2])),
        ("seek-back", C.Struct("x" / C.Bytes(3), C.Seek(-2, 1), "c" / C.Byte), {"x": b"klm", "c": 7}, b"k\x07m"),
        ("plain", C.Struct("a" / C.Byte, "b" / C.Int16ub), {"a": 1, "b": 0x0203}, bytes([1, 2, 3])),
    ]
    k = 0
    for name, inner, v, region in inners:
        delims = [("FixedSized(6)", C.FixedSized(6, inner), region + bytes(6 - len(region))), ("FixedSized(this._params.n)", C.FixedSized(C.this._params.n, inner), region + bytes(6 - len(region))),
                  ("Prefixed(Byte)", C.Prefixed(C.Byte, inner), bytes([len(region)]) + region), ("Prefixed(Int16ub,includelength)", C.Prefixed(C.Int16ub, inner, includelength=True), (len(region) + 2).to_bytes(2, "big") + region),
                  ("Prefixed(VarInt)", C.Prefixed(C.VarInt, inner), bytes([len(region)]) + region), ("FixedSized(6,FixedSized(4))", C.FixedSized(6, C.FixedSized(4, inner)), region + bytes(6 - len(region)))]
        for dname, dl, want in delims:
            k += 1
            if not ctx.mine(k):
                continue
            for off in (0, 3):
                d = C.Struct("h" / C.Byte, "f" / dl, "t" / C.Int16ub)
                s = TracedStream(bytes([0xEE]) * off, pos=off)
                ctx.ev()
                case = {"build": dname, "inner": name, "offset": off}
                try:
                    d.build_stream({"h": 0x11, "f": v, "t": 0x2233}, s, n=6)
                except Exception as e:
                    ctx.violation("build-region-raises:%s:%s" % (dname.split("(")[0], type(e).__name__), "build raised %s: %s" % (type(e).__name__, e), case)
                    continue
                got = s.getvalue()[off:]
                exp = b"\x11" + want + b"\x22\x33"
                if got != exp or s.pos != off + len(exp):
                    ctx.violation("build-region-not-confined:%s:%s" % (dname.split("(")[0], name), "built %s (stream at %d), the region assembled on its own gives %s (stream at %d)" % (got.hex(), s.pos, exp.hex(), off + len(exp)), case)
                    continue
                ctx.count("build_regions_checked")
                ctx.nontrivial("build-region", dname, name, off)


def replay(ctx, case):
    if "xor-history" in case:
        return xor_key_history(ctx, ctx.rng)
    if "build" in case:
        return build_confinement(ctx)
    run_case(ctx, case)
