"""C13 - constants, validators and label mappings are enforced in both directions; Error always aborts.

Oracles: the predicate evaluated independently on the observed value; the label tables; an activation
counter hooked on the Error singleton (a call during which Error was activated must raise ExplicitError).
Exhaustive over every one-byte domain (all 256 inputs parsed, all 256 values built), 16-bit domains in thorough.
"""
import itertools
from ..common import tag, untag
from ..recipes import mk
from .. import monitors

LEVEL = "exploration"
EXHAUSTIVE = True
RULE = ("instances of Const/OneOf/NoneOf/ExprValidator/Check/Enum/FlagsEnum/Mapping over integer, bytes and string sub-constructs; "
        "each instance driven exhaustively over its one-byte domain (256 inputs parsed, 256 values built; 65536 for two-byte domains in thorough), "
        "all label spellings (name, attribute, int, 'a|b', attr|attr, dict, unknown, mixed), labels obtained from one Enum built by another with a different table, "
        "unmapped integers up to 2^128; predicates with the constant on the left and nested arithmetic; collections that are not lists; validators and Error guards "
        "reading the running index of a repeater (every list over a small domain); the constant a named Const contributes to the build scope; "
        "Error placed under every absorbing/forwarding combinator pair at every alternative position, parse and build. "
        "non-trivial = instance with >=1 accepted and >=1 rejected value in both directions, or an Error placement under >=2 combinators; distinct by instance")
ASSUMPTIONS = ["bool/int aliasing (False == 0) is Python equality, not a violation", "FlagsEnum dict entries with a falsy value are not looked up by the library (documented behaviour) and are not generated with unknown labels"]
REQUIRED_ANCHORS = ["core:Const._parse", "core:Const._build", "core:Validator._decode", "core:ExprValidator.__init__", "core:OneOf", "core:NoneOf",
                    "core:Check._parse", "core:Check._build", "core:Enum._decode", "core:Enum._encode", "core:FlagsEnum._decode", "core:FlagsEnum._encode",
                    "core:Mapping._decode", "core:Mapping._encode", "core:Error._parse", "core:Error._build", "core:Select._parse", "core:Select._build",
                    "core:GreedyRange._parse", "core:Peek._parse"]
ANCHORS = REQUIRED_ANCHORS


def outcome(f):
    try:
        return ("ok", f())
    except Exception as e:
        return ("exc", type(e).__name__)


def is_construct_error(name):
    import construct as C
    t = getattr(C, name, None)
    return isinstance(t, type) and issubclass(t, C.ConstructError)


def domain_inputs(sub, ctx):
    """(recipe of a fixed sub-construct) -> list of all byte patterns of its width (1 byte; 2 bytes in thorough)"""
    d = mk(sub)
    n = d.sizeof()
    if n == 1:
        return [bytes([i]) for i in range(256)], True
    if n == 2 and not ctx.quick:
        return [i.to_bytes(2, "big") for i in range(65536)], True
    if n == 2:
        return [i.to_bytes(2, "big") for i in list(range(0, 65536, 257)) + [0, 1, 255, 256, 0x7fff, 0x8000, 0xffff, 0xfffe]], False
    raise ValueError(n)


# ------------------------------------------------------------------ Const
def case_const(ctx, case):
    sub = case["sub"]
    value = untag(case["value"]) if isinstance(case["value"], (dict, list)) else case["value"]
    d_sub = mk(sub) if sub is not None else None
    d = mk(["Const", case["value"], sub])
    import construct as C
    base = d_sub if d_sub is not None else C.Bytes(len(value))
    enc = base.build(value)
    inputs, full = domain_inputs(sub if sub is not None else ["Bytes", len(value)], ctx)
    acc = rej = 0
    for pat in inputs:
        ctx.ev()
        r = outcome(lambda: d.parse(pat))
        if pat == enc:
            acc += 1
            if r[0] != "ok" or r[1] != value:
                ctx.violation("const-parse-rejects-own-encoding", "Const(%r).parse(%s) -> %r" % (value, pat.hex(), r), dict(case, input=tag(pat)))
        else:
            rej += 1
            # the property: only the exact encoding is accepted; the sub-construct may reject first (e.g. undecodable string)
            if r[0] != "exc" or not is_construct_error(r[1]):
                ctx.violation("const-parse-accepts-other-encoding", "Const(%r).parse(%s) -> %r, expected a ConstructError" % (value, pat.hex(), r), dict(case, input=tag(pat)))
                break
    # build side: None and the value emit the encoding; every other domain value is refused
    for v in (None, value):
        if outcome(lambda: d.build(v)) != ("ok", enc):
            ctx.violation("const-build-wrong-bytes", "Const(%r).build(%r) != %s" % (value, v, enc.hex()), dict(case, built=tag(v)))
    brej = 0
    for pat in inputs:
        try:
            other = base.parse(pat)
        except C.ConstructError:
            continue
        if other == value:
            continue
        ctx.ev()
        brej += 1
        r = outcome(lambda: d.build(other))
        if r != ("exc", "ConstError"):
            ctx.violation("const-build-accepts-other-value:" + ("falsy" if not other else "truthy"),
                          "Const(%r).build(%r) -> %r, expected ConstError" % (value, other, r if r[0] == "exc" else r[1].hex()), dict(case, built=tag(other)))
            break
    # inside a Struct, supplied under its name
    s = C.Struct("sig" / d, "x" / C.Byte)
    if outcome(lambda: s.build(dict(x=1))) != ("ok", enc + b"\x01"):
        ctx.violation("const-in-struct-build", "Struct(sig/Const, x).build without sig did not emit the constant", case)
    # the constant a named Const contributes to the enclosing scope while building is the constant (not what was supplied for it):
    # later members that refer to it take the same branch / pass the same check as on parse
    for how, s2, v2 in (("check", C.Struct("sig" / d, "x" / C.Byte, C.Check(C.this.sig == value)), dict(x=7)),
                        ("check-none", C.Struct("sig" / d, "x" / C.Byte, C.Check(C.this.sig == value)), dict(sig=None, x=7)),
                        ("switch", C.Struct("sig" / d, "x" / C.Switch(C.this.sig, {value: C.Byte}, default=C.Error)), dict(x=7)),
                        ("sequence", C.Sequence("sig" / d, C.Byte, C.Check(C.this.sig == value)), [None, 7, None]),
                        ("focused", C.FocusedSeq("x", "sig" / d, "x" / C.Byte, C.Check(C.this.sig == value)), 7)):
        ctx.ev()
        if isinstance(value, (bytes, int, str)) and not (isinstance(value, float)):
            rb = outcome(lambda: s2.build(v2))
            rp = outcome(lambda: s2.parse(enc + b"\x07"))
            if rp[0] == "ok" and rb != ("ok", enc + b"\x07"):
                ctx.violation("const-not-in-build-context:" + how, "parse(%s) succeeds but building the same record without the constant -> %r" % ((enc + b"\x07").hex(), rb), dict(case, how=how))
                break
    ctx.count("const_instances")
    if acc and rej and brej:
        ctx.nontrivial("const", case)


# ------------------------------------------------------------------ validators
PREDS = {
    "oneof": lambda params: (lambda v: v in params),
    "noneof": lambda params: (lambda v: v not in params),
    "even": lambda params: (lambda v: v & 1 == 0),
    "lt": lambda params: (lambda v: v < params[0]),
    "maskeq": lambda params: (lambda v: v & params[0] == params[1]),
    "neq": lambda params: (lambda v: v != params[0]),
    # predicates spelled with the constant on the left (reflected operators) and with nested arithmetic
    "bitset": lambda params: (lambda v: ((1 << (v & 7)) & params[0]) != 0),
    "rsub": lambda params: (lambda v: (params[0] - v) > params[1]),
    "rdiv": lambda params: (lambda v: v != 0 and (params[0] // v) == params[1]),
    "rmod": lambda params: (lambda v: v != 0 and (params[0] % v) == params[1]),
    "rpow": lambda params: (lambda v: (2 ** (v & 3)) == params[0]),
    "rshift": lambda params: (lambda v: (params[0] >> (v & 7)) & 1 == 1),
    # | ^ and & used as bitwise operators on integers (not as stand-ins for or / and), also with a non-zero left operand
    "halves": lambda params: (lambda v: (v // 2) * 2 == v - params[0]),
    "truediv": lambda params: (lambda v: (v / 4) == params[0]),
    "bitor": lambda params: (lambda v: (v | params[0]) == params[1]),
    "rbitor": lambda params: (lambda v: (params[0] | v) & params[1] == params[1]),
    "bitxor": lambda params: (lambda v: ((v ^ params[0]) & params[1]) != 0),
    "ormix": lambda params: (lambda v: ((v & params[0]) | (v >> 4)) == params[1]),
}


def collection_of(case, params):
    """the collection object handed to OneOf/NoneOf: the predicate is Python's `in` on exactly this object (a bytes literal tests
    containment of a byte value or of a sub-string, a range tests arithmetic membership, a dict its keys)"""
    coll = case.get("coll")
    if coll == "set":
        return set(params) if case["pred"] == "oneof" else frozenset(params)
    if coll == "tuple":
        return tuple(params)
    if coll == "literal":              # a bytes / str literal
        return params[0]
    if coll == "range":
        return range(*params)
    if coll == "dict":
        return {k: None for k in params}
    return params


def mk_validator(case):
    import construct as C
    sub = mk(case["sub"])
    p, params = case["pred"], [untag(x) if isinstance(x, dict) else x for x in case["params"]]
    if p == "oneof":
        return C.OneOf(sub, collection_of(case, params)), "obj"
    if p == "noneof":
        return C.NoneOf(sub, collection_of(case, params)), "obj"
    if p == "even":
        return C.ExprValidator(sub, C.obj_ & 1 == 0), "obj"
    if p == "lt":
        return C.ExprValidator(sub, C.obj_ < params[0]), "obj"
    if p == "maskeq":
        return C.ExprValidator(sub, C.obj_ & params[0] == params[1]), "obj"
    if p == "bitset":
        return C.ExprValidator(sub, ((1 << (C.obj_ & 7)) & params[0]) != 0), "obj"
    if p == "rsub":
        return C.ExprValidator(sub, (params[0] - C.obj_) > params[1]), "obj"
    if p == "rdiv":
        if case.get("form") == "check":
            return C.Struct("x" / sub, C.Check((C.this.x != 0) & ((params[0] // (C.this.x + (C.this.x == 0))) == params[1]))), "check"
        return C.ExprValidator(sub, (C.obj_ != 0) & ((params[0] // (C.obj_ + (C.obj_ == 0))) == params[1])), "obj"
    if p == "halves":
        return C.Struct("x" / sub, C.Check((C.this.x // 2) * 2 == C.this.x - params[0])), "check"
    if p == "truediv":
        return C.Struct("x" / sub, C.Check((C.this.x / 4) == params[0])), "check"
    if p == "rmod":
        return C.ExprValidator(sub, (C.obj_ != 0) & ((params[0] % (C.obj_ + (C.obj_ == 0))) == params[1])), "obj"
    if p == "rpow":
        return C.ExprValidator(sub, (2 ** (C.obj_ & 3)) == params[0]), "obj"
    if p == "rshift":
        if case.get("form") == "check":
            return C.Struct("x" / sub, C.Check((params[0] >> (C.this.x & 7)) & 1 == 1)), "check"
        return C.ExprValidator(sub, (params[0] >> (C.obj_ & 7)) & 1 == 1), "obj"
    if p == "bitor":
        if case.get("form") == "check":
            return C.Struct("x" / sub, C.Check((C.this.x | params[0]) == params[1])), "check"
        return C.ExprValidator(sub, (C.obj_ | params[0]) == params[1]), "obj"
    if p == "rbitor":
        return C.ExprValidator(sub, (params[0] | C.obj_) & params[1] == params[1]), "obj"
    if p == "bitxor":
        return C.ExprValidator(sub, ((C.obj_ ^ params[0]) & params[1]) != 0), "obj"
    if p == "ormix":
        return C.ExprValidator(sub, ((C.obj_ & params[0]) | (C.obj_ >> 4)) == params[1]), "obj"
    if p == "neq":
        if case.get("form") == "check":
            return C.Struct("x" / sub, C.Check(C.this.x != params[0])), "check"
        return C.ExprValidator(sub, C.obj_ != params[0]), "obj"
    raise ValueError(p)


def case_validator(ctx, case):
    import construct as C
    d, form = mk_validator(case)
    sub = mk(case["sub"])
    params = [untag(x) if isinstance(x, dict) else x for x in case["params"]]
    pred = PREDS[case["pred"]](collection_of(case, params) if case["pred"] in ("oneof", "noneof") else params)
    inputs, full = domain_inputs(case["sub"], ctx)
    pa = pr = ba = br = 0
    errname = "ValidationError" if form == "obj" else "CheckError"
    for pat in inputs:
        v = sub.parse(pat)
        want = bool(pred(v))
        ctx.ev(2)
        r = outcome(lambda: d.parse(pat))
        if form == "check":
            b = outcome(lambda: d.build(dict(x=v)))
            okp = r[0] == "ok" and r[1].x == v
        else:
            b = outcome(lambda: d.build(v))
            okp = r[0] == "ok" and r[1] == v
        if want:
            pa += 1
            if not okp:
                ctx.violation("validator-parse-rejects-valid:" + case["pred"], "parse(%s) -> %r but predicate holds for %r" % (pat.hex(), r, v), dict(case, input=tag(pat)))
                break
            if b != ("ok", pat):
                ctx.violation("validator-build-rejects-valid:" + case["pred"], "build(%r) -> %r but predicate holds" % (v, b), dict(case, input=tag(pat)))
                break
            ba += 1
        else:
            pr += 1
            if r != ("exc", errname):
                ctx.violation("validator-parse-admits-invalid:" + case["pred"], "parse(%s) -> %r but predicate is false for %r" % (pat.hex(), r, v), dict(case, input=tag(pat)))
                break
            if b != ("exc", errname):
                ctx.violation("validator-build-admits-invalid:" + case["pred"], "build(%r) -> %r but predicate is false" % (v, b), dict(case, input=tag(pat)))
                break
            br += 1
    ctx.count("validator_instances")
    if pa and pr and ba and br:
        ctx.nontrivial("validator", case)
    if form == "check":
        # the same constraint in the generated-code implementation (the predicate is pasted into the source as text): it admits
        # exactly the values the predicate admits, in both directions
        dc = outcome(lambda: d.compile())
        if dc[0] == "ok":
            for pat in inputs:
                v = sub.parse(pat)
                want = bool(pred(v))
                ctx.ev()
                rp = outcome(lambda: dc[1].parse(pat))
                rb = outcome(lambda: dc[1].build(dict(x=v)))
                if (rp[0] == "ok") != want or (rb[0] == "ok") != want:
                    ctx.violation("validator-compiled-differs:" + case["pred"], "compiled Check on %r: parse %s, build %s, the predicate %s" % (v, rp[0], rb[0], "holds" if want else "is false"), dict(case, input=tag(pat)))
                    break
            ctx.count("validator_instances_compiled")


# ------------------------------------------------------------------ Enum / FlagsEnum / Mapping
def class_labels(case):
    """For the IntEnum/IntFlag forms the label table is what iterating the enum class yields
    (Python drops aliases and, for IntFlag, non-canonical multi-bit members) - that is the
    documented 'merge labels and values from' source, so it is the table the oracle uses."""
    import enum
    labels = [(n, v) for n, v in case["labels"]]
    form = case.get("form", "")
    if form == "EnumClass":
        return [(e.name, int(e.value)) for e in enum.IntEnum("E", labels)]
    if form == "FlagsEnumClass":
        return [(e.name, int(e.value)) for e in enum.IntFlag("E", labels)]
    return labels


def case_enum(ctx, case):
    import construct as C
    labels = [(n, v) for n, v in case["labels"]]
    d = mk([case.get("form", "Enum"), case["sub"], labels])
    labels = class_labels(case)
    sub = mk(case["sub"])
    l2v = dict(labels)
    v2l = {}
    for n, v in labels:
        v2l[v] = n          # last label wins for duplicate values (dict comprehension order)
    inputs, full = domain_inputs(case["sub"], ctx)
    mapped = unmapped = 0
    for pat in inputs:
        iv = sub.parse(pat)
        ctx.ev()
        r = outcome(lambda: d.parse(pat))
        if r[0] != "ok":
            ctx.violation("enum-parse-raises", "Enum.parse(%s) -> %r" % (pat.hex(), r), dict(case, input=tag(pat)))
            break
        pv = r[1]
        if iv in v2l:
            mapped += 1
            if not (isinstance(pv, str) and str(pv) == v2l[iv] and int(pv) == iv):
                ctx.violation("enum-parse-wrong-label", "Enum.parse(%s) = %r, table says %r (%d)" % (pat.hex(), pv, v2l[iv], iv), dict(case, input=tag(pat)))
                break
        else:
            unmapped += 1
            if not (isinstance(pv, int) and not isinstance(pv, str) and int(pv) == iv):
                ctx.violation("enum-parse-unmapped-changed", "Enum.parse(%s) = %r, expected the integer %d" % (pat.hex(), pv, iv), dict(case, input=tag(pat)))
                break
        # translate back: the parsed object, its int, must build to the same bytes
        for spelled in (pv, int(pv)):
            b = outcome(lambda: d.build(spelled))
            if b != ("ok", pat):
                ctx.violation("enum-build-inconsistent", "Enum.build(%r) -> %r, parsed from %s" % (spelled, b, pat.hex()), dict(case, input=tag(pat)))
                return
    for n, v in labels:
        ctx.ev()
        want = outcome(lambda: sub.build(v))
        at = outcome(lambda: getattr(d, n))
        # (with several labels for one number the object may carry another label of the same number: the table is one-to-one on decode)
        if at[0] != "ok" or not (isinstance(at[1], str) and l2v.get(str(at[1])) == v and int(at[1]) == v):
            ctx.violation("enum-attribute", "Enum.%s -> %r, expected a label object for the number %d" % (n, at, v), dict(case, built=tag(n)))
            return
        for spelled in (n, at[1]):
            if outcome(lambda: d.build(spelled)) != want:
                ctx.violation("enum-build-label", "Enum.build(%r) != encoding of %d" % (spelled, v), dict(case, built=tag(n)))
    for unk in ("nosuchlabel", "", labels[0][0].upper() + "_x", labels[0][0] + " "):
        if unk in l2v:
            continue
        ctx.ev()
        r = outcome(lambda: d.build(unk))
        if r != ("exc", "MappingError"):
            ctx.violation("enum-build-accepts-unknown-label", "Enum.build(%r) -> %r, expected MappingError" % (unk, r), dict(case, built=unk))
    # a label obtained from this Enum (parse result / attribute) handed to another Enum over the same field whose numbering
    # differs and which lacks one label: a label is a name, the other table decides the number
    names = list(l2v)
    other = [(n, l2v[names[(i + 1) % len(names)]]) for i, n in enumerate(names)][:max(1, len(names) - 1)] if len(names) > 1 else [("zz" + names[0], l2v[names[0]])]
    d2 = mk(["Enum", case["sub"], other])
    o2v = dict(other)
    for n, v in labels:
        objs = [getattr(d, n)]
        pb = outcome(lambda: sub.build(v))
        if pb[0] == "ok":
            pr = outcome(lambda: d.parse(pb[1]))
            if pr[0] == "ok" and isinstance(pr[1], str):
                objs.append(pr[1])
        for obj in objs:
            ctx.ev()
            want = outcome(lambda: sub.build(o2v[str(obj)])) if str(obj) in o2v else ("exc", "MappingError")
            got = outcome(lambda: d2.build(obj))
            if got != want:
                ctx.violation("enum-label-from-another-enum", "label %r (from an Enum where it is %d) built by an Enum with table %r -> %r, expected %r" % (str(obj), int(obj), other, got, want), dict(case, built=str(obj)))
                break
    ctx.count("enum_instances")
    if mapped and unmapped:
        ctx.nontrivial("enum", case)


def case_enum_big(ctx, case):
    """unmapped integers of any magnitude are preserved (variable-length / 16-byte sub-constructs)"""
    import construct as C
    labels = [(n, v) for n, v in case["labels"]]
    for subr in (["name", "VarInt"], ["BytesInteger", 16, False, False], ["name", "ZigZag"]):
        d = mk([case.get("form", "Enum"), subr, labels])
        sub = mk(subr)
        for v in case["values"]:
            v = untag(v) if isinstance(v, dict) else v
            if v < 0 and subr[1] != "ZigZag":
                continue
            ctx.ev()
            want = outcome(lambda: sub.build(v))
            b = outcome(lambda: d.build(v))
            if b != want:
                ctx.violation("enum-big-build", "Enum(%s).build(%d) -> %r, sub-construct gives %r" % (subr, v, b, want), dict(case, value=tag(v)))
                continue
            if want[0] == "ok" and case.get("form", "Enum") == "Enum":
                r = outcome(lambda: d.parse(want[1]))
                if r[0] != "ok" or int(r[1]) != v:
                    ctx.violation("enum-big-parse", "Enum(%s).parse(build(%d)) -> %r" % (subr, v, r), dict(case, value=tag(v)))
    ctx.count("enum_big_instances")
    ctx.nontrivial("enumbig", case)


def case_flags(ctx, case):
    import construct as C
    labels = [(n, v) for n, v in case["labels"]]
    d = mk([case.get("form", "FlagsEnum"), case["sub"], labels])
    labels = class_labels(case)
    sub = mk(case["sub"])
    l2v = dict(labels)
    inputs, full = domain_inputs(case["sub"], ctx)
    partial = 0
    for pat in inputs:
        iv = sub.parse(pat)
        ctx.ev()
        r = outcome(lambda: d.parse(pat))
        want = {n: (iv & v == v) for n, v in l2v.items()}
        if r[0] != "ok" or {k: val for k, val in r[1].items() if k != "_flagsenum"} != want:
            ctx.violation("flagsenum-parse", "FlagsEnum.parse(%s) = %r, table says %r" % (pat.hex(), r, want), dict(case, input=tag(pat)))
            break
        if any((iv & v) and (iv & v) != v for v in l2v.values()):
            partial += 1
        # build from the parsed container: OR of the set labels
        orv = 0
        for n, v in l2v.items():
            if want[n]:
                orv |= v
        wb = outcome(lambda: sub.build(orv))
        b = outcome(lambda: d.build(r[1]))
        if b != wb:
            ctx.violation("flagsenum-build-from-parsed", "FlagsEnum.build(parse(%s)) -> %r, OR of set labels encodes to %r" % (pat.hex(), b, wb), dict(case, input=tag(pat)))
            break
        # integer spelling preserved as is
        if outcome(lambda: d.build(iv)) != ("ok", pat):
            ctx.violation("flagsenum-build-int", "FlagsEnum.build(%d) != %s" % (iv, pat.hex()), dict(case, input=tag(pat)))
            break
    names = [n for n, _ in labels]
    combos = [c for k in (1, 2, 3) for c in itertools.combinations(names, k)][:40]
    for combo in combos:
        orv = 0
        for n in combo:
            orv |= l2v[n]
        want = outcome(lambda: sub.build(orv))
        bw = getattr(d, combo[0])
        for n in combo[1:]:
            bw = bw | getattr(d, n)
        spellings = {"str": "|".join(combo), "str-spaced": " | ".join(combo), "attr": bw, "dict": {n: True for n in combo},
                     "dict-false": dict({n: True for n in combo}, **{m: False for m in names if m not in combo}), "int": orv}
        for how, sp in spellings.items():
            ctx.ev()
            if outcome(lambda: d.build(sp)) != want:
                ctx.violation("flagsenum-build-spelling:" + how, "FlagsEnum.build(%r) != encoding of %d" % (sp, orv), dict(case, built=tag(sp) if not isinstance(sp, str) else str(sp)))
    for unk in ("nosuch", names[0] + "|nosuch", {"nosuch": True}, {names[0]: True, "other": 1}, 1.5, None, [names[0]], "_nosuch", names[0] + "|_nosuch", "_flagsenum"):
        ctx.ev()
        r = outcome(lambda: d.build(unk))
        if r != ("exc", "MappingError"):
            ctx.violation("flagsenum-build-accepts-unknown", "FlagsEnum.build(%r) -> %r, expected MappingError" % (unk, r), dict(case, built=repr(unk)))
    ctx.count("flagsenum_instances")
    if partial:
        ctx.count("flagsenum_inputs_with_partially_set_multibit_label", partial)
    ctx.nontrivial("flags", case)


def case_mapping(ctx, case):
    import construct as C
    pairs = [((untag(k) if isinstance(k, dict) else k), v) for k, v in case["pairs"]]
    d = mk(["Mapping", case["sub"], case["pairs"]])
    sub = mk(case["sub"])
    dec = {}
    for k, v in pairs:
        dec[v] = k
    inputs, full = domain_inputs(case["sub"], ctx)
    a = r_ = 0
    for pat in inputs:
        iv = sub.parse(pat)
        ctx.ev()
        r = outcome(lambda: d.parse(pat))
        if iv in dec:
            a += 1
            if r != ("ok", dec[iv]):
                ctx.violation("mapping-parse", "Mapping.parse(%s) -> %r, table says %r" % (pat.hex(), r, dec[iv]), dict(case, input=tag(pat)))
                break
            if outcome(lambda: d.build(dec[iv])) != ("ok", pat):
                ctx.violation("mapping-build-inconsistent", "Mapping.build(%r) != %s" % (dec[iv], pat.hex()), dict(case, input=tag(pat)))
                break
        else:
            r_ += 1
            if r != ("exc", "MappingError"):
                ctx.violation("mapping-parse-unmapped", "Mapping.parse(%s) -> %r, expected MappingError" % (pat.hex(), r), dict(case, input=tag(pat)))
                break
    for unk in ("nosuch", 12345, None, b"zz", [1], {"a": 1}, 2.5):
        if any(unk == k for k, _ in pairs if type(k) == type(unk)):
            continue
        ctx.ev()
        r = outcome(lambda: d.build(unk))
        if r != ("exc", "MappingError"):
            ctx.violation("mapping-build-accepts-unknown", "Mapping.build(%r) -> %r, expected MappingError" % (unk, r), dict(case, built=repr(unk)))
    ctx.count("mapping_instances")
    if a and r_:
        ctx.nontrivial("mapping", case)


# ------------------------------------------------------------------ Error under combinators
WRAPPERS = ["Select1", "Select2", "Optional", "GreedyRange", "Peek", "Struct", "Sequence", "SwitchDefault", "SwitchCase", "IfThen", "IfElse",
            "FocusedSeq", "Array", "RepeatUntil", "Union", "Prefixed", "FixedSized", "NullTerminated", "NullTerminatedLax", "Padded", "Aligned",
            "RawCopy", "Pointer", "Lazy", "LazyStruct", "LazyArray", "Hex", "Renamed", "Bitwise", "Default", "StructAfterByte", "GreedyRangeStruct", "OptionalStruct"]


def wrap(name, inner):
    """inner: recipe"""
    B = ["name", "Byte"]
    return {
        "Select1": ["Select", [inner, B]],
        "Select2": ["Select", [["Const", tag(b"\xfe"), None], inner, B]],
        "Optional": ["Optional", inner],
        "GreedyRange": ["GreedyRange", inner],
        "Peek": ["Peek", inner],
        "Struct": ["Struct", [["e", inner]]],
        "StructAfterByte": ["Struct", [["a", B], [None, inner], ["b", B]]],
        "Sequence": ["Sequence", [[None, B], [None, inner]]],
        "SwitchDefault": ["Switch", 5, [[1, B]], inner],
        "SwitchCase": ["Switch", 1, [[1, inner]], B],
        "IfThen": ["IfThenElse", True, inner, B],
        "IfElse": ["IfThenElse", False, B, inner],
        "FocusedSeq": ["FocusedSeq", "x", [["x", B], ["e", inner]]],
        "Array": ["Array", 2, inner],
        "RepeatUntil": ["RepeatUntil", True, inner],
        "Union": ["Union", None, [["a", B], ["e", inner]]],
        "Prefixed": ["Prefixed", B, inner],
        "FixedSized": ["FixedSized", 2, inner],
        "NullTerminated": ["NullTerminated", inner],
        "NullTerminatedLax": ["NullTerminated", inner, tag(b"\x00"), False, True, False],
        "Padded": ["Padded", 3, inner],
        "Aligned": ["Aligned", 2, inner],
        "RawCopy": ["RawCopy", inner],
        "Pointer": ["Pointer", 1, inner],
        "Lazy": ["Struct", [["l", ["Lazy", inner]], ["touch", ["Computed", 1]]]],
        "LazyStruct": ["LazyStruct", [["a", B], ["e", inner]]],
        "LazyArray": ["LazyArray", 2, inner],
        "Hex": ["Hex", inner],
        "Renamed": ["Renamed", "n", inner, "docs"],
        "Bitwise": ["Bitwise", ["Struct", [["x", ["name", "Octet"]], ["e", inner]]]],
        "Default": ["Default", inner, 0],
        "GreedyRangeStruct": ["GreedyRange", ["Struct", [["a", B], ["e", inner]]]],
        "OptionalStruct": ["Optional", ["Struct", [["a", B], ["e", inner]]]],
    }[name]


def value_for(r):
    """some build value that lets build reach every member of recipe r (Error builds from anything)"""
    k = r[0]
    if k == "name":
        return 1 if r[1] in ("Byte", "Octet") else None
    if k in ("Struct", "LazyStruct"):
        return {n: value_for(x) for n, x in r[1] if n}
    if k == "Union":
        return {n: value_for(x) for n, x in r[2] if n and n == "e"}
    if k == "Sequence":
        return [value_for(x) for n, x in r[1]]
    if k == "FocusedSeq":
        return 1
    if k in ("Array", "LazyArray"):
        return [value_for(r[2])] * r[1]
    if k in ("GreedyRange",):
        return [value_for(r[1])] * 2
    if k == "RepeatUntil":
        return [value_for(r[2])]
    if k == "Select":
        return value_for(r[1][1] if len(r[1]) > 1 and r[1][0][0] == "Const" else r[1][0])
    if k in ("Optional", "Peek", "RawCopy", "Lazy", "Hex", "Bitwise", "NullTerminated"):
        v = value_for(r[1])
        return {"value": v} if k == "RawCopy" else v
    if k == "Switch":
        return value_for(r[3] if r[1] == 5 else r[2][0][1])
    if k == "IfThenElse":
        return value_for(r[2] if r[1] else r[3])
    if k in ("Prefixed", "FixedSized", "Padded", "Aligned", "Pointer"):
        return value_for(r[2])
    if k == "Renamed":
        return value_for(r[2])
    if k == "Default":
        return value_for(r[1])
    if k == "Const":
        return None
    return None


def case_error(ctx, case):
    chain = case["wrappers"]
    r = ["name", "Error"]
    for w in reversed(chain):
        r = wrap(w, r)
    try:
        d = mk(r)
    except Exception as e:
        ctx.count("error_placements_not_constructible")
        return
    monitors.ERRORS.install()
    for data in (b"\x01\x02\x03\x04\x05\x06", b"\x02\x00\x00\x00", b"", b"\x00"):
        ctx.ev()
        n0 = monitors.ERRORS.n
        res = outcome(lambda: force_all(d.parse(data)))
        act = monitors.ERRORS.n - n0
        if act:
            ctx.count("error_activations_parse")
            if res != ("exc", "ExplicitError"):
                ctx.violation("error-swallowed-parse:" + culprit(chain), "Error was activated %d time(s) during parse under %s but the call ended with %r" % (act, "/".join(chain), res if res[0] == "exc" else "a value"),
                              dict(case, input=tag(data)))
                break
    v = value_for(r)
    ctx.ev()
    n0 = monitors.ERRORS.n
    res = outcome(lambda: d.build(v))
    act = monitors.ERRORS.n - n0
    if act:
        ctx.count("error_activations_build")
        if res != ("exc", "ExplicitError"):
            ctx.violation("error-swallowed-build:" + culprit(chain), "Error was activated during build under %s but the call ended with %r" % ("/".join(chain), res if res[0] == "exc" else "bytes " + res[1].hex()), case)
    else:
        ctx.count("error_not_reached_in_build")
        # the value generated for the chain reaches the Error member unless a wrapper on the way never builds its inner construct (Peek),
        # builds an earlier alternative first (Select2), or hands None to an inner wrapper that needs a value (a non-focused /
        # anonymous member above another wrapper): everywhere else a build that does not end in ExplicitError has lost the Error
        if not ({"Peek", "Select2"} & set(chain)) and all(w not in ("FocusedSeq", "StructAfterByte") for w in chain[:-1]) and res != ("exc", "ExplicitError"):
            ctx.violation("error-not-reached-build:" + culprit(chain), "build under %s ended with %r without the Error member ever being built" % ("/".join(chain), res if res[0] == "exc" else "success"), case)
    if len(chain) >= 2:
        ctx.nontrivial("error", chain)


def culprit(chain):
    return chain[-1] if len(chain) == 1 else chain[0] + ">" + chain[-1]


def force_all(v, depth=0):
    """touch lazy results so that deferred parsing happens inside the monitored call"""
    if depth > 6:
        return v
    if callable(v) and getattr(v, "__name__", "") == "execute":
        return force_all(v(), depth + 1)
    tn = type(v).__name__
    if tn == "LazyContainer":
        for k in list(v.keys()):
            force_all(v[k], depth + 1)
    elif tn == "LazyListContainer":
        for i in range(len(v)):
            force_all(v[i], depth + 1)
    elif isinstance(v, dict):
        for k, x in list(dict.items(v)):
            if not (isinstance(k, str) and k.startswith("_")):
                force_all(x, depth + 1)
    elif isinstance(v, list):
        for x in v:
            force_all(x, depth + 1)
    return v


def case_index(ctx, case):
    """validators that read the running index of a repeater: every list over {0..3} of length 0..3 is admitted on parse exactly
    when it is admitted on build, namely when the predicate (v[i] >= i / v[i] != i) holds for every element"""
    import construct as C
    form, rep, pr = case["form"], case["rep"], case["pred"]
    pyp = {"ge": (lambda v, i: v >= i), "ne": (lambda v, i: v != i)}[pr]
    if form == "check":
        elem = C.Struct("v" / C.Byte, C.Check((C.this.v >= C.this._index) if pr == "ge" else (C.this.v != C.this._index)))
        lift, unlift = (lambda v: {"v": v}), (lambda e: e["v"])
    elif form == "exprvalidator":
        elem = C.ExprValidator(C.Byte, (lambda obj, ctx: obj >= ctx._index) if pr == "ge" else (lambda obj, ctx: obj != ctx._index))
        lift, unlift = (lambda v: v), (lambda e: e)
    else:
        elem = C.Struct("v" / C.Byte, "g" / C.IfThenElse((C.this.v >= C.this._index) if pr == "ge" else (C.this.v != C.this._index), C.Pass, C.Error))
        lift, unlift = (lambda v: {"v": v, "g": None}), (lambda e: e["v"])
    for n in range(0, 4):
        if rep == "array":
            d = C.Array(n, elem)
        elif rep == "greedy":
            d = C.Struct("xs" / C.GreedyRange(elem), C.Terminated)
        elif rep == "nested":
            d = C.Array(2, C.Struct("p" / C.Prefixed(C.Byte, C.Struct("xs" / C.GreedyRange(elem), C.Terminated))))
        else:
            d = C.Struct("h" / C.Byte, "xs" / C.Array(n, elem))
        for tup in itertools.product(range(4), repeat=n):
            vals = list(tup)
            ok = all(pyp(v, i) for i, v in enumerate(vals))
            if rep == "array":
                data, value, back = bytes(vals), [lift(v) for v in vals], (lambda r: [unlift(e) for e in r])
            elif rep == "greedy":
                data, value, back = bytes(vals), {"xs": [lift(v) for v in vals]}, (lambda r: [unlift(e) for e in r["xs"]])
            elif rep == "nested":
                data, value, back = bytes([n]) + bytes(vals) + bytes([n]) + bytes(vals), [{"p": {"xs": [lift(v) for v in vals]}}] * 2, (lambda r: [unlift(e) for e in r[1]["p"]["xs"]])
            else:
                data, value, back = b"\x07" + bytes(vals), {"h": 7, "xs": [lift(v) for v in vals]}, (lambda r: [unlift(e) for e in r["xs"]])
            ctx.ev(2)
            p = outcome(lambda: back(d.parse(data)))
            b = outcome(lambda: d.build(value))
            cc = dict(case, values=vals)
            if ok:
                if p != ("ok", vals):
                    ctx.violation("index-validator-parse-rejects-valid:" + rep, "parse(%s) -> %r, predicate holds for every element" % (data.hex(), p), cc)
                    return
                if b != ("ok", data):
                    ctx.violation("index-validator-build-rejects-valid:" + rep, "build(%r) -> %r, predicate holds for every element (parse admits %s)" % (vals, b, data.hex()), cc)
                    return
            else:
                if p[0] == "ok":
                    ctx.violation("index-validator-parse-admits-invalid:" + rep, "parse(%s) -> %r, predicate fails for some element" % (data.hex(), p), cc)
                    return
                if b[0] == "ok" or not is_construct_error(b[1]):
                    ctx.violation("index-validator-build-admits-invalid:" + rep, "build(%r) -> %r, predicate fails for some element" % (vals, b if b[0] == "exc" else b[1].hex()), cc)
                    return
    ctx.count("index_validator_instances")
    ctx.nontrivial("index", case)


def case_over_default(ctx, case):
    """validators and label tables around a sub-construct that builds from nothing (Default): building with the value left out
    either is refused or emits bytes that the same construct accepts back - what is serialised never violates the constraint"""
    import construct as C
    dv = case["default"]
    sub = C.Default(C.Byte, dv)
    forms = {"oneof": C.OneOf(sub, [1, 2, 3]), "noneof": C.NoneOf(sub, [9, 0]), "expr": C.ExprValidator(sub, C.obj_ < 5), "mapping": C.Mapping(sub, {"a": 1, "b": 2}),
             "enum": C.Enum(sub, a=1, b=2), "flags": C.FlagsEnum(sub, r=1, w=2), "check": C.Struct("x" / sub, C.Check(C.this.x < 5))}
    holds = {"oneof": lambda v: v in (1, 2, 3), "noneof": lambda v: v not in (9, 0), "expr": lambda v: v < 5, "mapping": lambda v: v in (1, 2), "enum": lambda v: True, "flags": lambda v: True,
             "check": lambda v: v < 5}
    for name, d in forms.items():
        for how, v in (("none", None), ("omitted-in-struct", "omit")):
            ctx.ev()
            if how == "none":
                r = outcome(lambda: d.build(None if name != "check" else {}))
            else:
                if name == "check":
                    continue
                s2 = C.Struct("h" / C.Byte, "v" / d)
                r = outcome(lambda: s2.build(dict(h=1)))
            if r[0] != "ok":
                continue                       # refused: fine
            raw = r[1][-1] if how != "none" or name != "check" else r[1][0]
            if name in ("oneof", "noneof", "expr", "mapping", "check") and not holds[name](raw):
                ctx.violation("validator-build-emits-refused-value:" + name, "%s over Default(Byte, %d) built with the value left out emitted %s, which violates the constraint" % (name, dv, r[1].hex()), dict(case, form=name, how=how))
                continue
            back = outcome(lambda: (d.parse(r[1]) if how == "none" else C.Struct("h" / C.Byte, "v" / d).parse(r[1])))
            if back[0] != "ok":
                ctx.violation("validator-build-emits-refused-value:" + name, "%s over Default(Byte, %d) built with the value left out emitted %s, which the same construct refuses to parse (%s)" % (name, dv, r[1].hex(), back[1]), dict(case, form=name, how=how))
                continue
    ctx.count("validators_over_default")
    ctx.nontrivial("over-default", dv)


def case_const_noncanonical(ctx, case):
    """Const over a sub-construct that has several encodings of one value: only the exact encoding of the constant (the one
    build emits) is accepted on parse, not another encoding that the sub-construct maps to the same value"""
    import construct as C
    forms = {"varint": (C.VarInt, 1, [b"\x81\x00", b"\x81\x80\x00"]), "varint0": (C.VarInt, 0, [b"\x80\x00"]), "zigzag": (C.ZigZag, -1, [b"\x81\x00"]),
             "flag": (C.Flag, True, [b"\x02", b"\xff", b"\x80"]), "padded": (C.Padded(3, C.Byte), 5, [b"\x05\xff\xff", b"\x05\x00\x01"]),
             "paddedstring": (C.PaddedString(4, "ascii"), "ab", [b"ab\x00x", b"ab\x00\x01"]), "aligned": (C.Aligned(4, C.Int16ub), 7, [b"\x00\x07\xaa\xbb"]),
             "prefixed": (C.Prefixed(C.Byte, C.Byte), 9, [b"\x02\x09\xee", b"\x03\x09\x00\x00"]), "fixedsized": (C.FixedSized(3, C.Byte), 9, [b"\x09\x01\x02"])}
    sub, value, alts = forms[case["which"]]
    d = C.Const(value, sub)
    enc = sub.build(value)
    ctx.ev()
    if outcome(lambda: d.build(None)) != ("ok", enc) or outcome(lambda: d.parse(enc)) != ("ok", value):
        ctx.violation("const-parse-rejects-own-encoding", "Const(%r, %s): build(None) / parse of its encoding %s wrong" % (value, case["which"], enc.hex()), case)
        return
    for alt in alts:
        ctx.ev()
        if outcome(lambda: sub.parse(alt)) != ("ok", value):
            ctx.count("alternative_encoding_not_accepted_by_the_subconstruct")
            continue
        r = outcome(lambda: d.parse(alt))
        if r[0] == "ok":
            ctx.violation("const-accepts-another-encoding-of-its-value", "Const(%r, %s).parse(%s) -> %r; the constant's encoding is %s" % (value, case["which"], alt.hex(), r[1], enc.hex()), dict(case, input=tag(alt)))
            return
    ctx.count("const_over_noncanonical_subconstructs")
    ctx.nontrivial("const-noncanonical", case["which"])


def case_const_contexts(ctx, case):
    """one Const object whose sub-construct depends on the context, used under several contexts in turn: it always emits, and
    only accepts, the encoding of its constant under the context of that call"""
    import construct as C
    forms = {"width": (lambda: C.Const(1, C.BytesInteger(C.this._params.w)), [{"w": 1}, {"w": 2}, {"w": 3}], lambda kw: (1).to_bytes(kw["w"], "big")),
             "branch": (lambda: C.Const(1, C.IfThenElse(C.this._params.wide, C.Int16ub, C.Int8ub)), [{"wide": False}, {"wide": True}], lambda kw: b"\x00\x01" if kw["wide"] else b"\x01"),
             "swapped": (lambda: C.Const(258, C.BytesInteger(2, swapped=C.this._params.le)), [{"le": False}, {"le": True}], lambda kw: b"\x02\x01" if kw["le"] else b"\x01\x02"),
             "padded": (lambda: C.Const(b"AB", C.Padded(C.this._params.n, C.Bytes(2))), [{"n": 2}, {"n": 4}, {"n": 3}], lambda kw: b"AB" + bytes(kw["n"] - 2)),
             "in-struct": (lambda: C.Struct("sig" / C.Const(7, C.BytesInteger(C.this._params.w)), "x" / C.Byte), [{"w": 1}, {"w": 3}], lambda kw: (7).to_bytes(kw["w"], "big") + b"\x09")}
    mkd, kws, enc = forms[case["which"]]
    d = mkd()
    seq = kws + kws[::-1] + kws
    for kw in seq:
        ctx.ev()
        want = enc(kw)
        v = None if case["which"] != "in-struct" else {"x": 9}
        b = outcome(lambda: d.build(v, **kw))
        if b != ("ok", want):
            ctx.violation("const-build-depends-on-earlier-calls:" + case["which"], "build under %r -> %r, the constant encodes to %s under this context (sequence %r)" % (kw, b, want.hex(), seq[:3]), dict(case, kw=kw))
            return
        r = outcome(lambda: d.parse(want, **kw))
        if r[0] != "ok":
            ctx.violation("const-parse-rejects-own-encoding:contexts:" + case["which"], "parse(%s) under %r -> %r" % (want.hex(), kw, r), dict(case, kw=kw))
            return
        for okw in kws:
            other = enc(okw)
            if other != want and len(other) <= len(want):
                r2 = outcome(lambda: d.parse(other + bytes(len(want) - len(other)), **kw))
                if r2[0] == "ok" and other + bytes(len(want) - len(other)) != want:
                    ctx.violation("const-parse-accepts-other-encoding:contexts:" + case["which"], "parse(%s) under %r accepted" % (other.hex(), kw), dict(case, kw=kw))
                    return
    ctx.count("const_objects_under_several_contexts")
    ctx.nontrivial("const-contexts", case["which"])


def case_isolation(ctx, case):
    """What parse returns belongs to the caller: editing it in place (the way a parsed header is patched before it is built
    again) must not change what the construct accepts, returns or emits afterwards."""
    import construct as C
    from ..veq import norm
    which = case["which"]
    B = C.Byte
    if which == "const-list":
        d, enc, others = C.Const([1, 0], C.Array(2, B)), b"\x01\x00", [b"\x01\x05", b"\x00\x00"]
    elif which == "const-listcontainer":
        d, enc, others = C.Const(C.ListContainer([7, 8, 9]), C.Array(3, B)), b"\x07\x08\x09", [b"\x07\x08\x05"]
    elif which == "const-dict":
        d, enc, others = C.Const({"a": 1, "b": 2}, C.Struct("a" / B, "b" / B)), b"\x01\x02", [b"\x01\x05", b"\x05\x02"]
    elif which == "const-container":
        d, enc, others = C.Const(C.Container(a=1, b=C.ListContainer([2, 3])), C.Struct("a" / B, "b" / C.Array(2, B))), b"\x01\x02\x03", [b"\x01\x02\x05"]
    elif which == "const-bytearray":
        d, enc, others = C.Const(bytearray(b"MZ"), C.Bytes(2)), b"MZ", [b"AZ", b"MA"]
    elif which == "const-enum":
        d, enc, others = C.Const("a", C.Enum(B, a=1, b=2)), b"\x01", [b"\x02", b"\x00"]
    elif which == "flags":
        d, enc, others = C.FlagsEnum(B, r=1, w=2, x=4), None, []
    else:
        d, enc, others = C.Struct("sig" / C.Const([1, 2], C.Array(2, B)), "f" / C.FlagsEnum(B, r=1, w=2)), b"\x01\x02\x03", [b"\x01\x05\x03"]

    def edit(v, depth=0):
        """change the value in place, at every level"""
        if isinstance(v, bytearray):
            v[0] = 0x41
        elif isinstance(v, list):
            for x in v:
                edit(x, depth + 1)
            if v:
                v[-1] = 5
            v.append(99)
        elif isinstance(v, dict):
            for k in [k for k in v.keys() if not str(k).startswith("_")]:
                x = v[k]
                if isinstance(x, bool):
                    v[k] = not x
                elif isinstance(x, int):
                    v[k] = 5
                else:
                    edit(x, depth + 1)
            v["edited"] = 1
    inputs = [enc] if enc is not None else [bytes([b]) for b in range(8)]
    for pat in inputs:
        ctx.ev()
        r1 = outcome(lambda: d.parse(pat))
        if r1[0] != "ok":
            ctx.violation("isolation-parse-raises", "%s: parse(%s) -> %r" % (which, pat.hex(), r1), case)
            return
        first = norm(r1[1])
        b1 = outcome(lambda: d.build(r1[1]))
        if which == "const-enum" and not (isinstance(r1[1], str) and outcome(lambda: int(r1[1])) == ("ok", 1)):
            ctx.violation("const-parse-returns-constant-not-parsed-value", "Const('a', Enum).parse returned %r: not the label object the Enum parsed (int() gives %r)" % (r1[1], outcome(lambda: int(r1[1]))), case)
            return
        edit(r1[1])
        for rnd in (1, 2):
            ctx.ev()
            r2 = outcome(lambda: d.parse(pat))
            if r2[0] != "ok" or norm(r2[1]) != first:
                ctx.violation("parse-result-shared-with-construct:" + which.split("-")[0], "%s: parse(%s) returned %r at first; after that value was edited in place the same call gives %r" % (which, pat.hex(), first, r2), case)
                return
            b2 = outcome(lambda: d.build(r2[1]))
            if b2 != b1:
                ctx.violation("parse-result-shared-with-construct:build:" + which.split("-")[0], "%s: build of the parsed value gave %r, after an earlier result was edited %r" % (which, b1, b2), case)
                return
            if enc is not None and outcome(lambda: d.build(None if not which.startswith("struct") else {"f": r2[1]["f"]})) != ("ok", pat):
                ctx.violation("parse-result-shared-with-construct:constant-changed", "%s: build from nothing no longer emits %s after a parse result was edited" % (which, pat.hex()), case)
                return
            for o in others:
                ro = outcome(lambda: d.parse(o))
                if ro[0] == "ok":
                    ctx.violation("parse-result-shared-with-construct:accepts-other", "%s: parse(%s) accepted after a parse result was edited in place" % (which, o.hex()), case)
                    return
            edit(r2[1])
    ctx.count("isolation_instances")
    ctx.nontrivial("isolation", which)


KINDS = {"over-default": case_over_default, "const-noncanonical": case_const_noncanonical, "const-contexts": case_const_contexts, "isolation": case_isolation, "const": case_const, "validator": case_validator, "enum": case_enum, "enumbig": case_enum_big, "flags": case_flags,
         "mapping": case_mapping, "error": case_error, "index": case_index}


def run_case(ctx, case):
    from ..streams import BudgetExceeded
    if case["kind"] != "error":
        return KINDS[case["kind"]](ctx, case)
    try:
        with monitors.STEPS(400000):
            KINDS[case["kind"]](ctx, case)
    except BudgetExceeded:
        # e.g. GreedyRange over an element that succeeds without consuming anything: termination is
        # C06's subject, not this property's
        ctx.count("skipped_placement_exceeding_step_budget")


def gen_cases(ctx):
    rng = __import__("random").Random(4321)      # instance list is enumerated, independent of the seed
    INT1 = [["name", "Byte"], ["name", "Int8sb"], ["name", "Int8ul"], ["BytesInteger", 1, False, False], ["BytesInteger", 1, True, True], ["FormatField", "=", "B"]]
    INT2 = [["name", "Int16ub"], ["name", "Int16sl"], ["BytesInteger", 2, False, True]]
    cases = []
    for sub in INT1 + INT2:
        signed = sub[1] in ("Int8sb", "Int16sl") or (sub[0] == "BytesInteger" and sub[2])
        two = sub in INT2
        vals = [0, 1, 2, 127, 255] if not signed else [0, 1, -1, 127, -128]
        if two:
            vals = [0, 1, 256, 0x7fff] + ([0xffff] if not signed else [-1, -32768])
        for v in vals:
            cases.append({"kind": "const", "sub": sub, "value": v})
        for pred, params in (("oneof", [1, 2, 3]), ("oneof", [0]), ("oneof", []), ("noneof", [0, 255 if not signed else -1]), ("noneof", []), ("even", []),
                             ("lt", [5]), ("maskeq", [0x0f, 0x03]), ("neq", [0]), ("neq", [7]), ("bitset", [0x15]), ("rsub", [100, 40]), ("rdiv", [100, 7]), ("rmod", [100, 2]),
                             ("rpow", [4]), ("rshift", [0xa5]), ("bitor", [0x0f, 0xff]), ("bitor", [0x0f, 0x1f]), ("rbitor", [0x80, 0x81]), ("bitxor", [0x55, 0x0f]), ("ormix", [0x03, 0x07])):
            for coll in ("list", "set"):
                if coll == "set" and pred not in ("oneof", "noneof"):
                    continue
                c = {"kind": "validator", "sub": sub, "pred": pred, "params": params, "coll": coll}
                cases.append(c)
            if pred in ("neq", "rshift", "bitor", "rdiv"):
                cases.append({"kind": "validator", "sub": sub, "pred": pred, "params": params, "form": "check"})
        for pred, params in (("halves", [1]), ("halves", [0]), ("truediv", [2.5]), ("truediv", [3])):
            cases.append({"kind": "validator", "sub": sub, "pred": pred, "params": params, "form": "check"})
        if not signed:
            for labels in ([["one", 1], ["two", 2], ["four", 4], ["eight", 8]], [["zero", 0]], [["a", 1], ["b", 255]], [["x", 3], ["y", 3]], [["lo", 0], ["hi", 255], ["mid", 128]]):
                for form in ("Enum", "EnumClass"):
                    cases.append({"kind": "enum", "sub": sub, "labels": labels, "form": form})
            for labels in ([["one", 1], ["two", 2], ["four", 4], ["eight", 8]], [["r", 1], ["w", 2], ["rw", 3], ["x", 4], ["rwx", 7]], [["hi", 0xC0], ["lo", 0x03], ["bit7", 0x80]],
                           [["a", 1]], [["none", 0], ["b", 2]], [["a", 1], ["_reserved", 0x40], ["b", 2], ["__x", 0x80]]):      # (labels may start with an underscore)
                for form in ("FlagsEnum", "FlagsEnumClass"):
                    if form == "FlagsEnumClass" and (any(v == 0 for _, v in labels) or any(n.startswith("_") for n, _ in labels)):
                        continue
                    cases.append({"kind": "flags", "sub": sub, "labels": labels, "form": form})
            cases.append({"kind": "mapping", "sub": sub, "pairs": [["a", 0], ["b", 1], [tag(b"k"), 2], [7, 200], [None, 9]]})
            cases.append({"kind": "mapping", "sub": sub, "pairs": [["only", 255]]})
    # bytes / string sub-constructs
    for sub, vals in ((["Bytes", 1], [b"\x00", b"a", b"\xff"]), (["PaddedString", 1, "ascii"], ["a", ""]), (["Bytes", 2], [b"MZ", b"\x00\x00"])):
        for v in vals:
            cases.append({"kind": "const", "sub": sub, "value": tag(v) if isinstance(v, bytes) else v})
        if sub[0] == "Bytes":
            cases.append({"kind": "validator", "sub": sub, "pred": "oneof", "params": [tag(b"a" * sub[1]), tag(b"\x00" * sub[1])], "coll": "list"})
            cases.append({"kind": "validator", "sub": sub, "pred": "noneof", "params": [tag(b"\x00" * sub[1])], "coll": "list"})
    # collections that are not lists: literals (containment of a byte value / of a sub-string), ranges, tuples, dict keys
    for pred in ("oneof", "noneof"):
        cases.append({"kind": "validator", "sub": ["Bytes", 1], "pred": pred, "params": [tag(b"+-*/")], "coll": "literal"})
        cases.append({"kind": "validator", "sub": ["Bytes", 1], "pred": pred, "params": [tag(b"\x00\xff")], "coll": "literal"})
        cases.append({"kind": "validator", "sub": ["Bytes", 2], "pred": pred, "params": [tag(b"\x00\x01\x02\x00")], "coll": "literal"})
        cases.append({"kind": "validator", "sub": ["name", "Byte"], "pred": pred, "params": [tag(b"+-*/\x00")], "coll": "literal"})
        cases.append({"kind": "validator", "sub": ["name", "Byte"], "pred": pred, "params": [3, 200, 7], "coll": "range"})
        cases.append({"kind": "validator", "sub": ["name", "Int8sb"], "pred": pred, "params": [-5, 6], "coll": "range"})
        cases.append({"kind": "validator", "sub": ["name", "Byte"], "pred": pred, "params": [1, 2, 250], "coll": "tuple"})
        cases.append({"kind": "validator", "sub": ["name", "Byte"], "pred": pred, "params": [0, 9, 255], "coll": "dict"})
    for v in (b"\x00", b"Z", b"\xff"):
        cases.append({"kind": "const", "sub": None, "value": tag(v)})
    big = [0, 1, 2, 127, 128, 255, 256, 2 ** 32, 2 ** 64 - 1, 2 ** 64, 2 ** 100, 2 ** 127, 2 ** 128 - 1, -1, -2 ** 70]
    for form in ("check", "exprvalidator", "error-guard"):
        for rep_ in ("array", "greedy", "struct-array", "nested"):
            for pr in ("ge", "ne"):
                cases.append({"kind": "index", "form": form, "rep": rep_, "pred": pr})
    cases.append({"kind": "enumbig", "labels": [["one", 1], ["big", 2 ** 64]], "values": [tag(x) for x in big], "form": "Enum"})
    cases.append({"kind": "enumbig", "labels": [["one", 1]], "values": [tag(x) for x in big], "form": "FlagsEnum"})
    for dv in (9, 0, 1, 7, 200):
        cases.append({"kind": "over-default", "default": dv})
    for which in ("varint", "varint0", "zigzag", "flag", "padded", "paddedstring", "aligned", "prefixed", "fixedsized"):
        cases.append({"kind": "const-noncanonical", "which": which})
    for which in ("width", "branch", "swapped", "padded", "in-struct"):
        cases.append({"kind": "const-contexts", "which": which})
    for which in ("const-list", "const-listcontainer", "const-dict", "const-container", "const-bytearray", "const-enum", "flags", "struct-both"):
        cases.append({"kind": "isolation", "which": which})
    # Error placements: singles, all ordered pairs, sampled triples
    for w in WRAPPERS:
        cases.append({"kind": "error", "wrappers": [w]})
    for a in WRAPPERS:
        for b in WRAPPERS:
            cases.append({"kind": "error", "wrappers": [a, b]})
    ntr = 600 if ctx.quick else 12000
    for _ in range(ntr):
        cases.append({"kind": "error", "wrappers": [rng.choice(WRAPPERS) for _ in range(3)]})
    return cases


def run(ctx):
    cases = gen_cases(ctx)
    if ctx.index == 0:
        ctx.count("instances_total", len(cases))
    seen = set()
    for i, c in enumerate(cases):
        if not ctx.mine(i):
            continue
        run_case(ctx, c)
        if c["kind"] not in seen and ctx.index == len(seen) % ctx.nworkers:
            ctx.sample(c)
        seen.add(c["kind"])


def replay(ctx, case):
    case = {k: v for k, v in case.items() if k not in ("input", "built", "value")}
    run_case(ctx, case)
