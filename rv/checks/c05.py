"""C05 - sizeof is exact when it answers and fails only with SizeofError.

Monitors:
  type   : sizeof(**kw) returns a non-negative int or raises SizeofError - nothing else (a missing context key must be SizeofError)
  exact  : whenever it returns n, every successful build_stream advances the traced output stream by exactly n (at start
           offsets 0 and k) and parse_stream of those bytes followed by trailing data advances the input stream by exactly n
Oracle: the measured stream advance (tell delta of the traced stream); exception type for the rest.
"""
import copy
from ..common import tag, untag, raise_site
from ..recipes import mk, shape
from ..streams import TracedStream
from .. import refmodel as M
from ..gen import Gen, genval
from ..libmodel import kinds_in, top_kind

LEVEL = "exploration"
RULE = ("(a) missing-key sweep, exhaustive: every parameter slot that accepts a context expression (~40 slots over 30 classes) set to this.missing / "
        "this._.missing / this._params.missing / this._root.missing / plain callables using attribute or item access, alone and under each of 24 wrappers, sizeof() called without and with the key; "
        "(b) typed-grammar recipes and explicit context-sized templates x keyword contexts x generated values: measured advance of build_stream and "
        "parse_stream(built+junk) at offsets 0 and k against the returned size; templates include zero-width Peek over matching, mismatching and too-short "
        "data and Lazy/LazyStruct over members whose actual size is read from the stream; random recipes are also wrapped in Lazy / placed behind a Peek. non-trivial = a missing-key case, or a context-dependent size that "
        "answered and was measured on >= 2 values; distinct by (recipe shape, slot/wrapper or kwargs)")
ASSUMPTIONS = ["exempt by documentation: transforms that read to end of stream regardless of declared size when not enclosed in a delimiter (ProcessXor, "
               "ProcessRotateLeft, Compressed) - their parse advance is not compared; negative lengths and modulus < 2 are not generated"]
REQUIRED_ANCHORS = ["core:Construct.sizeof", "core:Bytes._sizeof", "core:BytesInteger._sizeof", "core:Struct._sizeof", "core:Sequence._sizeof", "core:Array._sizeof",
                    "core:IfThenElse._sizeof", "core:Switch._sizeof", "core:Padded._sizeof", "core:Aligned._sizeof", "core:Prefixed._sizeof", "core:FixedSized._sizeof",
                    "core:FocusedSeq._sizeof", "core:Transformed._sizeof", "core:Restreamed._sizeof", "core:LazyStruct._sizeof", "core:LazyArray._sizeof",
                    "core:Renamed._sizeof", "core:Construct._sizeof"]
ANCHORS = REQUIRED_ANCHORS

B = ["name", "Byte"]


def slots(e):
    """every (label, recipe) with the context expression e in one parameter slot"""
    return [
        ("Bytes.length", ["Bytes", e]), ("BytesInteger.length", ["BytesInteger", e, False, False]), ("BytesInteger.swapped", ["BytesInteger", 2, False, e]),
        ("BitsInteger.length", ["Bitwise", ["BitsInteger", e, False, False]]), ("BitsInteger.swapped", ["Bitwise", ["BitsInteger", 8, False, e]]),
        ("PaddedString.length", ["PaddedString", e, "utf8"]), ("Padding.length", ["Padding", e]), ("Padded.length", ["Padded", e, B]),
        ("Aligned.modulus", ["Aligned", e, B]), ("FixedSized.length", ["FixedSized", e, B]), ("Array.count", ["Array", e, B]), ("LazyArray.count", ["LazyArray", e, B]),
        ("IfThenElse.cond", ["IfThenElse", e, B, ["name", "Int16ub"]]), ("If.cond", ["If", e, B]), ("Switch.key", ["Switch", e, [[1, B], [2, ["name", "Int16ub"]]], None]),
        ("Switch.key+default", ["Switch", e, [[1, B]], ["name", "Int32ub"]]), ("Computed.func", ["Computed", e]), ("Check.func", ["Check", e]),
        ("Rebuild.func", ["Rebuild", B, e]), ("Default.value", ["Default", B, e]), ("StopIf.cond", ["StopIf", e]), ("Pointer.offset", ["Pointer", e, B]),
        ("Seek.at", ["Seek", e, 0]), ("RepeatUntil.predicate", ["RepeatUntil", e, B]), ("OffsettedEnd.endoffset", ["OffsettedEnd", e, B]),
        ("ProcessXor.key", ["ProcessXor", e, B]), ("ProcessRotateLeft.amount", ["ProcessRotateLeft", e, 1, B]), ("ProcessRotateLeft.group", ["ProcessRotateLeft", 1, e, B]),
        ("FocusedSeq.parsebuildfrom", ["FocusedSeq", e, [["a", B], ["b", B]]]), ("Union.parsefrom", ["Union", e, [["a", B], ["b", B]]]),
        ("AlignedStruct.modulus", ["AlignedStruct", e, [["a", B]]]), ("Struct/Bytes.length", ["Struct", [["d", ["Bytes", e]]]]),
        ("PaddedString16.length", ["PaddedString", e, "utf_16_le"]), ("Array(Array).count", ["Array", 2, ["Array", e, B]]),
        ("Padded(Padded).length", ["Padded", 9, ["Padded", e, B]]), ("Checksum.bytesfunc", ["Checksum", B, "sum8", e]),
    ]


WRAPS = ["plain", "Struct", "StructNamed", "Sequence", "FocusedSeq", "Array", "Prefixed", "Padded", "Aligned", "IfThenElse", "Switch", "Hex", "RawCopy", "Lazy",
         "LazyStruct", "LazyArray", "Renamed", "Default", "Rebuild", "Const-sibling", "NestedStruct", "Optional", "NullTerminated", "Transformed"]


def wrap(w, x):
    if w == "plain":
        return x
    if w == "Struct":
        return ["Struct", [[None, x]]]
    if w == "StructNamed":
        return ["Struct", [["h", B], ["x", x], ["t", B]]]
    if w == "Sequence":
        return ["Sequence", [[None, B], [None, x]]]
    if w == "FocusedSeq":
        return ["FocusedSeq", "x", [["x", x], ["k", B]]]
    if w == "Array":
        return ["Array", 3, x]
    if w == "Prefixed":
        return ["Prefixed", B, x, False]
    if w == "Padded":
        return ["Padded", 40, x]
    if w == "Aligned":
        return ["Aligned", 4, x]
    if w == "IfThenElse":
        return ["IfThenElse", True, x, B]
    if w == "Switch":
        return ["Switch", 1, [[1, x]], None]
    if w == "Hex":
        return ["Hex", x]
    if w == "RawCopy":
        return ["RawCopy", x]
    if w == "Lazy":
        return ["Lazy", x]
    if w == "LazyStruct":
        return ["LazyStruct", [["x", x], ["k", B]]]
    if w == "LazyArray":
        return ["LazyArray", 2, x]
    if w == "Renamed":
        return ["Renamed", "nm", x, "docs"]
    if w == "Default":
        return ["Default", x, 0]
    if w == "Rebuild":
        return ["Rebuild", x, 0]
    if w == "Const-sibling":
        return ["Struct", [[None, ["Const", tag(b"\x01"), None]], ["x", x], [None, ["Padding", 2]]]]
    if w == "NestedStruct":
        return ["Struct", [["o", ["Struct", [["i", ["Struct", [["x", x]]]]]]]]]
    if w == "Optional":
        return ["Optional", x]
    if w == "NullTerminated":
        return ["NullTerminated", x]
    if w == "Transformed":
        return ["Struct", [["x", x], ["b", ["Bitwise", ["name", "Octet"]]]]]


def sizeof_site(e):
    """the innermost library _sizeof frame the exception passed through: the class that failed to translate it"""
    import os
    from ..common import REPO
    tb = e.__traceback__
    site = None
    lib = os.path.join(REPO, "construct") + os.sep
    while tb is not None:
        co = tb.tb_frame.f_code
        if co.co_filename.startswith(lib) and co.co_name in ("_sizeof", "sizeof", "_actualsize"):
            site = os.path.basename(co.co_filename)[:-3] + ":" + co.co_qualname
        tb = tb.tb_next
    return site or raise_site(e)


def call_sizeof(d, kw):
    import construct as C
    try:
        n = d.sizeof(**kw)
    except C.SizeofError:
        return ("sizeoferror",)
    except Exception as e:
        return ("foreign", type(e).__name__, sizeof_site(e))
    if isinstance(n, bool) or not isinstance(n, int):
        return ("badtype", repr(n))
    if n < 0:
        return ("negative", n)
    return ("ok", n)


def check_type(ctx, r, kw, case):
    """monitor 'type'. -> ("ok", n) | None"""
    ctx.ev()
    try:
        d = mk(r)
    except Exception:
        ctx.count("recipe_not_constructible")
        return None, None
    res = call_sizeof(d, kw)
    if res[0] == "foreign":
        ctx.violation("sizeof-raises:%s@%s" % (res[1], res[2]), "sizeof(%s) raised %s (escaped from %s) instead of SizeofError" % (kw, res[1], res[2]), case)
        return d, None
    if res[0] in ("badtype", "negative"):
        ctx.violation("sizeof-returns-%s:%s" % (res[0], top_kind(r)), "sizeof(%s) returned %r" % (kw, res[1]), case)
        return d, None
    if res[0] == "sizeoferror":
        ctx.count("sizeof_raised_SizeofError")
        return d, None
    ctx.count("sizeof_answered")
    return d, res[1]


def measure(ctx, r, d, n, kw, v, case, skip_parse):
    """monitor 'exact' for one value"""
    import construct as C
    for off in (0, 5):
        s = TracedStream(b"\xEE" * off, pos=off, keeplog=False)
        try:
            d.build_stream(v, s, **kw)
        except Exception:
            ctx.count("value_not_buildable")
            return False
        adv = s.pos - off
        ctx.ev()
        if adv != n:
            ctx.violation("build-advance-differs:" + culprit(r, kw), "sizeof(%s) = %d but build_stream advanced the stream by %d (value %r, start offset %d)" % (kw, n, adv, v, off), dict(case, value=tag(v)))
            return False
        built = s.getvalue()[off:]
        if skip_parse:
            continue
        junk = b"\x5a\xa5\x00\xff\x01"
        s2 = TracedStream(b"\xEE" * off + built + junk, pos=off, keeplog=False)
        try:
            d.parse_stream(s2, **kw)
        except Exception as e:
            ctx.count("built_bytes_not_parseable")
            continue
        ctx.ev()
        if s2.pos - off != n:
            ctx.violation("parse-advance-differs:" + culprit(r, kw), "sizeof(%s) = %d but parse_stream of the built bytes + trailing data advanced by %d (value %r)" % (kw, n, s2.pos - off, v),
                          dict(case, value=tag(v)))
            return False
    return True


def poisoned(v):
    """variants of the value whose LAST leaf cannot be built (out-of-range integer, bytes of another length, text that cannot be
    encoded): such a build fails after the members before it have already produced bytes"""
    path = []

    def last_leaf(x, p):
        if isinstance(x, dict):
            for k in list(x.keys())[::-1]:
                r = last_leaf(x[k], p + [k])
                if r is not None:
                    return r
            return None
        if isinstance(x, list):
            for i in range(len(x) - 1, -1, -1):
                r = last_leaf(x[i], p + [i])
                if r is not None:
                    return r
            return None
        if isinstance(x, bool) or x is None:
            return None
        if isinstance(x, (int, bytes, str, float)):
            return p
        return None
    p = last_leaf(v, [])
    if p is None:
        return []
    out = []
    for bad in (2 ** 200, b"\x00" * 300, "\udcff" * 3, [1, 2, 3, 4, 5, 6, 7, 8, 9], -(2 ** 200)):
        w = copy.deepcopy(v)
        if not p:
            out.append(bad)
            continue
        x = w
        for k in p[:-1]:
            x = x[k]
        x[p[-1]] = bad
        out.append(w)
    return out


def after_failed_builds(ctx, r, d, n, kw, v, case):
    """calls that fail part-way on the same object (the last leaf made unbuildable in several ways) must leave nothing behind:
    the value measured before is measured again"""
    failed = 0
    for w in poisoned(v):
        try:
            d.build(w, **kw)
        except Exception:
            failed += 1
    if failed:
        ctx.count("failed_builds_interleaved", failed)
        measure(ctx, r, d, n, kw, v, dict(case, history="after %d builds that failed part-way on the same object" % failed), True)


def shortened(v, depth=0):
    """the value with one list (at any depth <= 3) shortened by one element: if such a value builds at all, it must still fill the declared size"""
    out = []
    if depth > 3:
        return out
    if isinstance(v, list) and v:
        out.append(v[:-1])
        for i, x in enumerate(v[:2]):
            out += [v[:i] + [y] + v[i + 1:] for y in shortened(x, depth + 1)]
    elif isinstance(v, dict):
        for k2, x in list(v.items())[:4]:
            out += [dict(v, **{k2: y}) for y in shortened(x, depth + 1)]
    return out[:6]


def culprit(r, kw):
    """the innermost sub-recipe whose own sizeof disagrees with its own measured advance is hard to isolate generically; key on the set of sized wrapper kinds"""
    ks = kinds_in(r) & {"Aligned", "Padded", "Prefixed", "FixedSized", "Array", "Bitwise", "Bytewise", "BitStruct", "AlignedStruct", "PaddedString", "IfThenElse", "Switch", "If",
                        "ByteSwapped", "Struct", "Sequence", "FocusedSeq", "LazyStruct", "LazyArray", "BitsInteger", "BytesInteger", "ProcessXor", "Const", "Rebuild", "Default"}
    inner = [k for k in ("Aligned", "Padded", "Prefixed", "FixedSized", "Bitwise", "Bytewise", "BitStruct", "AlignedStruct", "PaddedString", "IfThenElse", "Switch", "If", "ByteSwapped", "Array",
                         "FocusedSeq", "LazyStruct", "LazyArray") if k in ks]
    return "+".join(inner[:3]) or top_kind(r)


def templates():
    """explicit context-sized recipes: (recipe, [kwargs...])"""
    X = ["Struct", [["a", B], ["b", ["name", "Int16ul"]]]]
    t = []
    for n in (0, 1, 3, 7):
        t.append((["Bytes", ["this", "n"]], {"n": n}))
        t.append((["Array", ["this", "n"], X], {"n": n}))
        t.append((["Padding", ["this", "n"]], {"n": n}))
        t.append((["PaddedString", ["bin", "*", ["this", "n"], 2], "utf_16_le"], {"n": n}))
        t.append((["Struct", [["h", B], ["d", ["Bytes", ["this", "_params", "n"]]], ["t", ["Array", ["this", "_params", "n"], B]]]], {"n": n}))
        t.append((["LazyArray", ["this", "n"], B], {"n": n}))
        t.append((["Array", ["this", "n"], ["Aligned", 4, ["Bytes", ["this", "n"]]]], {"n": n}))
    for n in (3, 4, 9):
        t.append((["Padded", ["this", "n"], X], {"n": n}))
        t.append((["FixedSized", ["this", "n"], X], {"n": n}))
        t.append((["FixedSized", ["this", "n"], ["name", "GreedyBytes"]], {"n": n}))
    for n in (1, 2, 3, 8, 16):
        t.append((["BytesInteger", ["this", "n"], True, False], {"n": n}))
        t.append((["BytesInteger", 4, False, ["this", "n"]], {"n": n % 2}))
    for m in (2, 3, 4, 8, 9):
        for k in (0, 1, 5, 8):
            t.append((["Aligned", ["this", "m"], ["Bytes", ["this", "k"]]], {"m": m, "k": k}))
            t.append((["Struct", [["h", B], ["x", ["Aligned", ["this", "_params", "m"], ["Bytes", ["this", "_params", "k"]]]], ["t", B]]], {"m": m, "k": k}))
            t.append((["AlignedStruct", ["this", "m"], [["a", B], ["b", ["Bytes", ["this", "_", "k"]]]]], {"m": m, "k": k}))
    for w in (8, 16, 24):
        t.append((["Bitwise", ["BitsInteger", ["this", "w"], False, False]], {"w": w}))
        t.append((["Bitwise", ["Struct", [["a", ["BitsInteger", ["this", "_params", "w"], True, False]], ["b", ["name", "Octet"]]]]], {"w": w}))
    for nb in (0, 1, 2, 3):
        t.append((["BitStruct", [["hi", ["name", "Nibble"]], ["lo", ["name", "Nibble"]], ["p", ["Bytewise", ["Bytes", ["this", "_", "nb"]]]]]], {"nb": nb}))
        t.append((["Bitwise", ["Struct", [["f", ["name", "Octet"]], ["p", ["Bytewise", ["Array", ["this", "_params", "nb"], ["name", "Int16ul"]]]]]]], {"nb": nb}))
    for c in (0, 1, True, False):
        t.append((["IfThenElse", ["this", "c"], X, ["name", "Int64ub"]], {"c": c}))
        t.append((["If", ["this", "c"], X], {"c": c}))
        t.append((["Struct", [["h", B], ["v", ["If", ["this", "_params", "c"], ["name", "Int32ub"]]]]], {"c": c}))
    for k in (0, 1, 2, 9):
        t.append((["Switch", ["this", "k"], [[0, B], [1, ["name", "Int16ub"]], [2, X]], None], {"k": k}))
        t.append((["Switch", ["this", "k"], [[0, B], [1, ["name", "Int16ub"]]], ["Bytes", 5]], {"k": k}))
    for key in (0, 7, tag(b"\x01\x02")):
        t.append((["FixedSized", 4, ["ProcessXor", ["this", "k"], ["name", "Int32ub"]]], {"k": key}))
    # wrappers around inner constructs of size 0: they declare 0 and take nothing, whatever follows them in the stream
    for z in (["Bitwise", ["Array", 0, ["name", "Bit"]]], ["BitStruct", []], ["ByteSwapped", ["Bytes", 0]], ["BitsSwapped", ["Bytes", 0]], ["Bitwise", ["If", False, ["name", "Octet"]]],
              ["Bitwise", ["Padding", 0]], ["Bitwise", ["Struct", []]], ["ByteSwapped", ["Struct", []]], ["BitsSwapped", ["Array", 0, B]], ["Padding", 0], ["Padded", 0, ["Bytes", 0]], ["FixedSized", 0, ["Bytes", 0]],
              ["Aligned", 4, ["Bytes", 0]], ["Bitwise", ["Bytewise", ["Bytes", 0]]]):
        t.append((z, {}))
        t.append((["Struct", [["z", z], ["t", ["name", "Int16ub"]]]], {}))
        t.append((["Sequence", [[None, B], [None, z], [None, B]]], {}))
        t.append((["Array", 2, ["Struct", [["z", z], ["t", B]]]], {}))
    # a selector that is a sibling read from the data: without it the size is unknown, whatever the cases have in common
    # (a value that selects no case takes the implicit default of no bytes)
    for cases in ([[1, ["name", "Int16ub"]], [2, ["name", "Int16ul"]]], [[0, B], [3, B]], [[1, X], [2, ["Bytes", 3]]]):
        t.append((["Struct", [["n0", B], ["body", ["Switch", ["this", "n0"], cases, None]]]], {}))
        t.append((["Struct", [["n0", B], ["body", ["Switch", ["this", "n0"], cases, ["Bytes", 5]]], ["t", B]]], {}))
        t.append((["Sequence", [["n0", B], [None, ["IfThenElse", ["bin", "==", ["this", "n0"], 1], cases[0][1], cases[1][1]]]]], {}))
        t.append((["Struct", [["n0", B], ["xs", ["Array", 2, ["Switch", ["this", "_", "n0"] if False else ["this", "n0"], cases, None]]]]], {}))
    # tunnels have no size of their own, whatever the inner format's size; length-prefixed structures with several members
    for n in (0, 2):
        t.append((["Prefixed", B, ["Compressed", X, "zlib"], False], {"n": n}))
        t.append((["Struct", [["h", B], ["z", ["Prefixed", ["name", "Int16ub"], ["Compressed", ["Bytes", ["this", "_params", "n"]], "zlib"], False]], ["t", B]]], {"n": n}))
        t.append((["Prefixed", B, ["Struct", [["a", ["name", "Int16ub"]], ["b", ["Bytes", ["this", "_params", "n"]]], ["c", B]]], False], {"n": n}))
        t.append((["Struct", [["p", ["Prefixed", B, ["Struct", [["a", ["Bytes", 2]], ["b", B]]], True]], ["q", ["FixedSized", 4, ["Struct", [["a", B], ["b", ["name", "Int16ub"]]]]]], ["r", ["Padded", 5, X]]]], {"n": n}))
    # zero-width look-ahead whose inner parse succeeds, mismatches after consuming, or runs into the end of the data
    for n in (1, 2, 3):
        for pk in (["Const", tag(b"AB"), None], ["name", "Int16ub"], ["Bytes", 9], ["Struct", [["a", B], ["c", ["Const", tag(b"\x00"), None]]]], ["OneOf", B, [1, 2]], ["CString", "ascii"]):
            t.append((["Struct", [["p", ["Peek", pk]], ["x", ["Bytes", ["this", "_params", "n"]]]]], {"n": n}))
            t.append((["Sequence", [[None, B], [None, ["Peek", pk]], [None, ["Array", ["this", "_params", "n"], B]]]], {"n": n}))
    # deferred members are skipped by their actual size
    for n in (0, 1, 2):
        for lz in (["Prefixed", B, ["name", "Int16ub"], False], ["Prefixed", ["name", "Int16ul"], ["Bytes", 3], True], ["Prefixed", B, ["Bytes", ["this", "_params", "n"]], False],
                   ["Prefixed", B, ["Struct", [["a", B], ["b", ["Bytes", ["this", "_", "_params", "n"]]]]], False], ["Array", ["this", "_params", "n"], ["name", "Int16ub"]],
                   ["Padded", 4, ["name", "Int16ub"]], ["Struct", [["a", B], ["b", ["Prefixed", B, B, False]]]]):
            t.append((["Struct", [["h", B], ["z", ["Lazy", lz]], ["t", B]]], {"n": n}))
            t.append((["Lazy", lz], {"n": n}))
            t.append((["LazyStruct", [["h", B], ["z", lz], ["t", B]]], {"n": n}))
            t.append((["LazyArray", n + 1, lz], {"n": n}))
            t.append((["Struct", [["h", B], ["zs", ["LazyArray", 3, lz]], ["t", B]]], {"n": n}))
    # a region that is assembled on its own while its inner construct moves about (a Pointer ahead / back, a backward Seek)
    for n in (1, 2):
        for inner in (["Struct", [["a", ["name", "Int16ub"]], ["far", ["Pointer", 5, B]]]], ["Struct", [["a", B], ["b", B], ["p", ["Pointer", 0, B]]]], ["Struct", [["x", ["Bytes", 3]], [None, ["Seek", -2, 1]], ["c", B]]],
                      ["Struct", [["a", ["Bytes", ["this", "_", "_params", "n"]]], ["far", ["Pointer", 6, ["name", "Int16ub"]]]]]):
            t.append((["Struct", [["h", B], ["f", ["FixedSized", 8, inner]], ["t", B]]], {"n": n}))
            t.append((["Struct", [["h", B], ["f", ["Padded", 9, ["FixedSized", 8, inner]]], ["t", B]]], {"n": n}))
    # a Sequence that stops early (StopIf) inside a sized wrapper: the enclosing structure goes on after the wrapper
    for n in (0, 1):
        stop = ["Sequence", [["x", B], [None, ["StopIf", ["bin", "==", ["this", "x"], 0]]], ["y", B], [None, ["StopIf", ["bin", "==", ["this", "y"], ["this", "_params", "n"]]]], ["z", B]]]
        t.append((["Struct", [["a", ["Padded", 4, stop]], ["b", ["name", "Int16ub"]]]], {"n": n}))
        t.append((["Struct", [["a", ["FixedSized", 5, stop]], ["b", ["Array", 2, ["FixedSized", 3, stop]]], ["c", B]]], {"n": n}))
        t.append((["Sequence", [[None, ["Padded", 3, ["Struct", [["x", B], [None, ["StopIf", ["bin", "==", ["this", "x"], 0]]], ["y", B]]]]], [None, B]]], {"n": n}))
    # a Pointer told to work on another stream (the enclosing one) from inside a delimited region: both streams keep their positions
    for n in (1, 2, 3):
        for region in ("FixedSized", "Padded", "Prefixed"):
            inner = ["Struct", [["p", ["Pointer", 0, B, ["this", "_", "_io"]]], ["x", ["Bytes", ["this", "_", "_params", "n"]]], ["q", ["Pointer", 1, B, ["this", "_root", "_io"]]]]]
            body = [region, 6, inner] if region != "Prefixed" else ["FixedSized", 7, ["Prefixed", B, inner, False]]
            t.append((["Struct", [["a", B], ["f", body], ["t", ["name", "Int16ub"]]]], {"n": n}))
    return t


def run(ctx):
    rng = ctx.rng
    # ---- (a) missing-key sweep
    paths = {"this.missing": ["this", "missing"], "this._.missing": ["this", "_", "missing"], "this._params.missing": ["this", "_params", "missing"],
             "this._root.missing": ["this", "_root", "missing"], "this._._.missing": ["this", "_", "_", "missing"], "expr(this.missing+1)": ["bin", "+", ["this", "missing"], 1],
             "len_(this.missing)": ["fn", "len", ["this", "missing"]],
             # plain Python callables: attribute access on the context raises AttributeError, item access KeyError
             "lambda ctx: ctx.missing": ["lam", "missing"], "lambda ctx: ctx['missing']": ["lamitem", "missing"], "lambda ctx: ctx._params.missing": ["lam", "_params", "missing"],
             "lambda ctx: ctx._.missing": ["lam", "_", "missing"]}
    k = 0
    nslots = 0
    for pname, e in paths.items():
        for label, x in slots(e):
            nslots += 1
            for w in WRAPS:
                k += 1
                if not ctx.mine(k):
                    continue
                r = wrap(w, x)
                case = {"kind": "missing-key", "slot": label, "path": pname, "wrapper": w, "recipe": r, "kw": {}}
                d, n = check_type(ctx, r, {}, case)
                ctx.nontrivial("mk", label, pname, w)
                # and with the key supplied through the keyword context (only meaningful where the path can reach it)
                vals = (3, 2) if "modulus" in label else (3, 0)
                if pname.startswith("len_"):
                    vals = (b"abc", b"") if "modulus" not in label else (b"abc", b"ab")
                for val in vals:
                    kw = {"missing": val}
                    case2 = dict(case, kw=kw)
                    d2, n2 = check_type(ctx, r, kw, case2)
                    if n2 is not None and d2 is not None and label in ("Bytes.length", "Array.count", "Padding.length", "Padded.length", "FixedSized.length", "Struct/Bytes.length", "If.cond", "IfThenElse.cond"):
                        try:
                            v = genval(r, rng, M.top_scope(dict(kw)))
                        except Exception:
                            continue
                        measure(ctx, r, d2, n2, kw, v, case2, False)
                if k % 900 == 0:
                    ctx.sample(case)
    if ctx.index == 0:
        ctx.count("slots_x_paths", nslots)
        ctx.count("wrappers", len(WRAPS))
    # ---- (b1) explicit context-sized templates
    for i, (r, kw) in enumerate(templates()):
        if not ctx.mine(i):
            continue
        case = {"kind": "template", "recipe": r, "kw": kw}
        d, n = check_type(ctx, r, kw, case)
        if n is None:
            continue
        okn = 0
        for j in range(ctx.pick(6, 30)):
            try:
                v = genval(r, rng, M.top_scope(dict(kw)))
            except (M.ModelGap, M.MissingKey, M.Unsized, M.Reject):
                break
            good = measure(ctx, r, d, n, kw, v, case, "ProcessXor" in kinds_in(r) and top_kind(r) != "FixedSized")
            okn += good
            if good and j < 2:
                after_failed_builds(ctx, r, d, n, kw, v, case)
        if okn >= 2:
            ctx.nontrivial("tpl", shape(r), sorted(kw.items()))
        # the same recipe without the keys: must be SizeofError, not KeyError
        check_type(ctx, r, {}, dict(case, kw={}))
        ctx.count("templates")
    # ---- (b1') one object sized under several keyword contexts in turn (and with the keys absent): every answer equals the answer of
    #      a fresh object under that context - nothing an earlier call computed may be reused under another context
    groups = {}
    for r, kw in templates():
        groups.setdefault(repr(r), (r, []))[1].append(kw)
    for gi, (r, kws) in enumerate(groups.values()):
        if not ctx.mine(gi) or len(kws) < 2:
            continue
        nr = ["Struct", [["h", B], ["x", r], ["t", ["Array", 2, r]]]]
        seq = kws + kws[::-1] + [{}] + kws[:2]
        for rr in (r, nr):
            try:
                obj = mk(rr)
            except Exception:
                continue
            for kw in seq:
                ctx.ev()
                got = call_sizeof(obj, kw)
                want = call_sizeof(mk(rr), kw)
                if got[:2] != want[:2]:
                    ctx.violation("sizeof-depends-on-earlier-calls:" + top_kind(r), "sizeof(%s) on an object sized before under other contexts -> %r, a fresh object -> %r (sequence %s ...)" % (kw, got[:2], want[:2], seq[:3]),
                                  {"kind": "template-sequence", "recipe": rr, "kw": kw})
                    break
        ctx.count("objects_sized_under_several_contexts")
        ctx.nontrivial("seq", shape(r), len(kws))
    # ---- (b2) grammar recipes
    nrec = ctx.pick(3000, 60000) // ctx.nworkers
    for i in range(nrec):
        g = Gen(rng, maxdepth=rng.choice([1, 2, 2, 3]), fragment="full")
        try:
            if i < 4 * ctx.pick(8, 40):
                r = [lambda: g.lazy_family(2), g.region_family, g.root_family, lambda: g.bitstream(False)][i % 4]()
            else:
                r = g.recipe()
        except (M.ModelGap, M.MissingKey, M.Unsized):
            continue
        kw = dict(g.kw)
        c = rng.random()
        if c < 0.08:
            r = ["Lazy", r]
        elif c < 0.16:
            r = ["Struct", [["h", B], ["z", ["Lazy", r]], ["t", B]]]
        elif c < 0.24:
            r = ["Struct", [["pk", ["Peek", rng.choice([["Const", tag(b"\x01\x02"), None], ["name", "Int16ub"], ["Bytes", 7], ["OneOf", B, [0, 1]], g.fixed_leaf()])]], ["v", r]]]
        case = {"kind": "grammar", "recipe": r, "kw": kw}
        d, n = check_type(ctx, r, kw, case)
        if kw:
            check_type(ctx, r, {}, dict(case, kw={}))
        if n is None:
            continue
        okn = 0
        for j in range(ctx.pick(10, 30)):
            try:
                v = genval(r, rng, M.top_scope(dict(kw)))
            except (M.ModelGap, M.MissingKey, M.Unsized, M.Reject):
                break
            good = measure(ctx, r, d, n, kw, v, case, bool(kinds_in(r) & {"ProcessXor", "ProcessRotateLeft"}))
            okn += good
            if good and j < 2:
                after_failed_builds(ctx, r, d, n, kw, v, case)
            for v2 in shortened(v):
                measure(ctx, r, d, n, kw, v2, dict(case, hostile="list shortened by one"), True)
        if okn >= 2 and kw:
            ctx.nontrivial("gr", shape(r))
        ctx.count("grammar_recipes_sized")
        if i < 2 and ctx.index < 2:
            ctx.sample(case)


def replay(ctx, case):
    r, kw = case["recipe"], {k: (untag(v) if isinstance(v, dict) else v) for k, v in case.get("kw", {}).items()}
    d, n = check_type(ctx, r, kw, case)
    if n is not None and "value" in case:
        measure(ctx, r, d, n, kw, untag(case["value"]), case, False)
