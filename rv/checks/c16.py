"""C16 - lazy parsing is observationally equal to eager parsing under any access order.

Oracle: the eager twin (the same members in Struct / Sequence / Array) and the traced stream.
Each access history runs on a fresh lazy parse (the cache is part of the state under test).
"""
import itertools
from ..common import tag, untag
from ..recipes import mk
from ..streams import TracedStream
from ..veq import veq, norm

LEVEL = "exploration"
RULE = ("member lists (<=4 quick, <=6 thorough) mixing fixed-size, context-sized, length-prefixed (incl. includelength, element-count prefixed) and "
        "unsizable members (also length-prefixed members over unsizable elements / with unsizable counts), named and unnamed, no cross references; lazy "
        "structures inside eager repeaters/structures with members sized from the enclosing scope (_index, keyword context, outer field); canonical inputs (+trailing bytes) and byte-mutated inputs that the eager twin "
        "still accepts; stream offsets 0 and k; access histories: ALL permutations of member accesses (<=4 members quick, <=6 thorough) and random "
        "sequences with repetition, through [name], [index] (negative too for arrays), attribute, keys/values/items, iteration, slicing; accesses "
        "during the surrounding parse (Computed touching a lazy member) and after it; build from the lazy result. non-trivial = history that is "
        "not declaration order or repeats an access; distinct by (member list, input class, history)")
ASSUMPTIONS = ["inputs on which the eager twin fails are skipped (nothing to compare with)",
               "len()/==/in/.get on lazy results are not among the access forms the property lists and do not decide"]
REQUIRED_ANCHORS = ["core:Lazy._parse", "core:Lazy._build", "core:LazyStruct._parse", "core:LazyStruct._build", "core:LazyArray._parse",
                    "core:LazyContainer.__getitem__", "core:LazyContainer.__getattr__", "core:LazyContainer.keys", "core:LazyContainer.values",
                    "core:LazyContainer.items", "core:LazyListContainer.__getitem__", "core:LazyListContainer.__iter__", "core:Prefixed._actualsize"]
ANCHORS = REQUIRED_ANCHORS

B = ["name", "Byte"]
KINDS = {
    "byte": (B, "fixed"), "bytes3": (["Bytes", 3], "fixed"), "shorts": (["Array", 2, ["name", "Int16ub"]], "fixed"), "u24": (["name", "Int24ul"], "fixed"),
    "ctxbytes": (["Bytes", ["this", "_params", "n"]], "ctx"),
    "prefixed": (["Prefixed", B, ["name", "GreedyBytes"]], "prefixed"), "prefixed-incl": (["Prefixed", B, ["name", "GreedyBytes"], True], "prefixed"),
    "prefixed-fixed": (["Prefixed", B, ["Bytes", 1]], "prefixed"), "prefixed-varint": (["Prefixed", ["name", "VarInt"], ["name", "GreedyBytes"]], "prefixed"),
    "parray": (["PrefixedArray", B, ["name", "Int16ub"]], "prefixed"), "pascal": (["PascalString", B, "ascii"], "prefixed"),
    # length-prefixed members whose elements / count have no static size
    "parray-varint": (["PrefixedArray", B, ["name", "VarInt"]], "prefixed"), "parray-vcount": (["PrefixedArray", ["name", "VarInt"], B], "prefixed"),
    "parray-cstring": (["PrefixedArray", B, ["CString", "ascii"]], "prefixed"), "prefixed-struct": (["Prefixed", B, ["Struct", [["a", B], ["r", ["name", "GreedyBytes"]]]]], "prefixed"),
    "varint": (["name", "VarInt"], "unsizable"), "cstring": (["CString", "ascii"], "unsizable"),
    "default": (["Default", B, 7], "fixed"), "padded": (["Padded", 3, B], "fixed"), "flag": (["name", "Flag"], "fixed"),
    "const": (["Const", tag(b"\x7f"), None], "fixed"), "padding": (["Padding", 2], "fixed"),
    # an anonymous member that ends the structure early when the keyword context says so
    "stopif": (["StopIf", ["this", "_params", "stop"]], "unsizable"),
    # members of width 0 that look at the stream (their value depends on where they are evaluated)
    "tell": (["name", "Tell"], "fixed"), "peek": (["Peek", B], "fixed"), "peek16": (["Peek", ["name", "Int16ub"]], "fixed"),
    # aligned members: payload an exact multiple of the modulus, a non-multiple, and a record
    "aligned-exact": (["Aligned", 4, ["name", "Int32ub"]], "fixed"), "aligned-rec": (["Aligned", 4, ["Bytes", 8]], "fixed"), "aligned-3of4": (["Aligned", 4, ["Bytes", 3]], "fixed"),
    "aligned-2of2": (["Aligned", 2, ["name", "Int16ul"]], "fixed"), "alignedstruct": (["AlignedStruct", 2, [["a", B], ["b", ["name", "Int16ub"]]]], "fixed"),
}
UNNAMED_OK = ["const", "padding", "byte", "prefixed", "parray", "varint", "bytes3", "prefixed-incl", "parray-varint", "parray-vcount"]


def genval(kind, rng):
    if kind in ("byte", "default"):
        return rng.randrange(256)
    if kind == "bytes3":
        return bytes(rng.randrange(256) for _ in range(3))
    if kind == "shorts":
        return [rng.randrange(65536), rng.randrange(65536)]
    if kind == "u24":
        return rng.randrange(1 << 24)
    if kind == "ctxbytes":
        return bytes(rng.randrange(256) for _ in range(2))     # n = 2
    if kind in ("prefixed", "prefixed-incl", "prefixed-varint"):
        return bytes(rng.randrange(256) for _ in range(rng.randrange(0, 5)))
    if kind == "prefixed-fixed":
        return bytes([rng.randrange(256)])
    if kind == "parray":
        return [rng.randrange(65536) for _ in range(rng.randrange(0, 4))]
    if kind == "parray-varint":
        return [rng.choice([0, 1, 5, 127, 128, 300, 70000]) for _ in range(rng.randrange(0, 4))]
    if kind == "parray-vcount":
        return [rng.randrange(256) for _ in range(rng.randrange(0, 4))]
    if kind == "parray-cstring":
        return ["".join(rng.choice("abXY") for _ in range(rng.randrange(0, 3))) for _ in range(rng.randrange(0, 3))]
    if kind == "prefixed-struct":
        return {"a": rng.randrange(256), "r": bytes(rng.randrange(256) for _ in range(rng.randrange(0, 3)))}
    if kind == "pascal":
        return "".join(rng.choice("abcXYZ ") for _ in range(rng.randrange(0, 5)))
    if kind == "varint":
        return rng.choice([0, 1, 127, 128, 300, 70000, 2 ** 32])
    if kind == "cstring":
        return "".join(rng.choice("abcXYZ") for _ in range(rng.randrange(0, 5)))
    if kind == "padded":
        return rng.randrange(256)
    if kind == "flag":
        return rng.random() < 0.5
    if kind == "aligned-exact":
        return rng.randrange(1 << 32)
    if kind == "aligned-rec":
        return bytes(rng.randrange(256) for _ in range(8))
    if kind == "aligned-3of4":
        return bytes(rng.randrange(256) for _ in range(3))
    if kind == "aligned-2of2":
        return rng.randrange(65536)
    if kind == "alignedstruct":
        return {"a": rng.randrange(256), "b": rng.randrange(65536)}
    return None


def members_recipes(ms):
    return [[n, KINDS[k][0]] for n, k in ms]


def outcome(f):
    try:
        return ("ok", f())
    except Exception as e:
        from ..common import raise_site
        import construct as C
        site = raise_site(e)
        # ConstructErrors are keyed by type only; foreign exceptions by the library frame they escaped from
        name = type(e).__name__ if isinstance(e, C.ConstructError) else "%s@%s" % (type(e).__name__, site)
        return ("exc", name, str(e)[:120])


def static_sizeof_mismatch(ms, data, off, kw):
    """Known mechanism: a member whose sizeof() answers statically although what it really consumes
    depends on the data (e.g. Prefixed(Byte, Bytes(1)) on a non-canonical prefix): lazy skipping trusts
    sizeof, eager parsing follows the data.  -> kind of the first such member, or None."""
    pos = off
    for n, k in ms:
        x = mk(KINDS[k][0])
        x = (n / x) if n else x
        s = TracedStream(data, pos=pos)
        try:
            x.parse_stream(s, **kw)
        except Exception:
            return None
        try:
            sz = x.sizeof(**kw)
        except Exception:
            sz = None
        if sz is not None and n is not None and sz != s.pos - pos:
            return k
        pos = s.pos
    return None


# ---------------------------------------------------------------- LazyStruct
def do_access(lz, acc, names):
    k = acc[0]
    if k == "name":
        return lz[acc[1]]
    if k == "attr":
        return getattr(lz, acc[1])
    if k == "index":
        return lz[acc[1]]
    if k == "keys":
        return list(lz.keys())
    if k == "values":
        return list(lz.values())
    if k == "items":
        return [list(x) for x in lz.items()]
    if k == "iter":
        return [x for x in lz]
    raise ValueError(acc)


def eager_access(ev, seqv, acc, names):
    k = acc[0]
    if k in ("name", "attr"):
        return ev[acc[1]]
    if k == "index":
        return seqv[acc[1]]
    if k in ("keys", "iter"):
        return list(names)
    if k == "values":
        return [ev[n] for n in names]
    if k == "items":
        return [[n, ev[n]] for n in names]


def case_lazystruct(ctx, case):
    import construct as C
    ms = case["members"]
    data, off, kw = untag(case["data"]), case["offset"], case.get("kw", {})
    hist = case["history"]
    recs = members_recipes(ms)
    names = [n for n, _ in ms if n]
    eager = mk(["Struct", recs])
    seq = mk(["Sequence", recs])
    lazy = mk(["LazyStruct", recs])
    ctx.ev()
    se = TracedStream(data, pos=off)
    e = outcome(lambda: eager.parse_stream(se, **kw))
    if e[0] != "ok":
        ctx.count("skipped_eager_rejects")
        return
    ev = e[1]
    seqv = seq.parse_stream(TracedStream(data, pos=off), **kw)
    # a StopIf may have ended the structure early: only the members that were reached exist, in the eager result as in the lazy one
    names = [n for n in names if n in ev]
    hist = [a for a in hist if not (a[0] in ("name", "attr") and a[1] not in ev) and not (a[0] == "index" and not -len(seqv) <= a[1] < len(seqv))]
    stopped = len(seqv) < len(ms)
    sl = TracedStream(data, pos=off)
    l = outcome(lambda: lazy.parse_stream(sl, **kw))
    cls = case.get("cls", "canonical")
    ssm = static_sizeof_mismatch(ms, data, off, kw) if cls != "canonical" else None
    if ssm:
        ctx.count("inputs_where_static_sizeof_differs_from_consumption")
    if l[0] != "ok":
        ctx.violation("lazy-skip-trusts-static-sizeof" if ssm else "lazystruct-parse-raises:%s" % (l[1],), "eager parse succeeds, lazy parse raised %s: %s" % (l[1], l[2]), case)
        return
    lz = l[1]
    if sl.pos != se.pos:
        ctx.violation("lazy-skip-trusts-static-sizeof" if ssm else "lazystruct-final-position:%s" % (cls,), "stream at %d after lazy parse, %d after eager parse" % (sl.pos, se.pos), case)
        return
    final = sl.pos
    for step, acc in enumerate(hist):
        got = outcome(lambda: do_access(lz, acc, names))
        want = eager_access(ev, seqv, acc, names)
        mk_ = acc[1] if acc[0] in ("name", "attr") else None
        if got[0] != "ok":
            ctx.violation("lazy-skip-trusts-static-sizeof" if ssm else "lazystruct-access-raises:%s:%s" % (acc[0], got[1]), "access %r raised %s: %s (step %d of %r)" % (acc, got[1], got[2], step, hist), case)
            return
        if not veq(got[1], want):
            ctx.violation("lazy-skip-trusts-static-sizeof" if ssm else "lazystruct-value:%s:%s:%s" % (cls, acc[0], culprit(ms, acc)), "access %r -> %r, eager -> %r (step %d of %r)" % (acc, got[1], want, step, hist), case)
            return
        if sl.pos != final:
            ctx.violation("lazystruct-position-after-access", "stream at %d after access %r, was %d after the parse" % (sl.pos, acc, final), case)
            return
    ctx.count("lazystruct_histories")
    order = [a[1] for a in hist if a[0] in ("name", "attr")]
    decl = [n for n in names if n in order]
    if order != decl or len(set(map(str, hist))) < len(hist):
        ctx.nontrivial("ls", ms, cls, hist)
    # build from the lazy result reproduces canonical input
    if cls == "canonical" and case.get("build", True) and all(n or k in ("const", "padding") for n, k in ms):
        consumed = data[off:final]
        sl2 = TracedStream(data, pos=off)
        lz2 = lazy.parse_stream(sl2, **kw)
        for target, tname in ((lazy, "lazystruct"), (eager, "struct")):
            b = outcome(lambda: target.build(lz2, **kw))
            if b[0] != "ok":
                ctx.violation("build-from-lazy-raises:%s:%s" % (tname, b[1]), "build from the lazy result raised %s: %s" % (b[1], b[2]), case)
                break
            if b[1] != consumed:
                ctx.violation("build-from-lazy-differs:%s:%s" % (tname, culprit_build(ms, consumed, b[1], kw)), "build(lazy result) = %s, parsed bytes were %s" % (b[1].hex(), consumed.hex()), case)
                break


def culprit(ms, acc):
    """mechanism key: the kind of the member accessed (or the set of kinds if unknown)"""
    if acc is not None and acc[0] in ("name", "attr"):
        for n, k in ms:
            if n == acc[1]:
                return k
    if acc is not None and acc[0] == "index":
        i = acc[1]
        if -len(ms) <= i < len(ms):
            return ms[i][1] + ("/negative-index" if i < 0 else "") + ("/unnamed" if ms[i][0] is None else "")
    return "+".join(sorted(set(k + ("" if n else "/unnamed") for n, k in ms if KINDS[k][1] != "fixed"))) or "fixed-only"


def culprit_pos(ms, data, off, kw, lazypos):
    return "+".join(sorted(set(k + ("" if n else "/unnamed") for n, k in ms if KINDS[k][1] == "prefixed"))) or "no-prefixed-member"


def culprit_build(ms, want, got, kw):
    """which member's bytes differ first"""
    pos = 0
    for n, k in ms:
        x = mk(KINDS[k][0])
        s = TracedStream(want, pos=pos)
        try:
            x.parse_stream(s, **kw)
        except Exception:
            return k
        if got[pos:s.pos] != want[pos:s.pos]:
            return k + ("" if n else "/unnamed")
        pos = s.pos
    return "length"


def case_during(ctx, case):
    """a Computed touches a lazy member while the surrounding Struct is still parsing"""
    import construct as C
    ms = case["members"]
    data, off, kw = untag(case["data"]), case["offset"], case.get("kw", {})
    touch = case["touch"]
    recs = members_recipes(ms)
    ctx.ev()

    def outer(inner):
        return C.Struct("lz" / inner, "touch" / C.Computed(C.this.lz[touch]), "after" / C.Bytes(2), "pos" / C.Tell)
    eager = outer(mk(["Struct", recs]))
    lazy = outer(mk(["LazyStruct", recs]))
    e = outcome(lambda: eager.parse_stream(TracedStream(data, pos=off), **kw))
    if e[0] != "ok":
        ctx.count("skipped_eager_rejects")
        return
    sl = TracedStream(data, pos=off)
    l = outcome(lambda: lazy.parse_stream(sl, **kw))
    ssm = static_sizeof_mismatch(ms, data, off, kw) if case.get("cls") != "canonical" else None
    if ssm:
        if l[0] != "ok" or not veq(l[1].touch, e[1].touch) or l[1].after != e[1].after:
            ctx.violation("lazy-skip-trusts-static-sizeof", "touch during parse on an input where a member's static sizeof differs from what it consumes", case)
        return
    if l[0] != "ok":
        ctx.violation("during-parse-raises:%s" % (l[1],), "lazy surrounding parse raised %s: %s" % (l[1], l[2]), case)
        return
    if not veq(l[1].touch, e[1].touch):
        ctx.violation("during-parse-value:" + culprit(ms, ["name", touch]), "touched lazy member = %r, eager = %r" % (l[1].touch, e[1].touch), case)
    elif l[1].after != e[1].after or l[1].pos != e[1].pos:
        ctx.violation("access-during-parse-disturbs-position:LazyContainer", "member after the touched lazy struct read %r at %r; eager read %r at %r" % (l[1].after, l[1].pos, e[1].after, e[1].pos), case)
    ctx.count("during_parse_cases")
    ctx.nontrivial("during", ms, touch)


# ---------------------------------------------------------------- Lazy(x) members
def case_lazyfield(ctx, case):
    import construct as C
    kind = case["member"]
    data, off, kw = untag(case["data"]), case["offset"], case.get("kw", {})
    x = KINDS[kind][0]
    named = case.get("named", True)
    ctx.ev()

    def S(inner, touch):
        ms = ["a" / C.Byte, "l" / inner]
        if touch:
            ms.append("touch" / C.Computed(lambda c: c.l() if callable(c.l) else c.l))
        ms += ["b" / C.Bytes(2), "pos" / C.Tell]
        return C.Struct(*ms)
    for touch in (False, True):
        eager = S(mk(x), touch)
        lazy = S(C.Lazy(mk(x)), touch)
        se = TracedStream(data, pos=off)
        e = outcome(lambda: eager.parse_stream(se, **kw))
        if e[0] != "ok":
            ctx.count("skipped_eager_rejects")
            return
        sl = TracedStream(data, pos=off)
        l = outcome(lambda: lazy.parse_stream(sl, **kw))
        tk = "touched-during-parse" if touch else "untouched"
        if l[0] != "ok":
            ctx.violation("lazy-field-parse-raises:%s:%s" % (l[1], KINDS[kind][1]), "Struct with Lazy(%s) raised %s: %s" % (kind, l[1], l[2]), case)
            return
        r = l[1]
        if r.b != e[1].b or r.pos != e[1].pos or sl.pos != se.pos:
            ctx.violation("lazy-field-skips-wrong-amount:%s" % (KINDS[kind][1],), "member after Lazy(%s) read %r at %r, eager %r at %r" % (kind, r.b, r.pos, e[1].b, e[1].pos), case)
            return
        final = sl.pos
        for rep in range(2):
            v = outcome(lambda: r.l())
            if v[0] != "ok" or not veq(v[1], e[1].l):
                ctx.violation("lazy-field-value:" + kind, "Lazy(%s)() -> %r, eager %r" % (kind, v, e[1].l), case)
                return
            if sl.pos != final:
                ctx.violation("lazy-field-position-after-access", "stream at %d after evaluating the lazy field, %d before" % (sl.pos, final), case)
                return
        if touch and not veq(r.touch, e[1].touch):
            ctx.violation("lazy-field-touch-value:" + kind, "value seen during parse differs", case)
        # build from the lambda and from the value
        consumed = data[off:final]
        for how, obj in (("lambda", dict(a=r.a, l=r.l, b=r.b)), ("value", dict(a=r.a, l=e[1].l, b=r.b))):
            b = outcome(lambda: lazy.build(obj, **kw))
            eb = outcome(lambda: eager.build(dict(a=r.a, l=e[1].l, b=r.b), **kw))
            if b != eb:
                ctx.violation("lazy-field-build:%s:%s" % (how, kind), "build from %s -> %r, eager build -> %r" % (how, b, eb), case)
                return
    ctx.count("lazy_field_cases")
    if off:
        ctx.nontrivial("lf", kind, off, case.get("cls"))


# ---------------------------------------------------------------- LazyArray
def case_lazyarray(ctx, case):
    import construct as C
    kind, count = case["member"], case["count"]
    data, off, kw = untag(case["data"]), case["offset"], case.get("kw", {})
    hist = case["history"]
    x = KINDS[kind][0]
    form = case.get("form", "const")
    ctx.ev()
    if form == "const":
        eager, lazy = C.Array(count, mk(x)), C.LazyArray(count, mk(x))
    else:
        eager, lazy = C.Array(C.this._params.cnt, mk(x)), C.LazyArray(C.this._params.cnt, mk(x))
        kw = dict(kw, cnt=count)
    se = TracedStream(data, pos=off)
    e = outcome(lambda: eager.parse_stream(se, **kw))
    if e[0] != "ok":
        ctx.count("skipped_eager_rejects")
        return
    ev = list(e[1])
    sl = TracedStream(data, pos=off)
    l = outcome(lambda: lazy.parse_stream(sl, **kw))
    cls = case.get("cls", "canonical")
    if l[0] != "ok":
        ctx.violation("lazyarray-parse-raises:%s" % (l[1],), "eager parse succeeds, lazy raised %s: %s" % (l[1], l[2]), case)
        return
    if sl.pos != se.pos:
        ctx.violation("lazyarray-final-position:%s:%s" % (cls, kind), "stream at %d after lazy parse, %d after eager" % (sl.pos, se.pos), case)
        return
    lz = l[1]
    final = sl.pos
    for step, acc in enumerate(hist):
        k = acc[0]
        if k == "index":
            f = lambda: lz[acc[1]]
            want = ev[acc[1]]
        elif k == "slice":
            f = lambda: lz[acc[1]:acc[2]:acc[3]]
            want = ev[acc[1]:acc[2]:acc[3]]
        elif k == "iter":
            f = lambda: [v for v in lz]
            want = ev
        elif k == "oob":
            # an index outside the list: IndexError like the eager list (never the data that follows the array in the stream)
            f = lambda: ("value", lz[acc[1]])
            want = ("raises", "IndexError")
            r = outcome(f)
            got = ("ok", ("raises", r[1].split("@")[0])) if r[0] == "exc" else r
            if got != ("ok", want):
                ctx.violation("lazyarray-index-out-of-range", "lazy[%d] on %d elements -> %r, the eager list raises IndexError" % (acc[1], len(ev), r[:2]), case)
                return
            continue
        elif k == "iterpart":
            # an iteration that is abandoned after acc[1] elements (break / any() / next() / zip with a shorter sequence)
            f = lambda: list(itertools.islice(iter(lz), acc[1]))
            want = ev[:acc[1]]
        elif k == "any":
            f = lambda: any(veq(v, ev[acc[1]]) for v in lz)
            want = True
        elif k == "len":
            f = lambda: len(lz)
            want = len(ev)
        got = outcome(f)
        neg = "/negative-index" if k == "index" and acc[1] < 0 else ""
        if got[0] != "ok":
            ctx.violation("lazyarray-access-raises:%s%s:%s" % (k, neg, got[1]), "access %r raised %s: %s" % (acc, got[1], got[2]), case)
            return
        if not veq(got[1], want):
            ctx.violation("lazyarray-value:%s:%s%s:%s" % (cls, k, neg, kind), "access %r -> %r, eager %r (step %d of %r)" % (acc, got[1], want, step, hist), case)
            return
        if sl.pos != final:
            ctx.violation("lazyarray-position-after-access", "stream at %d after access %r, was %d after the parse" % (sl.pos, acc, final), case)
            return
    ctx.count("lazyarray_histories")
    idx = [a[1] for a in hist if a[0] == "index"]
    if idx != sorted(idx) or len(set(idx)) < len(idx) or any(a[0] == "slice" for a in hist):
        ctx.nontrivial("la", kind, count, cls, hist)
    if cls == "canonical":
        consumed = data[off:final]
        lz2 = lazy.parse_stream(TracedStream(data, pos=off), **kw)
        b = outcome(lambda: lazy.build(lz2, **kw))
        if b[0] != "ok" or b[1] != consumed:
            ctx.violation("build-from-lazyarray:" + kind, "build(lazy list) -> %r, parsed bytes %s" % (b if b[0] != "ok" else b[1].hex(), consumed.hex()), case)


CASES = {"lazystruct": case_lazystruct, "during": case_during, "lazyfield": case_lazyfield, "lazyarray": case_lazyarray}


def case_scoped(ctx, case):
    """lazy structures as elements of eager repeaters / members of eager structures, with members sized from the enclosing scope
    (the repetition index, the keyword context, a field one level out): equal to the eager twin in values and final position"""
    import construct as C
    from ..veq import veq
    form, off = case["form"], case["offset"]
    vals = case["values"]
    idx, par, out = C.this._index, C.this._params.n, C.this._.k

    def twin(S):
        if form == "array-index":
            return C.Array(3, S("n" / C.Byte, "d" / C.Bytes(idx + 1), "t" / C.Byte))
        if form == "until-index":
            # (not GreedyRange: a lazy element never reads, so it never fails at the end of the data - see the C06 finding)
            return C.Struct("xs" / C.RepeatUntil(lambda obj, lst, ctx: len(lst) == 3, S("n" / C.Const(b"\x07"), "d" / C.Bytes(idx + 1), "t" / C.Byte)), "e" / C.Byte)
        if form == "params":
            return C.Struct("h" / C.Byte, "z" / S("a" / C.Byte, "d" / C.Bytes(par), "p" / C.Prefixed(C.Byte, C.GreedyBytes), "t" / C.Byte), "e" / C.Byte)
        if form == "outer-field":
            return C.Struct("k" / C.Byte, "z" / S("a" / C.Byte, "d" / C.Bytes(out), "t" / C.Byte), "e" / C.Byte)
        if form == "nested-index":
            return C.Array(2, C.Struct("q" / C.Byte, "z" / S("d" / C.Bytes(idx + 1), "w" / S("e" / C.Bytes(idx + 2)), "t" / C.Byte)))
    eager, lazy = twin(C.Struct), twin(C.LazyStruct)
    kw = {"n": 2}
    try:
        data = eager.build(vals, **kw)
    except Exception:
        ctx.count("scoped_value_not_buildable")
        return
    buf = bytes([0xEE]) * off + data + b"\x55\x66"
    ctx.ev()
    s1, s2 = TracedStream(buf, pos=off), TracedStream(buf, pos=off)
    e = eager.parse_stream(s1, **kw)
    try:
        l = lazy.parse_stream(s2, **kw)
        ln = norm(l)
    except Exception as x:
        ctx.violation("lazystruct-in-scope-raises:%s:%s" % (form, type(x).__name__), "eager twin parses, the lazy one raised %s: %s" % (type(x).__name__, str(x)[:120]), case)
        return
    if ln != norm(e):
        ctx.violation("lazystruct-in-scope-value:" + form, "lazy %r, eager %r" % (l, e), case)
    elif s2.pos != s1.pos:
        ctx.violation("lazystruct-in-scope-position:" + form, "stream at %d after lazy parse, %d after eager" % (s2.pos, s1.pos), case)
    else:
        ctx.nontrivial("scoped", form, off)
        ctx.count("scoped_cases")


def run_case(ctx, case):
    if case["kind"] == "scoped":
        return case_scoped(ctx, case)
    CASES[case["kind"]](ctx, case)


# ---------------------------------------------------------------- generation
def gen_members(rng, maxn):
    n = rng.randint(1, maxn)
    ms = []
    for i in range(n):
        if i and rng.random() < 0.08:
            ms.append([None, "stopif"])
        elif rng.random() < 0.22:
            ms.append([None, rng.choice(UNNAMED_OK)])
        else:
            k = rng.choice([k for k in KINDS if k not in ("const", "padding", "stopif") and not k.startswith("idx")])
            ms.append([("_m%d" if rng.random() < 0.15 else "m%d") % i, k])        # (member names may start with an underscore)
    if not any(n for n, _ in ms):
        ms[0][0] = "m0"
    return ms


def canonical(ms, rng):
    recs = members_recipes(ms)
    val = {}
    for n, k in ms:
        if n:
            val[n] = genval(k, rng)
    kw = {"n": 2, "stop": rng.random() < 0.5}
    # unnamed members that need a value cannot be built by Struct; encode member-wise instead
    out = b""
    import construct as C
    for n, k in ms:
        v = val[n] if n else genval(k, rng)
        x = mk(KINDS[k][0])
        try:
            out += x.build(v, **kw)
        except C.StopFieldError:
            break                          # the structure ends here: nothing behind it is encoded
    return out, kw


def mutate(rng, data):
    if not data:
        return data
    j = rng.randrange(len(data))
    return data[:j] + bytes([data[j] ^ rng.choice([1, 2, 4, 0x80, 0xff])]) + data[j + 1:]


def histories(ctx, rng, ms, nrand):
    named = [n for n, _ in ms if n]
    out = []
    accs = [["name", n] for n in named]
    if len(named) <= (4 if ctx.quick else 6):
        for p in itertools.permutations(accs):
            out.append(list(p))
    else:
        for _ in range(24):
            p = accs[:]
            rng.shuffle(p)
            out.append(p)
    forms = [["name", n] for n in named] + [["attr", n] for n in named] + [["index", i] for i in range(len(ms))] + [["keys"], ["values"], ["items"], ["iter"]]
    for _ in range(nrand):
        out.append([rng.choice(forms) for _ in range(rng.randint(1, 4 if ctx.quick else 6))])
    out.append([["values"], ["items"], ["iter"], ["keys"]])
    out.append([["index", i] for i in reversed(range(len(ms)))])
    return out


def scoped_cases(rng):
    rb = lambda n: bytes(rng.randrange(256) for _ in range(n))
    B = lambda: rng.randrange(256)
    return [
        ("array-index", [{"n": B(), "d": rb(i + 1), "t": B()} for i in range(3)]),
        ("until-index", {"xs": [{"n": None, "d": rb(i + 1), "t": B()} for i in range(3)], "e": 9}),
        ("params", {"h": B(), "z": {"a": B(), "d": rb(2), "p": rb(rng.randint(0, 3)), "t": B()}, "e": B()}),
        ("outer-field", (lambda k: {"k": k, "z": {"a": B(), "d": rb(k), "t": B()}, "e": B()})(rng.randint(0, 4))),
        ("nested-index", [{"q": B(), "z": {"d": rb(i + 1), "w": {"e": rb(i + 2)}, "t": B()}} for i in range(2)]),
    ]


def run(ctx):
    rng = ctx.rng
    for j in range(ctx.pick(6, 60)):
        for form, vals in scoped_cases(rng):
            if ctx.mine(j):
                run_case(ctx, {"kind": "scoped", "form": form, "values": tag(vals) if False else vals, "offset": rng.choice([0, 3])})
    nlists = ctx.pick(320, 4000) // ctx.nworkers
    maxn = ctx.pick(4, 6)
    for li in range(nlists):
        ms = gen_members(rng, maxn)
        data, kw = canonical(ms, rng)
        tail = bytes(rng.randrange(256) for _ in range(4))
        for cls, d in (("canonical", data + tail), ("mutated", mutate(rng, data) + tail), ("mutated", mutate(rng, mutate(rng, data)) + tail)):
            for off in (0, rng.randint(1, 6)):
                buf = bytes([0xEE]) * off + d
                hs = histories(ctx, rng, ms, ctx.pick(6, 30))
                if cls != "canonical":
                    hs = hs[:: max(1, len(hs) // 8)]
                for h in hs:
                    run_case(ctx, {"kind": "lazystruct", "members": ms, "data": tag(buf), "offset": off, "kw": kw, "history": h, "cls": cls, "build": h is hs[0]})
                named = [n for n, _ in ms if n]
                for t in named[:3]:
                    run_case(ctx, {"kind": "during", "members": ms, "data": tag(buf), "offset": off, "kw": kw, "touch": t, "cls": cls})
        if li < 2 and ctx.index < 2:
            ctx.sample({"kind": "lazystruct", "members": ms, "data": tag(data + tail), "histories": len(hs), "example_history": hs[-3]})
    # elements that use the running index of the repeater: the lazy array numbers its elements like the eager one
    j0 = 0
    for elem, mkval in ((["Struct", [["i", ["name", "Index"]], ["v", B]]], lambda i: {"v": rng.randrange(256)}),
                        (["Struct", [["d", ["Bytes", ["bin", "+", ["this", "_index"], 1]]]]], lambda i: {"d": bytes(rng.randrange(256) for _ in range(i + 1))}),
                        (["Struct", [["i", ["Computed", ["this", "_index"]]], ["p", ["Prefixed", B, ["name", "GreedyBytes"]]]]], lambda i: {"p": bytes(rng.randrange(256) for _ in range(rng.randrange(3)))}),
                        (["If", ["bin", ">", ["this", "_index"], 0], ["name", "Int16ub"]], lambda i: rng.randrange(65536) if i else None)):
        KINDS["idx%d" % j0] = (elem, "ctx")
        for count in (1, 3, 4):
            j0 += 1
            if not ctx.mine(j0):
                continue
            for rep in range(ctx.pick(2, 8)):
                enc = mk(["Array", count, elem]).build([mkval(i) for i in range(count)])
                for off in (0, 2):
                    buf = bytes([0xEE]) * off + enc + b"\x99\x98"
                    for h in ([["index", i] for i in reversed(range(count))], [["iter"]], [["index", count - 1], ["index", 0], ["slice", None, None, None]], [["iterpart", 1], ["index", -1]]):
                        run_case(ctx, {"kind": "lazyarray", "member": [k for k in KINDS if KINDS[k][0] is elem][0], "count": count, "data": tag(buf), "offset": off, "kw": {}, "history": h, "cls": "canonical",
                                       "form": "const" if off == 0 else "ctx"})
    # Lazy(x) fields and LazyArray of every element kind
    kinds = [k for k in KINDS if k not in ("const", "padding", "stopif") and not k.startswith("idx")]
    j = 0
    for k in kinds:
        for rep in range(ctx.pick(3, 20)):
            j += 1
            if not ctx.mine(j):
                continue
            v = genval(k, rng)
            kw = {"n": 2}
            enc = mk(KINDS[k][0]).build(v, **kw)
            for cls, e2 in (("canonical", enc), ("mutated", mutate(rng, enc))):
                for off in (0, 3):
                    buf = bytes([0xEE]) * off + b"\x11" + e2 + b"\x22\x33\x44\x55"
                    run_case(ctx, {"kind": "lazyfield", "member": k, "data": tag(buf), "offset": off, "kw": kw, "cls": cls})
            for count in (0, 1, 3, 5):
                vals = [genval(k, rng) for _ in range(count)]
                enc = b"".join(mk(KINDS[k][0]).build(x, **kw) for x in vals)
                for cls, e2 in (("canonical", enc), ("mutated", mutate(rng, enc))):
                    for off in (0, 2):
                        buf = bytes([0xEE]) * off + e2 + b"\x99\x98"
                        hs = []
                        if count:
                            idxs = list(range(count))
                            perms = list(itertools.permutations(idxs)) if count <= 3 else [rng.sample(idxs, count) for _ in range(8)]
                            for p in perms:
                                hs.append([["index", i] for i in p])
                            hs.append([["index", -1], ["index", 0], ["index", -count], ["index", count - 1]])
                            hs.append([["slice", 1, None, None], ["index", 0], ["slice", None, None, -1], ["slice", 0, count, 2]])
                            hs.append([["index", rng.randrange(count)] for _ in range(4)] + [["iter"]])
                            hs.append([["iterpart", 1], ["index", count - 1], ["iterpart", max(1, count - 1)], ["iter"]])
                            hs.append([["any", 0], ["iterpart", 0], ["any", count - 1], ["slice", None, None, None]])
                        hs.append([["iter"], ["len"], ["slice", None, None, None]])
                        hs.append([["oob", count], ["oob", -count - 1], ["oob", count + 3]] + ([["index", 0]] if count else []))
                        for h in hs:
                            run_case(ctx, {"kind": "lazyarray", "member": k, "count": count, "data": tag(buf), "offset": off, "kw": kw, "history": h, "cls": cls,
                                           "form": "const" if off == 0 else "ctx"})
            if rep == 0 and ctx.index < 3:
                ctx.sample({"kind": "lazyarray", "member": k, "count": count, "data": tag(buf), "history": hs[-2] if len(hs) > 1 else hs[0]})


def replay(ctx, case):
    run_case(ctx, case)
