"""C09 - look-ahead and alternatives leave the stream exactly where their contract says.

Oracle: the member constructs run *in isolation* on a fresh traced stream at the same offset (the combinator
is under test, not its members), plus the positions recorded by the traced stream.
"""
from ..common import tag, untag
from ..recipes import mk
from ..streams import TracedStream
from ..veq import veq, norm

LEVEL = "exploration"
RULE = ("combinator instances Peek/Pointer/Select/Optional/GreedyRange(discard on/off)/Union(parsefrom None|index|name|expr, named and unnamed members) "
        "over members drawn from fixed, variable-length, validating and nested constructs; inputs: canonical encodings, every truncation, a "
        "violating byte planted at every position, random bytes; every start offset 0..5; parse and build; Pointer also with stream= naming a second stream standing elsewhere and inside Prefixed/FixedSized/nested "
        "regions at non-zero offsets; Select alternatives giving up with non-ConstructError exceptions; compiled Unions; probes inside streamed bit regions. non-trivial = case in which at least "
        "one alternative/element failed after consuming >= 1 byte; distinct by (combinator instance, input)")
ASSUMPTIONS = ["elements that can succeed without consuming input are not used as GreedyRange elements (termination is C06's subject)",
               "after Select fails as a whole the stream must stand where it started (no trace of a failed alternative); for the other combinators the position after a failure of the whole is not checked"]
REQUIRED_ANCHORS = ["core:Select._parse", "core:Select._build", "core:GreedyRange._parse", "core:Peek._parse", "core:Peek._build",
                    "core:Pointer._parse", "core:Pointer._build", "core:Union._parse", "core:Optional"]
ANCHORS = REQUIRED_ANCHORS

B = ["name", "Byte"]
MEMBERS = [
    ("byte", B), ("u16", ["name", "Int16ub"]), ("bytes3", ["Bytes", 3]),
    ("varint", ["name", "VarInt"]), ("cstr", ["CString", "ascii"]), ("prefixed", ["Prefixed", B, ["name", "GreedyBytes"]]),
    ("pascal", ["PascalString", ["name", "VarInt"], "utf8"]),
    ("constAB", ["Const", tag(b"AB"), None]), ("oneof", ["OneOf", B, [1, 2, 3]]), ("const7", ["Const", 7, B]),
    ("struct", ["Struct", [["a", B], ["b", ["Const", tag(b"\x01"), None]], ["c", ["name", "Int16ul"]]]]),
    ("seq", ["Sequence", [[None, B], [None, ["OneOf", B, [5, 6]]], [None, ["name", "VarInt"]]]]),
    ("arr", ["Array", 2, ["name", "Int16ub"]]), ("padded", ["Padded", 3, B]),
    ("nested-select", ["Select", [["Const", tag(b"\x09\x09"), None], ["name", "Int16ub"]]]),
    # a length-prefixed record of fixed-size fields: sizeof() answers statically, what is consumed follows the length byte
    ("prefixed-fixed", ["Prefixed", B, ["Struct", [["a", B], ["b", B]]]]), ("prefixed-byte", ["Prefixed", B, ["Bytes", 1]]),
    ("u24", ["name", "Int24ub"]), ("check", ["Struct", [["n", B], [None, ["Check", ["bin", "<", ["this", "n"], 4]]], ["d", ["Bytes", ["this", "n"]]]]]),
]
MREC = dict(MEMBERS)

CANON = {
    "byte": [b"\x05", b"\x00"], "u16": [b"\x01\x02"], "bytes3": [b"abc"], "varint": [b"\x05", b"\x85\x01", b"\xff\xff\x03"],
    "cstr": [b"hi\x00", b"\x00"], "prefixed": [b"\x02xy", b"\x00"], "pascal": [b"\x03abc", b"\x00"], "constAB": [b"AB"],
    "oneof": [b"\x01", b"\x03"], "const7": [b"\x07"], "struct": [b"\x09\x01\x34\x12"], "seq": [b"\x01\x05\x81\x01", b"\x02\x06\x00"],
    "arr": [b"\x00\x01\x00\x02"], "padded": [b"\x09\x00\x00"], "nested-select": [b"\x09\x09", b"\x01\x02"], "u24": [b"\x01\x02\x03"],
    "check": [b"\x02xy", b"\x00", b"\x03abc"],
    "prefixed-fixed": [b"\x02ab", b"\x04abXY", b"\x03abZ"], "prefixed-byte": [b"\x01a", b"\x03aXY"],
}


def iso(recipe, data, offset, **kw):
    """Run one member in isolation. -> ("ok", value, endpos, maxpos) | ("fail", excname, None, maxpos)"""
    s = TracedStream(data, pos=offset)
    try:
        v = mk(recipe).parse_stream(s, **kw)
    except Exception as e:
        mx = max([offset] + [e4 for (_, _, _, _, e4) in s.log])
        return ("fail", type(e).__name__, None, mx)
    mx = max([offset] + [e4 for (_, _, _, _, e4) in s.log])
    return ("ok", v, s.pos, mx)


def inputs_for(names, rng, extra_random=3):
    """byte strings built from the members' canonical encodings: whole, every truncation, a violating byte at every position"""
    outs = []
    seeds = []
    for n in names:
        for c in CANON[n]:
            seeds.append(c)
    for c in seeds:
        tail = rng.choice(seeds)
        outs.append(c + tail)
        outs.append(c)
        for k in range(len(c)):
            outs.append(c[:k])
            for badv in (0x00, 0xFF, c[k] ^ 0x01, 0x80):
                outs.append(c[:k] + bytes([badv]) + c[k + 1:] + tail)
    for _ in range(extra_random):
        outs.append(bytes(rng.choice([0, 1, 2, 5, 7, 0x41, 0x42, 0x80, 0xff, rng.getrandbits(8)]) for _ in range(rng.randint(0, 8))))
    outs.append(b"")
    # dedupe, keep order
    seen, res = set(), []
    for o in outs:
        if o not in seen:
            seen.add(o)
            res.append(o)
    return res


def place(data, offset):
    return bytes([0xEE] * offset) + data


# ----------------------------------------------------------------------------
def case_peek(ctx, case):
    import construct as C
    x = MREC[case["member"]]
    data, off = place(untag(case["data"]), case["offset"]), case["offset"]
    ctx.ev()
    want = iso(x, data, off)
    d = C.Peek(mk(x))
    s = TracedStream(data, pos=off)
    try:
        got = ("ok", d.parse_stream(s))
    except Exception as e:
        got = ("exc", type(e).__name__)
    if want[0] == "ok":
        if got[0] != "ok" or not veq(got[1], want[1]):
            ctx.violation("peek-value", "Peek(x) -> %r, x alone -> %r" % (got, want[1]), case)
    else:
        if got != ("ok", None):
            ctx.violation("peek-failure-not-None:" + want[1], "inner parse fails with %s; Peek -> %r (expected None)" % (want[1], got), case)
        if want[3] > off:
            ctx.nontrivial("peek", case)
    if s.pos != off:
        ctx.violation("peek-position-%s" % ("after-success" if want[0] == "ok" else "after-failure"),
                      "stream at %d after Peek, started at %d" % (s.pos, off), case)
    # build: nothing written, position unchanged, value passed through
    s2 = TracedStream(b"\xAA" * (off + 2), pos=off)
    try:
        d.build_stream(want[1] if want[0] == "ok" else None, s2)
        if s2.pos != off or s2.getvalue() != b"\xAA" * (off + 2):
            ctx.violation("peek-build-touches-stream", "Peek build moved/wrote the stream", case)
    except Exception as e:
        ctx.violation("peek-build-raises", repr(e), case)
    # inside a Struct: the following member starts where Peek started
    st = C.Struct("p" / d, "next" / C.GreedyBytes)
    s3 = TracedStream(data, pos=off)
    try:
        r = st.parse_stream(s3)
        if r.next != data[off:]:
            ctx.violation("peek-following-member", "member after Peek saw %r, expected %r" % (r.next, data[off:]), case)
    except Exception as e:
        ctx.violation("peek-in-struct-raises:" + type(e).__name__, repr(e), case)


def case_pointer(ctx, case):
    import construct as C
    x = MREC[case["member"]]
    data = untag(case["data"])
    target = case["target"]         # absolute (>=0) or end-relative (<0)
    start = case["offset"]
    form = case.get("form", "const")
    ctx.ev()
    abs_t = target if target >= 0 else len(data) + target
    if abs_t < 0:
        return
    want = iso(x, data, abs_t)
    if form == "aux":
        return case_pointer_aux(ctx, case, x, data, target, start, abs_t, want)
    if form == "region":
        return case_pointer_region(ctx, case, x, data, target, start)
    if form == "const":
        d = C.Pointer(target, mk(x))
        kw = {}
    elif form == "expr":
        # the target assembled from two fields with shift and bitwise or, (hi << 1) | lo, as segment:offset formats do
        if target < 0:
            return
        d = C.Pointer((C.this._params.hi << 1) | C.this._params.lo, mk(x))
        kw = {"hi": target >> 1, "lo": target & 1}
    else:
        d = C.Pointer(C.this._params.t, mk(x))
        kw = {"t": target}
    s = TracedStream(data, pos=start)
    try:
        got = ("ok", d.parse_stream(s, **kw))
    except Exception as e:
        got = ("exc", type(e).__name__)
    if want[0] == "ok":
        if got[0] != "ok" or not veq(got[1], want[1]):
            ctx.violation("pointer-value:%s" % ("negative" if target < 0 else "absolute"), "Pointer(%d, x) -> %r, x alone at %d -> %r" % (target, got, abs_t, want[1]), case)
        elif s.pos != start:
            ctx.violation("pointer-position-after-parse", "stream at %d after Pointer parse, started at %d" % (s.pos, start), case)
        if target < 0 or start != abs_t:
            ctx.nontrivial("pointer", case)
        # build: into a pre-filled stream, from the start position
        v = want[1]
        try:
            enc = mk(x).build(v)
        except Exception:
            return
        s2 = TracedStream(bytes(data), pos=start)
        try:
            d.build_stream(v, s2, **kw)
        except Exception as e:
            ctx.violation("pointer-build-raises:" + type(e).__name__, repr(e), case)
            return
        if s2.pos != start:
            ctx.violation("pointer-position-after-build", "stream at %d after Pointer build, started at %d" % (s2.pos, start), case)
        out = s2.getvalue()
        if out[abs_t:abs_t + len(enc)] != enc or out[:abs_t] != data[:abs_t]:
            ctx.violation("pointer-build-target:%s" % ("negative" if target < 0 else "absolute"), "bytes at target %d are %s, expected %s" % (abs_t, out[abs_t:abs_t + len(enc)].hex(), enc.hex()), case)
    else:
        if got[0] != "exc":
            ctx.violation("pointer-accepts-failing-inner", "inner fails (%s) but Pointer returned %r" % (want[1], got[1]), case)


def case_pointer_region(ctx, case, x, data, target, start):
    """a Pointer inside a length-limited region that does not start at offset 0 of the stream: a non-negative target is an absolute
    offset of the outermost stream, a negative one counts from the end of the region; afterwards the region's stream stands where it stood"""
    import construct as C
    for wrapk in ("Prefixed", "FixedSized", "Prefixed>FixedSized"):
        inner = C.Struct("a" / C.Byte, "v" / C.Pointer(target, mk(x)), "rest" / C.GreedyBytes)
        if wrapk == "Prefixed":
            d, head, base = C.Struct("h" / C.Bytes(start), "r" / C.Prefixed(C.Byte, inner), "t" / C.Byte), bytes([0xEE]) * start + bytes([len(data)]), start + 1
        elif wrapk == "FixedSized":
            d, head, base = C.Struct("h" / C.Bytes(start), "r" / C.FixedSized(len(data), inner), "t" / C.Byte), bytes([0xEE]) * start, start
        else:
            d, head, base = C.Struct("h" / C.Bytes(start), "r" / C.Prefixed(C.Byte, C.Struct("k" / C.Byte, "f" / C.FixedSized(len(data), inner))), "t" / C.Byte), bytes([0xEE]) * start + bytes([len(data) + 1, 0x4b]), start + 2
        if len(data) < 1 or len(data) > 250:
            return
        buf = head + data + b"\x09"
        # absolute offset of the target in the outermost stream
        abs_t = target if target >= 0 else base + len(data) + target
        if abs_t < base or abs_t > base + len(data):
            continue                # outside the region: not defined here
        want = iso(x, buf[:base + len(data)], abs_t)
        ctx.ev()
        s = TracedStream(buf, pos=0)
        try:
            got = ("ok", d.parse_stream(s))
        except Exception as e:
            got = ("exc", type(e).__name__)
        if want[0] != "ok":
            if got[0] == "ok":
                ctx.violation("pointer-accepts-failing-inner", "inner fails (%s) inside the region but the parse returned a value" % (want[1],), dict(case, wrap=wrapk))
            continue
        if got[0] != "ok":
            ctx.violation("pointer-in-region-raises:%s:%s" % (wrapk, got[1]), "Pointer(%d, x) inside %s starting at offset %d: parse raised %s" % (target, wrapk, base, got[1]), dict(case, wrap=wrapk))
            return
        r = got[1].r if wrapk != "Prefixed>FixedSized" else got[1].r.f
        if not veq(r.v, want[1]):
            ctx.violation("pointer-in-region-value:%s" % ("negative" if target < 0 else "absolute"), "Pointer(%d, x) inside %s (region at %d..%d) -> %r, x alone at offset %d -> %r" % (target, wrapk, base, base + len(data), r.v, abs_t, want[1]), dict(case, wrap=wrapk))
            return
        if r.a != data[0] or r.rest != data[1:] or got[1].t != 9 or s.pos != len(buf):
            ctx.violation("pointer-in-region-position", "after the Pointer the region's members read a=%r rest=%r t=%r (stream at %d of %d)" % (r.a, r.rest, got[1].t, s.pos, len(buf)), dict(case, wrap=wrapk))
            return
        if start:
            ctx.nontrivial("pointer-region", case["member"], target, start, wrapk)


def case_pointer_aux(ctx, case, x, data, target, start, abs_t, want):
    """Pointer(..., stream=<another stream>): the inner construct works on the other stream at the target, that stream's own
    position is restored, the main stream is neither read, written nor moved"""
    import construct as C
    d = C.Pointer(target, mk(x), stream=C.this._params.aux)
    for aux_start in (0, 2, len(data)):
        main = TracedStream(b"\xEE" * 9, pos=start)
        aux = TracedStream(data, pos=aux_start)
        ctx.ev()
        try:
            got = ("ok", d.parse_stream(main, aux=aux))
        except Exception as e:
            got = ("exc", type(e).__name__)
        if want[0] != "ok":
            if got[0] != "exc":
                ctx.violation("pointer-accepts-failing-inner", "inner fails (%s) but Pointer returned %r" % (want[1], got[1]), case)
            continue
        if got[0] != "ok" or not veq(got[1], want[1]):
            ctx.violation("pointer-aux-value", "Pointer(%d, x, stream=aux) -> %r, x alone on aux at %d -> %r" % (target, got, abs_t, want[1]), case)
            return
        if aux.pos != aux_start:
            ctx.violation("pointer-aux-position-after-parse", "the other stream stands at %d after the Pointer parse, it stood at %d (main stream at %d)" % (aux.pos, aux_start, start), case)
            return
        if main.pos != start or any(op[0] in ("read", "write") for op in main.log):
            ctx.violation("pointer-aux-touches-main-stream", "main stream moved to %d / was read although stream= names another stream" % main.pos, case)
            return
        if aux_start != start:
            ctx.nontrivial("pointer-aux", case["member"], target, start, aux_start)
        v = want[1]
        try:
            enc = mk(x).build(v)
        except Exception:
            continue
        main2 = TracedStream(b"\xEE" * 9, pos=start)
        aux2 = TracedStream(bytes(data), pos=aux_start)
        try:
            d.build_stream(v, main2, aux=aux2)
        except Exception as e:
            ctx.violation("pointer-aux-build-raises:" + type(e).__name__, repr(e), case)
            return
        out = aux2.getvalue()
        if aux2.pos != aux_start or main2.pos != start or main2.getvalue() != b"\xEE" * 9:
            ctx.violation("pointer-aux-position-after-build", "after build: other stream at %d (was %d), main stream at %d (was %d)" % (aux2.pos, aux_start, main2.pos, start), case)
        elif out[abs_t:abs_t + len(enc)] != enc or out[:abs_t] != data[:abs_t]:
            ctx.violation("pointer-aux-build-target", "bytes at target %d of the other stream are %s, expected %s" % (abs_t, out[abs_t:abs_t + len(enc)].hex(), enc.hex()), case)


def foreign_members():
    """alternatives that give up with an exception that is not a ConstructError (a codec's own error, a lookup in an adapter, a
    wrong arity): Select moves on to the next alternative after ANY failure except an explicit Error"""
    import construct as C
    table = {1: "one", 2: "two"}
    return {
        "zlib": C.Prefixed(C.Byte, C.Compressed(C.GreedyBytes, "zlib")),
        "lookup": C.ExprAdapter(C.Byte, lambda obj, ctx: table[obj], lambda obj, ctx: {v: k for k, v in table.items()}[obj]),
        "arity": C.NamedTuple("pt", "x y", C.Array(3, C.Byte)),
        "lambda": C.Struct("n" / C.Byte, "d" / C.Bytes(lambda ctx: 4 // ctx.n)),
    }


def case_select_foreign(ctx, case):
    import construct as C
    fm = foreign_members()
    first = fm[case["first"]]
    data, off = place(untag(case["data"]), case["offset"]), case["offset"]
    second = mk(MREC[case["second"]])
    ctx.ev()
    s0 = TracedStream(data, pos=off)
    try:
        first.parse_stream(s0)
        return                         # the first alternative parses this input: nothing to observe
    except C.ConstructError:
        kindf = "construct"
    except Exception as e:
        kindf = type(e).__name__
    want = iso(MREC[case["second"]], data, off)
    d = C.Select(first, second)
    s = TracedStream(data, pos=off)
    try:
        got = ("ok", d.parse_stream(s))
    except Exception as e:
        got = ("exc", type(e).__name__)
    if want[0] == "ok":
        if got[0] != "ok" or not veq(got[1], want[1]):
            ctx.violation("select-does-not-move-on-after-%s" % ("foreign-exception" if kindf != "construct" else "failure"), "first alternative gives up with %s; the second alone parses to %r; Select -> %r" % (kindf, want[1], got), case)
        elif s.pos != want[2]:
            ctx.violation("select-position", "stream at %d after Select, the successful alternative alone ends at %d" % (s.pos, want[2]), case)
        elif kindf != "construct":
            ctx.nontrivial("select-foreign", case["first"], case["second"], kindf)
            ctx.count("alternative_failed_with_foreign_exception")
    else:
        if got != ("exc", "SelectError"):
            ctx.violation("select-no-alternative", "no alternative parses but Select -> %r" % (got,), case)
        elif s.pos != off:
            ctx.violation("select-position-after-all-fail", "every alternative failed; stream left at %d, started at %d" % (s.pos, off), case)


def case_select(ctx, case):
    import construct as C
    names = case["alts"]
    data, off = place(untag(case["data"]), case["offset"]), case["offset"]
    named = case.get("named", False)
    ctx.ev()
    want = None
    consumed_fail = False
    for n in names:
        r = iso(MREC[n], data, off)
        if r[0] == "ok":
            want = r
            break
        if r[3] > off:
            consumed_fail = True
    alts = [mk(MREC[n]) for n in names]
    if case.get("optional"):
        d = C.Optional(alts[0])
        if want is None:
            want = ("ok", None, off, off)
    elif named:
        d = C.Select(**{"alt%d" % i: a for i, a in enumerate(alts)})
    else:
        d = C.Select(*alts)
    s = TracedStream(data, pos=off)
    try:
        got = ("ok", d.parse_stream(s))
    except Exception as e:
        got = ("exc", type(e).__name__)
    kind = "optional" if case.get("optional") else "select"
    if want is None:
        if got != ("exc", "SelectError"):
            ctx.violation(kind + "-no-alternative", "no alternative parses in isolation but Select -> %r" % (got,), case)
        elif s.pos != off:
            # a caller that catches the error and goes on with the stream (resynchronising, trying another format)
            ctx.violation(kind + "-position-after-all-fail", "every alternative failed; stream left at %d, started at %d" % (s.pos, off), case)
        if consumed_fail:
            ctx.nontrivial(kind, case)
            ctx.count("all_alternatives_failed_after_consuming")
        return
    if got[0] != "ok" or not veq(got[1], want[1]):
        ctx.violation(kind + "-value", "Select -> %r; first succeeding alternative alone -> %r" % (got, want[1]), case)
    elif s.pos != want[2]:
        ctx.violation(kind + "-position", "stream at %d after Select, the successful alternative alone ends at %d" % (s.pos, want[2]), case)
    if consumed_fail:
        ctx.nontrivial(kind, case)
        ctx.count("alternative_failed_after_consuming")
    # followed by another member: it must see the bytes after the successful alternative
    st = C.Struct("s" / d, "rest" / C.GreedyBytes)
    s3 = TracedStream(data, pos=off)
    try:
        r = st.parse_stream(s3)
        if r.rest != data[want[2]:]:
            ctx.violation(kind + "-following-member", "member after Select saw %r, expected %r" % (r.rest, data[want[2]:]), case)
    except Exception as e:
        ctx.violation(kind + "-in-struct-raises:" + type(e).__name__, repr(e), case)
    # build: the first alternative that builds the value decides the bytes; position advances by exactly that
    v = want[1]
    wantb = None
    for n in (names if not case.get("optional") else names[:1]):
        try:
            wantb = mk(MREC[n]).build(v)
            break
        except Exception:
            continue
    if wantb is None and case.get("optional"):
        wantb = b""
    if wantb is not None:
        s2 = TracedStream(b"", pos=0)
        s2.write(b"\xEE" * off)
        try:
            d.build_stream(v, s2)
            out = s2.getvalue()[off:]
            if out != wantb or s2.pos != off + len(wantb):
                ctx.violation(kind + "-build", "Select build -> %s at pos %d; first building alternative alone -> %s" % (out.hex(), s2.pos, wantb.hex()), case)
        except Exception as e:
            ctx.violation(kind + "-build-raises:" + type(e).__name__, repr(e), case)


def case_greedy(ctx, case):
    import construct as C
    x = MREC[case["member"]]
    data, off = place(untag(case["data"]), case["offset"]), case["offset"]
    discard = case.get("discard", False)
    ctx.ev()
    pos = off
    items = []
    consumed_fail = False
    for _ in range(len(data) + 2):
        r = iso(x, data, pos)
        if r[0] != "ok":
            if r[3] > pos:
                consumed_fail = True
            break
        if r[2] == pos:
            return          # zero-width success: excluded (see ASSUMPTIONS)
        items.append(r[1])
        pos = r[2]
    d = C.GreedyRange(mk(x), discard=discard) if discard else C.GreedyRange(mk(x))
    s = TracedStream(data, pos=off)
    try:
        got = ("ok", d.parse_stream(s))
    except Exception as e:
        got = ("exc", type(e).__name__)
    tagd = "discard" if discard else "keep"
    if got[0] != "ok":
        ctx.violation("greedyrange-raises:" + got[1], "GreedyRange raised %s" % got[1], case)
        return
    if not veq(got[1], [] if discard else items):
        ctx.violation("greedyrange-value:" + tagd, "GreedyRange -> %r; successive elements alone -> %r" % (got[1], items), case)
    if s.pos != pos:
        ctx.violation("greedyrange-position:" + tagd, "stream at %d after GreedyRange, end of last successful element is %d (%d elements)" % (s.pos, pos, len(items)), case)
    if consumed_fail:
        ctx.nontrivial("greedy", case)
        ctx.count("element_failed_after_consuming")
    st = C.Struct("g" / d, "rest" / C.GreedyBytes)
    s3 = TracedStream(data, pos=off)
    try:
        r = st.parse_stream(s3)
        if r.rest != data[pos:]:
            ctx.violation("greedyrange-following-member:" + tagd, "member after GreedyRange saw %r, expected %r" % (r.rest, data[pos:]), case)
    except Exception as e:
        ctx.violation("greedyrange-in-struct-raises:" + type(e).__name__, repr(e), case)


def case_union(ctx, case):
    import construct as C
    members = case["members"]        # list of [name|None, membername]
    pf = case["parsefrom"]           # None | int | str | ["ctx"]
    data, off = place(untag(case["data"]), case["offset"]), case["offset"]
    ctx.ev()
    isos = [iso(MREC[m], data, off) for _, m in members]
    subs = [((n / mk(MREC[m])) if n else mk(MREC[m])) for n, m in members]
    kw = {}
    if isinstance(pf, list):
        d = C.Union(C.this._params.sel, *subs)
        sel = pf[1]
        selobj = sel
        if pf[0] == "ctx-label":           # a label object as an Enum hands it out (a str subclass)
            selobj = C.EnumIntegerString.new(7, sel)
        elif pf[0] == "ctx-intenum":       # a member of an IntEnum / a bool (int subclasses)
            import enum
            selobj = enum.IntEnum("Sel", [("m%d" % i, i) for i in range(len(members))])(sel) if sel > 1 else bool(sel)
        kw = {"sel": selobj}
    else:
        d = C.Union(pf, *subs)
        sel = pf
    s = TracedStream(data, pos=off)
    try:
        got = ("ok", d.parse_stream(s, **kw))
    except Exception as e:
        got = ("exc", type(e).__name__)
    if any(r[0] != "ok" for r in isos):
        if got[0] == "ok":
            ctx.violation("union-accepts-failing-member", "a member fails in isolation but Union returned a value", case)
        return
    if got[0] != "ok":
        ctx.violation("union-raises:" + got[1], "all members parse in isolation from the start, Union raised %s" % got[1], case)
        return
    for (n, m), r in zip(members, isos):
        if n and not veq(got[1].get(n), r[1]):
            ctx.violation("union-member-not-from-start:%s" % ("after-unnamed" if any(nn is None for nn, _ in members) else "named"),
                          "member %r = %r, alone from the start = %r" % (n, got[1].get(n), r[1]), case)
            return
    if sel is None:
        wantpos = off
    elif isinstance(sel, int):
        wantpos = isos[sel][2]
    else:
        wantpos = isos[[n for n, _ in members].index(sel)][2]
    if s.pos != wantpos:
        ctx.violation("union-final-position:%s" % ("none" if sel is None else type(sel).__name__), "stream at %d after Union, expected %d (parsefrom=%r)" % (s.pos, wantpos, sel), case)
    if len(set(r[2] for r in isos)) > 1:
        ctx.nontrivial("union", case)
    # the generated-code implementation of the same Union: same members from the same start, same final position
    key = repr((members, pf))
    if key not in COMPILED:
        if len(COMPILED) > 4000:
            COMPILED.clear()
        try:
            COMPILED[key] = d.compile()
        except Exception:
            COMPILED[key] = None
    dc = COMPILED[key]
    if dc is None:
        ctx.count("union_not_compilable")
        return
    s2 = TracedStream(data, pos=off)
    ctx.ev()
    try:
        gotc = dc.parse_stream(s2, **kw)
    except Exception as e:
        ctx.violation("union-compiled-raises:" + type(e).__name__, "the interpreted Union parses, the compiled one raised %s: %s" % (type(e).__name__, str(e)[:120]), case)
        return
    for (n, m), r in zip(members, isos):
        if n and not veq(gotc.get(n), r[1]):
            ctx.violation("union-compiled-member-not-from-start", "compiled: member %r = %r, alone from the start = %r" % (n, gotc.get(n), r[1]), case)
            return
    if s2.pos != wantpos:
        ctx.violation("union-compiled-final-position:%s:%s" % ("none" if sel is None else type(sel).__name__, "after-unnamed" if any(nn is None for nn, _ in members) else "named"),
                      "compiled Union leaves the stream at %d, expected %d (parsefrom=%r)" % (s2.pos, wantpos, sel), case)
    ctx.count("union_compiled_compared")


COMPILED = {}


COMPILED_PTR = {}


def case_pointers_compiled(ctx, case):
    """one format holding several Pointers of different kinds (constant absolute, constant end-relative, offsets taken from the
    context with either sign), interpreted and compiled: same values, same final position, same bytes written"""
    import construct as C
    kinds = case["kinds"]            # list of ["abs", n] | ["end", -n] | ["ctx", n]
    data, off = untag(case["data"]), case["offset"]
    ms, kw = [], {}
    for i, (kd, n) in enumerate(kinds):
        if kd == "ctx":
            kw["o%d" % i] = n
            ms.append(("p%d" % i) / C.Pointer(getattr(C.this._params, "o%d" % i), C.Byte))
        else:
            ms.append(("p%d" % i) / C.Pointer(n, C.Byte))
    d = C.Struct("h" / C.Byte, *ms, "t" / C.Byte)
    key = repr(kinds)
    if key not in COMPILED_PTR:
        try:
            COMPILED_PTR[key] = d.compile()
        except Exception:
            COMPILED_PTR[key] = None
    dc = COMPILED_PTR[key]
    if dc is None:
        ctx.count("pointers_not_compilable")
        return
    ctx.ev()

    def run(x):
        s = TracedStream(data, pos=off)
        try:
            v = x.parse_stream(s, **kw)
            return ("ok", {k2: v[k2] for k2 in v if not str(k2).startswith("_")}, s.pos)
        except Exception as e:
            return ("exc",)              # (generated code reports short data with exceptions of its own: only success / failure is compared)
    a, b = run(d), run(dc)
    # reference for the interpreted side: every target read straight from the data
    want = None
    if len(data) >= off + 2:
        vals = {"h": data[off], "t": data[off + 1]}
        for i, (kd, n) in enumerate(kinds):
            at = n if n >= 0 else len(data) + n
            vals["p%d" % i] = data[at] if 0 <= at < len(data) else None
        if all(v is not None for v in vals.values()):
            want = vals
    if want is not None and (a[0] != "ok" or any(a[1].get(k2) != v for k2, v in want.items()) or a[2] != off + 2):
        ctx.violation("pointers-interpreted-differ-from-data", "interpreted -> %r, the data say %r ending at %d" % (a, want, off + 2), case)
        return
    if a != b:
        ctx.violation("pointers-compiled-differ:parse", "kinds %r: interpreted -> %r, compiled -> %r" % (kinds, a, b), case)
        return
    if a[0] == "ok" and want is not None:
        # build into a pre-filled stream: every target receives its byte, the position ends after the two sequential members
        v = {k2: (x + 1) % 256 for k2, x in want.items()}
        outs = []
        for x in (d, dc):
            s2 = TracedStream(bytes(data), pos=off)
            try:
                x.build_stream(v, s2, **kw)
                outs.append(("ok", s2.getvalue(), s2.pos))
            except Exception as e:
                outs.append(("exc", type(e).__name__))
        if outs[0] != outs[1]:
            ctx.violation("pointers-compiled-differ:build", "kinds %r: interpreted build -> %r, compiled -> %r" % (kinds, outs[0][:1] + outs[0][2:] if outs[0][0] == "ok" else outs[0], outs[1][:1] + outs[1][2:] if outs[1][0] == "ok" else outs[1]), case)
            return
    ctx.count("pointer_formats_compiled_compared")
    if len(set(k2 for k2, _ in kinds)) > 1 or len(set(n < 0 for _, n in kinds)) > 1:
        ctx.nontrivial("pointers-compiled", kinds, off)


def case_union_reentrant(ctx, case):
    """a recursive format: the same Union object is entered again (through LazyBound) while one of its members is being
    parsed.  Every node is what it would be alone from its position, and every node ends where its own selection says."""
    import construct as C
    order, headw, pf = case["order"], case["headw"], case["parsefrom"]
    data, off = place(untag(case["data"]), case["offset"]), case["offset"]
    ctx.ev()

    class Short(Exception):
        pass

    def ref(pos):
        vals, ends = {}, {}
        for nm in order:
            if nm == "head":
                if pos + headw > len(data):
                    raise Short()
                vals[nm], ends[nm] = int.from_bytes(data[pos:pos + headw], "big"), pos + headw
            elif nm == "z":
                if pos + 1 > len(data):
                    raise Short()
                vals[nm], ends[nm] = data[pos], pos + 1
            else:
                if pos + 1 > len(data):
                    raise Short()
                t, child, e = data[pos], None, pos + 1
                if t > 0:
                    child, e = ref(pos + 1)
                vals[nm], ends[nm] = {"tag": t, "child": child}, e
        sel = None if pf is None else pf if isinstance(pf, str) else order[pf]
        return vals, (pos if sel is None else ends[sel])
    holder = []
    mem = {"head": "head" / (C.Byte if headw == 1 else C.Int16ub), "z": "z" / C.Byte,
           "tree": "tree" / C.Struct("tag" / C.Byte, "child" / C.If(C.this.tag > 0, C.LazyBound(lambda: holder[0])))}
    holder.append(C.Union(pf, *[mem[nm] for nm in order]))
    try:
        want = ("ok",) + ref(off)
    except Short:
        want = ("fail",)
    s = TracedStream(data, pos=off)
    try:
        got = ("ok", holder[0].parse_stream(s))
    except C.ConstructError as e:
        got = ("fail", type(e).__name__)
    except Exception as e:
        ctx.violation("union-reentrant-foreign:" + type(e).__name__, "recursive Union raised %s" % type(e).__name__, case)
        return
    if want[0] != got[0]:
        ctx.violation("union-reentrant-%s" % ("accepts-short-input" if got[0] == "ok" else "raises:" + got[1]), "recursive Union: library %r, reference %r" % (got, want[:2]), case)
        return
    if got[0] != "ok":
        return
    if not veq(got[1], want[1]):
        ctx.violation("union-reentrant-member-not-from-start", "recursive Union -> %r, every node alone from its position -> %r" % (got[1], want[1]), case)
        return
    if s.pos != want[2]:
        ctx.violation("union-reentrant-final-position:%s" % ("none" if pf is None else type(pf).__name__),
                      "stream at %d after the recursive Union (parsefrom=%r, members %s), expected %d" % (s.pos, pf, order, want[2]), case)
        return
    if data[off] > 0:
        ctx.nontrivial("union-reentrant", order, headw, pf, data[off])


def case_bitprobe(ctx, case):
    """alternatives / repetition / optional parts inside a bit region whose size is discovered while streaming: a probe that runs
    out of bits part-way leaves no trace - the bits it looked at are still there for what follows.  Reference: rv.refmodel."""
    from ..recipes import mk as mkr
    from .. import refmodel as M
    from ..libmodel import lib_parse, model_parse, same_value
    r, data = case["recipe"], untag(case["data"])
    ctx.ev()
    mp = model_parse(r, data, {})
    if mp[0] == "gap":
        ctx.count("bitprobe_model_gap")
        return
    lp = lib_parse(mkr(r), data, {})
    if mp[0] == "ok":
        if lp[0] != "ok":
            ctx.violation("bitprobe-rejects-valid", "reference parses %s to %r, library raised %s" % (data.hex(), mp[1], lp[1:]), case)
        elif not same_value(lp[1], mp[1]) or lp[2] != mp[2]:
            ctx.violation("bitprobe-value", "parse(%s): library %r (%d bytes), reference %r (%d bytes)" % (data.hex(), lp[1], lp[2], mp[1], mp[2]), case)
        else:
            ctx.nontrivial("bitprobe", case["recipe"][1][0] if isinstance(case["recipe"][1], list) else "", len(data), data[:1])
    elif lp[0] == "ok":
        ctx.violation("bitprobe-accepts-invalid", "reference rejects %s (%s), library returned %r" % (data.hex(), mp[1], lp[1]), case)


def bitprobe_recipes():
    BI = lambda w: ["BitsInteger", w, False, False]
    N = ["name", "Nibble"]
    return [
        ["Bitwise", ["Struct", [["xs", ["GreedyRange", BI(3)]], ["tail", BI(2)]]]],
        ["Bitwise", ["Struct", [["xs", ["GreedyRange", BI(20)]], ["tail", BI(12)]]]],
        ["Bitwise", ["Struct", [["a", N], ["o", ["Optional", BI(12)]], ["b", N]]]],
        ["Bitwise", ["Struct", [["a", N], ["s", ["Select", [BI(20), BI(12), BI(4)]]], ["rest", ["name", "GreedyBytes"]]]]],
        ["Bitwise", ["Struct", [["n", N], ["xs", ["Array", ["this", "n"], BI(5)]], ["p", ["Optional", BI(7)]], ["rest", ["GreedyRange", ["name", "Bit"]]]]]],
        ["Bitwise", ["GreedyRange", ["Struct", [["f", ["name", "Flag"]], ["v", BI(6)]]]]],
        ["Struct", [["h", ["name", "Byte"]], ["b", ["Bitwise", ["Struct", [["xs", ["GreedyRange", BI(3)]], ["tail", BI(2)]]]]]]],
    ]


KINDS = {"peek": case_peek, "pointer": case_pointer, "select": case_select, "greedy": case_greedy, "union": case_union, "bitprobe": case_bitprobe, "select-foreign": case_select_foreign, "union-reentrant": case_union_reentrant, "pointers-compiled": case_pointers_compiled}


LAST = [None]


def run_case(ctx, case):
    LAST[0] = case
    KINDS[case["kind"]](ctx, case)


def run(ctx):
    rng = ctx.rng
    names = [n for n, _ in MEMBERS]
    budget = ctx.pick(1, 8)
    jobs = []
    for n in names:
        jobs.append(("peek", n))
        jobs.append(("greedy", n))
        jobs.append(("pointer", n))
        jobs.append(("optional", n))
    for a in names:
        for b in names:
            if a != b:
                jobs.append(("select2", a, b))
    trip = __import__("random").Random(99)
    for _ in range(ctx.pick(150, 2500)):
        jobs.append(("select3",) + tuple(trip.sample(names, 3)))
    for _ in range(ctx.pick(200, 3000)):
        k = trip.randint(2, 4)
        jobs.append(("union", tuple(trip.choice(names) for _ in range(k)), trip.random()))
    for bi, br in enumerate(bitprobe_recipes()):
        jobs.append(("bitprobe", bi, br))
    for order in (["head", "tree", "z"], ["tree", "head", "z"], ["head", "z", "tree"], ["tree", "z", "head"]):
        for headw in (1, 2):
            for pf in (None, "head", "tree", "z", 0, 1, 2):
                jobs.append(("union-reentrant", order, headw, pf))
    PK = [["abs", 1], ["abs", 4], ["end", -2], ["end", -1], ["ctx", 2], ["ctx", -3], ["abs", 0]]
    for a in PK:
        for b in PK:
            if a != b:
                jobs.append(("pointers-compiled", [a, b]))
    for _ in range(ctx.pick(30, 300)):
        jobs.append(("pointers-compiled", [trip.choice(PK) for _ in range(trip.randint(3, 4))]))
    for f in ("zlib", "lookup", "arity", "lambda"):
        for n in ("byte", "u16", "cstr", "struct", "varint", "bytes3"):
            jobs.append(("select-foreign", f, n))
    if ctx.index == 0:
        ctx.count("combinator_instances", len(jobs))
    for i, job in enumerate(jobs):
        if not ctx.mine(i):
            continue
        kind = job[0]
        if kind == "peek":
            for data in inputs_for([job[1]], rng):
                for off in (0, 1, 3, 5):
                    run_case(ctx, {"kind": "peek", "member": job[1], "data": tag(data), "offset": off})
        elif kind == "greedy":
            ins = inputs_for([job[1]], rng)
            # sequences of several elements followed by a broken one
            cs = CANON[job[1]]
            for c in cs:
                for k in range(len(c) + 1):
                    ins.append(c * 2 + c[:k])
                    ins.append(cs[-1] + c + c[:k] + b"\xfe")
            for data in ins:
                for off in (0, 2, 5):
                    for discard in (False, True):
                        run_case(ctx, {"kind": "greedy", "member": job[1], "data": tag(data), "offset": off, "discard": discard})
        elif kind == "pointer":
            for c in CANON[job[1]]:
                blob = b"\x10\x11\x12" + c + b"\x20\x21" + c[:max(0, len(c) - 1)]
                for target in (0, 3, 4, len(blob) - len(c) + 1, -len(c) + 1 - 0, -(len(c) - 1 + 2 + len(c)), -1, -len(blob)):
                    for start in (0, 1, 5):
                        for form in ("const", "ctx", "aux", "region", "expr"):
                            run_case(ctx, {"kind": "pointer", "member": job[1], "data": tag(blob), "target": target, "offset": start, "form": form})
        elif kind == "select-foreign":
            ins = inputs_for([job[2]], rng) + [b"\x05junk!", b"\x03abc", b"\x00", b"\x07\x01\x02", b"\x09\x09\x09\x09", b"\x02x\x9c\x01", bytes([8]) + __import__("zlib").compress(b"")]
            for data in ins:
                for off in (0, 2):
                    run_case(ctx, {"kind": "select-foreign", "first": job[1], "second": job[2], "data": tag(data), "offset": off})
        elif kind == "bitprobe":
            ins = [bytes([a]) for a in range(256)] + [bytes([a, b]) for a in range(0, 256, 17) for b in (0, 0x5a, 0xff)] + [bytes(rng.getrandbits(8) for _ in range(L)) for L in (3, 3, 4, 4, 5, 6) for _ in range(ctx.pick(4, 40))] + [b""]
            for data in ins:
                run_case(ctx, {"kind": "bitprobe", "recipe": job[2], "data": tag(data)})
        elif kind == "pointers-compiled":
            for data in (bytes(range(0x10, 0x18)), bytes(range(0x40, 0x46)), b"\x01\x02\x03", b"\x09"):
                for off in (0, 2):
                    run_case(ctx, {"kind": "pointers-compiled", "kinds": job[1], "data": tag(data), "offset": off})
        elif kind == "union-reentrant":
            datas = [b"\x00\xaa\xbb", b"\x01\x00\xaa\xbb", b"\x02\x01\x00\xaa\xbb\xcc", b"\x03\x02\x01\x00\x09\x08\x07", b"\x01\x01\x01\x00", b"\x01\x01", b"\x02", b"", b"\x00",
                     b"\x01\x00", b"\xff\x01\x00\x00\x05"] + [bytes(rng.choice([0, 0, 1, 2, 3]) for _ in range(rng.randint(1, 7))) + b"\x00\x10\x20" for _ in range(ctx.pick(6, 40))]
            for data in datas:
                for off in (0, 2):
                    run_case(ctx, {"kind": "union-reentrant", "order": job[1], "headw": job[2], "parsefrom": job[3], "data": tag(data), "offset": off})
        elif kind == "optional":
            for data in inputs_for([job[1]], rng):
                for off in (0, 1, 4):
                    run_case(ctx, {"kind": "select", "alts": [job[1]], "optional": True, "data": tag(data), "offset": off})
        elif kind in ("select2", "select3"):
            alts = list(job[1:])
            for data in inputs_for(alts, rng, 2):
                for off in ((0, 1, 4) if ctx.quick else (0, 1, 2, 3, 4, 5)):
                    run_case(ctx, {"kind": "select", "alts": alts, "data": tag(data), "offset": off, "named": (i % 3 == 0)})
        elif kind == "union":
            ms = job[1]
            r = job[2]
            members = []
            for j, m in enumerate(ms):
                members.append([None if (r < 0.45 and j % 2 == (0 if r < 0.2 else 1)) else "m%d" % j, m])
            namedidx = [j for j, (n, _) in enumerate(members) if n]
            pfs = [None, 0, len(ms) - 1]
            if namedidx:
                pfs += [members[namedidx[-1]][0], ["ctx", members[namedidx[0]][0]], ["ctx", namedidx[0]]]
            pfs += [["ctx", None]]            # a selector expression that yields None: "select nothing", end at the start
            pfs += [["ctx-intenum", 0], ["ctx-intenum", 1], ["ctx-intenum", len(ms) - 1]] + ([["ctx-label", members[namedidx[-1]][0]]] if namedidx else [])
            base = b"".join(max((CANON[m][0] for m in ms), key=len) for _ in range(1))
            datas = [CANON[ms[0]][0] + b"\x01\x02\x03\x04\x05", b"\x01\x05\x01\x02\x07AB\x00\x01\x02", b"AB\x01\x03\x00\x00\x07", b"\x02\x06\x00\x01\x02\x03\x04\x05", b"\x07\x01\x00\x00\x01\x02", b"\x03abc\x00\x01\x02\x03"]
            for data in datas:
                for off in (0, 3):
                    for pf in pfs:
                        run_case(ctx, {"kind": "union", "members": members, "parsefrom": pf, "data": tag(data), "offset": off})
        ctx.count("jobs_" + kind)
        if i % 97 == 0 and LAST[0] is not None:
            ctx.sample(LAST[0])          # the last concrete case of this combinator instance, as it was run


def replay(ctx, case):
    run_case(ctx, case)
