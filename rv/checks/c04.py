"""C04 - a compiled construct behaves exactly like the construct it was compiled from.

Differential (translation validation per generated program): the interpreter is the specification.
  parse : every input the interpreter accepts must parse to an equal value with the compiled instance
  build : every value the interpreter builds (here: every value it parsed) must build to identical bytes
  sizeof: same outcome
Programs are generated from the compiler's documented feature set with every parameter slot filled by an *expression
object* (all operators, reflected operands, unary operators, str/bytes/bool constants, this/_/_root/_params paths,
len_/abs_/..., obj_/list_ in RepeatUntil) and dependent probes after composites, so that context values produced by
generated code influence later bytes.
"""
import io, re, hashlib
from ..common import tag, untag, raise_site
from ..recipes import mk, evalexpr
from .c12 import veq      # structural equality with bool == int (Hex(Flag) displays True as 1)

LEVEL = "translation_validation"
RULE = ("programs = Struct(header n,m,f,s,e,b2 + 2..7 members drawn from ~45 slot templates over natively emitted classes and linked fall-backs, nested "
        "scopes, probes) with expression parameters from a typed expression generator (int-valued, bool-valued; every operator incl. reflected and unary "
        "forms, str/bytes constants, falsy values, lengths above 255); inputs = header value grid x patterned/random tails; every input the interpreter "
        "accepts is compared (parse value, rebuilt bytes from the parsed value, the same value with derived members left out); every fourth program is "
        "context-sized (all members sized by this._params.k) and sizeof is asked under a sequence of 7 keyword contexts on the same compiled instance; every "
        "fourth is dedicated to self-derived members (each left out one at a time); plus rooted formats (outermost Sequence / FocusedSeq / repeater / Prefixed region "
        "with this._root references, FocusedSeqs whose earlier members depend on the focused one) and RepeatUntil predicates over list_. non-trivial = program with >= 2 natively emitted classes and "
        ">= 1 expression parameter on an accepted input; distinct by hash of the generated source")
ASSUMPTIONS = ["documented exclusions are not generated: _index/Index, parsed hooks, discard, _subcons/_io, plain lambdas, Debugger",
               "inputs the interpreter rejects claim nothing (generated code omits length checks by design)",
               "a construct for which compile() raises is 'not accepted' and claims nothing (counted)"]
REQUIRED_ANCHORS = ["core:Construct.compile", "core:Construct._compileparse", "core:Construct._compilebuild", "core:Compiled._parse", "core:Compiled._build", "core:Struct._emitparse",
                    "core:Struct._emitbuild", "core:Sequence._emitparse", "core:Sequence._emitbuild", "core:Array._emitparse", "core:Array._emitbuild", "core:RepeatUntil._emitparse",
                    "core:Enum._emitparse", "core:Enum._emitbuild", "core:Mapping._emitparse", "core:Const._emitparse", "core:Const._emitbuild", "core:Rebuild._emitbuild",
                    "core:Default._emitbuild", "core:Check._emitparse", "core:FocusedSeq._emitparse", "core:FocusedSeq._emitbuild", "core:Union._emitparse", "core:IfThenElse._emitparse",
                    "core:IfThenElse._emitbuild", "core:Switch._emitparse", "core:Switch._emitbuild", "core:StopIf._emitparse", "core:Padded._emitparse", "core:Padded._emitbuild",
                    "core:Aligned._emitparse", "core:Aligned._emitbuild", "core:Pointer._emitparse", "core:Peek._emitparse", "core:Prefixed._emitparse", "core:FixedSized._emitparse",
                    "core:BytesInteger._emitparse", "core:BytesInteger._emitbuild", "core:FormatField._emitparse", "core:Bytes._emitparse", "expr:BinExpr.__repr__", "expr:UniExpr.__repr__"]
ANCHORS = REQUIRED_ANCHORS
B = ["name", "Byte"]


class PGen:
    def __init__(self, rng):
        self.r = rng

    # ---- expressions
    def ival(self, paths):
        """small non-negative int-valued expression (mostly 0..8 for header values in range)"""
        r = self.r
        p = lambda: ["this"] + r.choice(paths)
        c = r.random()
        if c < 0.12:
            return p()
        if c < 0.2:
            return r.randint(0, 3)
        forms = [
            lambda: ["bin", "+", p(), r.randint(0, 2)], lambda: ["bin", "+", r.randint(0, 2), p()], lambda: ["bin", "*", p(), 2], lambda: ["bin", "*", 2, p()],
            lambda: ["bin", "%", ["bin", "+", p(), p()], 4], lambda: ["bin", "<<", p(), 1], lambda: ["bin", "<<", 1, ["bin", "&", p(), 3]], lambda: ["bin", "|", p(), 1],
            lambda: ["bin", "&", p(), 3], lambda: ["bin", "^", p(), 1], lambda: ["bin", ">>", ["bin", "*", p(), 4], 1], lambda: ["bin", "//", ["bin", "+", p(), 3], 2],
            lambda: ["fn", "abs", ["bin", "-", p(), 2]], lambda: ["fn", "abs", ["bin", "-", 2, p()]], lambda: ["un", "-", ["bin", "-", ["bin", "&", p(), 3], 4]],
            lambda: ["bin", "+", ["un", "-", ["bin", "&", p(), 1]], 2], lambda: ["bin", "+", ["un", "~", ["this", "f"]], 1], lambda: ["bin", "**", ["bin", "&", p(), 3], 2],
            lambda: ["bin", "**", 2, ["bin", "&", p(), 3]], lambda: ["bin", "**", ["un", "-", ["bin", "&", p(), 1]], 2], lambda: ["un", "+", p()],
            lambda: ["bin", "-", 3, ["bin", "&", p(), 3]], lambda: ["fn", "len", ["this", "s"]], lambda: ["fn", "len", ["this", "b2"]],
            lambda: ["bin", "*", ["bin", "==", p(), 1], 3], lambda: ["bin", "+", ["bin", ">", p(), 1], ["bin", "<=", p(), 2]], lambda: ["bin", "&", ["bin", "+", p(), ["this", "_params", "k"]], 7],
            lambda: ["this", "_params", "k"], lambda: ["bin", "%", ["bin", "-", 0, p()], 3], lambda: ["bin", "*", ["bin", "==", ["this", "s"], "ab"], 2],
            lambda: ["bin", "-", ["bin", "*", 2, 3], ["bin", "&", p(), 3]],
            # the direction flags every scope carries (parsing / building / sizing) steering a length
            lambda: ["bin", "+", ["this", r.choice(["_building", "_parsing", "_sizing"])], 1], lambda: ["bin", "+", ["bin", "*", ["this", "_building"], 2], ["this", "_parsing"]],
            lambda: ["bin", "&", ["bin", "+", p(), ["this", r.choice(["_building", "_parsing"])]], 3],
        ]
        return r.choice(forms)()

    def cond(self, paths):
        r = self.r
        p = lambda: ["this"] + r.choice(paths)
        forms = [
            lambda: ["bin", r.choice(["<", "<=", ">", ">=", "==", "!="]), p(), r.randint(0, 2)],
            lambda: ["bin", r.choice(["<", "<=", ">", ">=", "==", "!="]), r.randint(0, 2), p()],
            lambda: ["bin", "==", ["this", "s"], r.choice(["ab", "", "x"])], lambda: ["bin", "!=", ["this", "s"], "ab"], lambda: ["bin", "==", "ab", ["this", "s"]],
            lambda: ["bin", "==", ["this", "b2"], tag(b"xy")], lambda: ["bin", "!=", ["this", "b2"], tag(b"\x00\x00")], lambda: ["bin", "==", ["this", "e"], "a"],
            lambda: ["bin", "!=", ["this", "e"], "b"], lambda: ["this", "f"], lambda: ["un", "~", ["this", "f"]], lambda: ["un", "~", ["bin", ">", p(), 1]],
            lambda: ["bin", "&", ["bin", ">", p(), 0], ["bin", "<", p(), 3]], lambda: ["bin", "|", ["bin", "==", p(), 0], ["this", "f"]],
            lambda: ["bin", "==", ["bin", "%", p(), 2], 0], lambda: ["bin", ">=", ["bin", "/", p(), 2], 1], lambda: ["bin", "==", ["un", "-", p()], -1],
            lambda: ["bin", "==", ["fn", "len", ["this", "s"]], 2], lambda: ["bin", ">", ["this", "_params", "k"], p()], lambda: True, lambda: False, lambda: ["bin", "&", p(), 1],
            lambda: p(), lambda: ["this", r.choice(["_building", "_parsing", "_sizing"])], lambda: ["un", "~", ["this", r.choice(["_building", "_parsing"])]],
            lambda: ["bin", "&", ["this", "_building"], ["bin", ">", p(), 0]],
        ]
        return r.choice(forms)()

    # ---- members
    def small(self):
        return self.r.choice([B, ["name", "Int16ub"], ["name", "Int8sb"], ["Bytes", 1], ["name", "Flag"], ["BytesInteger", 3, False, True], ["name", "Int16sl"],
                              ["name", "Int16un"], ["name", "Int32sn"], ["FormatField", "=", "H"], ["name", "Float32n"], ["name", "Int24un"]])     # (native byte order too)

    def member(self, paths, depth, idx):
        r = self.r
        E = lambda: self.ival(paths)
        C = lambda: self.cond(paths)
        # inside a nested Struct / Sequence / FocusedSeq the header fields are one scope further out
        inner_paths = [(p if p[0] == "_params" else ["_"] + p) for p in paths]
        EN = lambda: self.ival(inner_paths)
        X = self.small
        t = [
            lambda: ["Bytes", E()], lambda: ["BytesInteger", ["bin", "+", ["bin", "&", E(), 3], 1], r.random() < 0.5, r.choice([False, True, C()])],
            lambda: ["Array", E(), X()], lambda: ["Array", E(), ["Struct", [["a", B], ["b", ["Bytes", ["bin", "&", ["this", "a"], 1]]]]]],
            lambda: ["Padded", ["bin", "+", E(), 4], X()], lambda: ["Aligned", ["bin", "+", E(), 2], X()], lambda: ["FixedSized", ["bin", "+", E(), 2], X()],
            lambda: ["FixedSized", E(), ["name", "GreedyBytes"]], lambda: ["Padding", E()], lambda: ["IfThenElse", C(), X(), X()], lambda: ["If", C(), X()],
            lambda: ["Switch", E(), [[0, X()], [1, X()], [2, ["Bytes", 2]]], X() if r.random() < 0.5 else None],
            lambda: ["Switch", ["this", "s"], [["ab", X()], ["", X()]], X() if r.random() < 0.5 else None],
            lambda: ["Switch", ["this", "e"], [["a", X()], ["b", ["name", "Int16ub"]], [7, B]], None],
            lambda: ["Switch", ["this", "b2"], [[tag(b"xy"), X()]], B], lambda: ["Switch", C(), [[True, X()], [False, ["Bytes", 2]]], None],
            lambda: ["Computed", E()], lambda: ["Computed", C()], lambda: ["Computed", ["bin", "+", ["this", "s"], "z"]], lambda: ["Computed", ["bin", "*", ["this", "b2"], 2]],
            lambda: ["Check", ["bin", ">=", E(), 0]], lambda: ["Rebuild", B, E()], lambda: ["Default", B, E()], lambda: ["Const", r.randint(0, 3), B] if False else ["Default", ["name", "Int16ub"], E()],
            lambda: ["RepeatUntil", ["bin", r.choice(["==", ">=", "<"]), ["obj"], r.choice([0, 1, 200])], B],
            lambda: ["RepeatUntil", ["bin", "==", ["obj"], 0], ["name", "Int8sb"]],
            # predicates over the list collected so far (list_ is bound to it in generated code as well)
            lambda: ["RepeatUntil", r.choice([["bin", "==", ["fn", "len", ["list"]], r.randint(1, 3)], ["bin", "==", ["list", -1], 0], ["bin", ">", ["fn", "sum", ["list"]], 3],
                                              ["bin", "|", ["bin", "==", ["list", 0], ["obj"]], ["bin", ">=", ["fn", "len", ["list"]], 3]]]), r.choice([B, ["name", "Int8sb"]])],
            lambda: ["Prefixed", B, ["Bytes", ["bin", "&", E(), 1]], False], lambda: ["Prefixed", B, ["name", "GreedyBytes"], r.random() < 0.4],
            lambda: ["PrefixedArray", B, X()], lambda: ["PascalString", B, "utf8"], lambda: ["FocusedSeq", "v", [["c", ["Computed", EN()]], ["v", ["Bytes", ["this", "c"]]], [None, ["Padding", 1]]]],
            lambda: ["Sequence", [[None, X()], ["q", B], [None, ["Bytes", ["bin", "&", ["this", "q"], 1]]], [None, ["Computed", EN()]]]],
            lambda: ["Struct", [["i", B], ["o", ["Bytes", ["bin", "&", ["this", "_", r.choice(["n", "m"])], 3]]], ["r", ["Computed", ["bin", "+", ["this", "_root", "n"], ["this", "i"]]]],
                                ["p", ["Computed", ["this", "_params", "k"]]]]],
            lambda: ["Sequence", [["r", ["Rebuild", B, EN()]], ["d", ["Bytes", ["bin", "&", ["this", "r"], 3]]], ["k", ["Default", B, ["bin", "&", EN(), 1]]],
                                  [None, ["Switch", ["this", "k"], [[0, B], [1, ["name", "Int16ub"]]], None]], ["c", ["Computed", EN()]], [None, ["If", ["bin", "==", ["this", "c"], 1], B]]]],
            lambda: ["Struct", [["r", ["Rebuild", B, EN()]], ["d", ["Bytes", ["bin", "&", ["this", "r"], 3]]], ["k", ["Default", B, ["bin", "&", EN(), 1]]],
                                ["w", ["Switch", ["this", "k"], [[0, B], [1, ["name", "Int16ub"]]], None]], ["g", ["Const", 2, B]] if False else ["c", ["Computed", EN()]],
                                ["z", ["IfThenElse", ["bin", "==", ["this", "c"], 1], B, ["Bytes", 2]]]]],
            lambda: ["FocusedSeq", "v", [["k", ["Default", B, ["bin", "&", EN(), 1]]], ["v", ["Array", ["bin", "+", ["this", "k"], 1], B]], ["t", ["Rebuild", B, ["fn", "len", ["this", "v"]]]]]],
            lambda: ["Hex", X()], lambda: ["Enum", B, [["a", 1], ["b", 2]]], lambda: ["FlagsEnum", B, [["r", 1], ["w", 2], ["rw", 3]]], lambda: ["Mapping", B, [["zero", 0], ["one", 1], ["two", 2], ["three", 3], [tag(b"k"), 200], [None, 254]]], lambda: ["Enum", ["name", "Int16ub"], [["x", 0], ["y", 300]]],
            lambda: ["Pointer", E(), B], lambda: ["Peek", ["name", "Int16ub"]], lambda: ["Peek", r.choice([["Const", tag(bytes([r.choice([0, 1, 2])])), None], ["OneOf", B, [0, 1]],
                                                                                 ["Struct", [["a", B], [None, ["Check", ["bin", "<", ["this", "a"], 2]]], ["b", ["name", "Int16ub"]]]]])], lambda: ["name", "Tell"], lambda: ["Union", 0, [["a", ["name", "Int16ub"]], ["b", ["Bytes", 2]]]],
            lambda: ["Union", r.choice([None, 0, 1, "b"]), [[None, ["Const", tag(bytes([r.choice([0, 1, 2])])), None]], ["b", ["name", "Int16ub"]], ["c", ["Bytes", 3]]]],
            lambda: ["Union", "c", [["a", B], [None, ["Padding", 2]], ["c", ["name", "Int24ub"]], ["d", ["name", "Int16ul"]]]],
            lambda: ["NamedTuple", "pt", "x y", ["Array", 2, B]], lambda: ["Const", tag(bytes([r.choice([0, 1, 2])])), None], lambda: ["Const", r.choice([0, 1, 2]), B], lambda: ["Padded", 3, B],
            lambda: ["name", "VarInt"], lambda: ["CString", "ascii"], lambda: ["NullTerminated", ["name", "GreedyBytes"]], lambda: ["Bitwise", ["Struct", [["a", ["name", "Nibble"]], ["b", ["BitsInteger", 4, True, False]]]]],
            lambda: ["ProcessXor", ["bin", "|", E(), 1], B] if False else ["RawCopy", X()], lambda: ["Bitwise", ["BitsInteger", ["bin", "*", ["bin", "+", ["bin", "&", E(), 1], 1], 8], False, r.random() < 0.3]],
            lambda: ["StopIf", ["bin", "==", E(), 99]], lambda: ["Optional", ["Const", tag(b"\xfe"), None]] if False else ["Select", [["Const", tag(b"\xfe"), None], B]],
            lambda: ["RestreamData", tag(b"\x01\x02"), ["name", "Int16ub"]],
            # positions observed inside length-delimited regions (offsets of the outermost stream at any depth)
            # (inside a Sequence: the length probes that follow Prefixed / FixedSized members expect byte strings)
            lambda: ["Sequence", [[None, ["Prefixed", B, ["Struct", [["t", ["name", "Tell"]], ["x", B], ["r", ["RawCopy", B]], ["rest", ["name", "GreedyBytes"]]]], False]]]],
            lambda: ["Sequence", [[None, ["FixedSized", ["bin", "+", EN(), 3], ["Struct", [["t", ["name", "Tell"]], ["p", ["Pointer", ["this", "t"], B]], ["g", ["name", "GreedyBytes"]]]]]]]],
            lambda: ["Sequence", [[None, B], [None, ["Prefixed", B, ["FixedSized", 2, ["Struct", [["t", ["name", "Tell"]], ["x", B]]]], True]]]],
            # a StopIf inside a FocusedSeq ends the ENCLOSING structure (in parse and in build); a Pointer told to use the outermost stream
            lambda: ["FocusedSeq", "x", [["x", B], [None, ["StopIf", ["bin", "==", ["this", "x"], 0]]], ["y", ["Default", B, 3]]]],
            lambda: ["Sequence", [[None, ["FocusedSeq", "x", [["x", B], [None, ["StopIf", ["bin", "<", ["this", "x"], 2]]], ["y", ["Default", B, 3]]]]], [None, B]]],
            lambda: ["Sequence", [[None, ["Prefixed", B, ["Struct", [["a", B], ["q", ["Pointer", 0, B, ["this", "_root", "_io"]]], ["g", ["name", "GreedyBytes"]]]], False]]]],
            # padding with a pattern other than zero bytes
            lambda: ["Padded", ["bin", "+", E(), 3], X(), tag(b"\xff")], lambda: ["Padding", ["bin", "+", ["bin", "&", E(), 3], 1], tag(b"*")], lambda: ["Padded", 4, B, tag(b"\x01")],
            lambda: ["Aligned", 4, X(), tag(b"\xaa")],
            # constants whose encoding is not the bare value (a wrapping sub-construct); a FocusedSeq whose selected member is named by an expression
            lambda: ["Const", tag(b"ab"), ["NullTerminated", ["name", "GreedyBytes"]]], lambda: ["Const", tag(b"x"), ["Prefixed", B, ["name", "GreedyBytes"], False]],
            lambda: ["Const", tag(b"AB"), ["Padded", 4, ["Bytes", 2]]], lambda: ["Const", 300, ["name", "VarInt"]], lambda: ["Const", "a", ["Enum", B, [["a", 1], ["b", 2]]]],
            lambda: ["FocusedSeq", ["this", "_", "_params", "sel"], [["a", ["Default", B, 9]], ["num", ["Default", B, ["bin", "&", EN(), 7]]], [None, ["Const", tag(b"\x01"), None]]]],
            # structures all of whose members build from nothing (their value may be left out: the enclosing structure hands None down)
            lambda: ["Struct", [["magic", ["Const", tag(b"x"), None]], ["c", ["Computed", EN()]], [None, ["Padding", 1]]]],
            lambda: ["Sequence", [[None, ["Const", tag(b"A"), None]], ["d", ["Default", B, ["bin", "&", EN(), 3]]], [None, ["Padding", 1]]]],
            lambda: ["Struct", [["hdr", ["Struct", [["sig", ["Const", 2, B]], ["r", ["Rebuild", B, ["bin", "&", ["this", "_", "_", "n"], 3]]]]]], ["q", ["Sequence", [[None, ["Const", tag(b"Q"), None]]]]]]],
        ]
        if getattr(self, "force_derived", False):
            # programs dedicated to members that build derives by itself inside Sequence / Struct / FocusedSeq (and whose values
            # steer later members): the templates are picked out of the list by what they contain
            tt = [f for f in t if any(k in repr(f()) for k in ("'Rebuild'", "'Default'", "'magic'", "'hdr'"))]
            return r.choice(tt)()
        return r.choice(t)()

    def program(self):
        r = self.r
        ms = [["n", B], ["m", ["name", "Int16ub"]], ["f", ["name", "Flag"]], ["s", ["PascalString", B, "ascii"]], ["e", ["Enum", B, [["a", 1], ["b", 2]]]], ["b2", ["Bytes", 2]]]
        paths = [["n"], ["n"], ["m"], ["_params", "k"]]
        k = r.randint(2, 7)
        for i in range(k):
            self.force_derived = bool(getattr(self, "derived_program", False) and i < 3)
            m = self.member(paths, 2, i)
            self.force_derived = False
            nm = "v%d" % i
            ms.append([nm, m])
            # dependent probes: context values produced by generated code must influence later bytes
            if m[0] in ("Array", "PrefixedArray", "RepeatUntil") and r.random() < 0.7:
                ms.append(["p%d" % i, ["Bytes", ["bin", "&", ["fn", "len", ["this", nm]], 3]]])
            elif m[0] in ("Bytes", "Prefixed", "FixedSized", "PascalString", "CString", "NullTerminated") and r.random() < 0.5:
                ms.append(["p%d" % i, ["Bytes", ["bin", "&", ["fn", "len", ["this", nm]], 1]]])
            elif m[0] in ("Computed", "Rebuild", "Default", "IfThenElse", "Switch", "Hex", "name", "Pointer") and r.random() < 0.5 and m != ["name", "Tell"]:
                ms.append(["p%d" % i, ["If", ["bin", "==", ["this", nm], r.choice([0, 1, 2])], B]])
            elif m[0] == "Enum" and r.random() < 0.8:
                ms.append(["p%d" % i, ["Switch", ["this", nm], [["a", B], ["x", B], ["b", ["Bytes", 2]]], None]])
            elif m[0] == "Struct" and r.random() < 0.6:
                ms.append(["p%d" % i, ["Bytes", ["bin", "&", ["this", nm, "i"], 1]]])
            if m[0] in ("Rebuild", "Default", "Computed") and r.random() < 0.5:
                paths = paths + [[nm]] if m[0] != "Computed" else paths
        if r.random() < 0.3:
            ms.append(["tail", ["GreedyRange", B]])
        return ["Struct", ms]


def sized_program(r):
    """a program whose every member has a size that is a function of the keyword context alone: sizeof answers, differently
    for different contexts"""
    K = ["this", "_params", "k"]
    X = lambda: r.choice([B, ["name", "Int16ub"], ["name", "Int32ul"], ["Bytes", 3], ["Struct", [["a", B], ["b", ["name", "Int16ul"]]]]])
    t = [
        lambda: ["Bytes", K], lambda: ["Bytes", ["bin", "+", ["bin", "*", K, 2], 1]], lambda: ["Array", K, X()], lambda: ["Padding", ["bin", "&", K, 3]],
        lambda: ["IfThenElse", ["bin", "==", K, r.choice([0, 1, 2])], ["name", "Int32ub"], B], lambda: ["If", ["bin", ">", K, 1], X()],
        lambda: ["Switch", K, [[0, B], [1, ["name", "Int16ub"]], [2, ["Bytes", 5]]], r.choice([None, ["Bytes", 3]])],
        lambda: ["Padded", ["bin", "+", K, 4], X()], lambda: ["Aligned", ["bin", "+", K, 2], X()], lambda: ["FixedSized", ["bin", "+", K, 5], X()],
        lambda: ["BytesInteger", ["bin", "+", ["bin", "&", K, 3], 1], False, False], lambda: ["Bitwise", ["BitsInteger", ["bin", "*", ["bin", "+", ["bin", "&", K, 1], 1], 8], False, False]],
        lambda: ["Struct", [["i", B], ["o", ["Bytes", ["this", "_", "_params", "k"]]]]] if False else ["Struct", [["i", B], ["o", ["Bytes", ["this", "_params", "k"]]]]],
        lambda: ["Sequence", [[None, B], [None, ["Array", ["this", "_params", "k"], ["name", "Int16ub"]]]]], lambda: ["Const", tag(b"MZ"), None], lambda: X(),
        lambda: ["FocusedSeq", "v", [[None, ["Const", tag(b"\x00"), None]], ["v", ["Bytes", ["this", "_params", "k"]]]]], lambda: ["Computed", K], lambda: ["Hex", ["name", "Int24ub"]],
        lambda: ["Union", 0, [["a", ["name", "Int16ub"]], ["b", ["Bytes", 2]]]], lambda: ["Enum", B, [["a", 1], ["b", 2]]], lambda: ["PaddedString", ["bin", "+", K, 1], "ascii"],
    ]
    return ["Struct", [["v%d" % i, r.choice(t)()] for i in range(r.randint(1, 5))]]


def rooted_programs(r):
    """formats whose outermost scope-opening construct is not a Struct (Sequence / FocusedSeq / a repeater of Structs / inside a
    Prefixed region) with references to the outermost scope from below, and FocusedSeqs whose earlier members are computed from the
    focused one: (recipe, values to build)"""
    RN = lambda m: ["bin", "&", ["this", "_root", "n"], m]
    inner = lambda m: ["Struct", [["x", B], ["d", ["Bytes", RN(m)]], ["s", ["Struct", [["e", ["Bytes", ["bin", "&", ["this", "_root", "n"], 1]]]]]]]]
    seq = ["Sequence", [["n", B], ["a", inner(3)], [None, ["Array", 2, ["Struct", [["y", ["Bytes", RN(1)]]]]]], [None, ["If", ["bin", "==", ["this", "_root", "n"], 2], B]]]]
    parr = ["FocusedSeq", "items", [["count", ["Rebuild", B, ["fn", "len", ["this", "items"]]]], ["items", ["Array", ["this", "count"], r.choice([B, ["name", "Int16ub"]])]]]]
    flagged = ["FocusedSeq", "p", [["big", ["Rebuild", ["name", "Flag"], ["bin", ">", ["fn", "len", ["this", "p"]], 2]]], ["p", ["Prefixed", B, ["name", "GreedyBytes"], False]], [None, ["If", ["this", "big"], ["Const", tag(b"!"), None]]]]]
    return [
        (seq, [[2, {"x": 1, "d": b"ab", "s": {"e": b""}}, [{"y": b""}, {"y": b""}], 9], [1, {"x": 1, "d": b"a", "s": {"e": b"z"}}, [{"y": b"p"}, {"y": b"q"}], None]]),
        (["Prefixed", B, seq, False], [[0, {"x": 5, "d": b"", "s": {"e": b""}}, [{"y": b""}, {"y": b""}], None]]),
        (["Array", 2, ["Struct", [["n", B], ["s", ["Struct", [["t", ["Struct", [["e", ["Bytes", RN(3)]]]]]]]]]]], [[{"n": 1, "s": {"t": {"e": b"a"}}}, {"n": 2, "s": {"t": {"e": b"bc"}}}]]),
        (["Sequence", [["n", B], [None, ["PrefixedArray", B, ["Struct", [["v", ["Bytes", RN(1)]]]]]], [None, parr]]], [[1, [{"v": b"a"}], [7, 8, 9]]]),
        (parr, [[1, 2, 3], [], [5] * 9]),
        (["Struct", [["h", B], ["body", parr], ["t", B]]], [{"h": 1, "body": [4, 5], "t": 2}]),
        (flagged, [b"", b"ab", b"abcd"]),
        (["Struct", [["n", B], ["f", flagged], ["g", ["FocusedSeq", "v", [["k", ["Rebuild", B, ["bin", "+", ["this", "v"], 1]]], ["v", B]]]]]], [{"n": 0, "f": b"xyz", "g": 4}]),
    ]


def run_rooted(ctx, rng):
    import construct as C
    for r, values in rooted_programs(rng):
        try:
            d = mk(r)
        except Exception:
            ctx.count("program_not_constructible")
            continue
        comp = outcome(lambda: d.compile())
        if comp[0] != "ok":
            ctx.count("compile_not_accepted:" + comp[1])
            continue
        c = comp[1]
        ctx.count("rooted_programs")
        case0 = {"rooted": True, "program": r}
        datas = []
        for v in values:
            bi = outcome(lambda: d.build(v))
            ctx.ev()
            if bi[0] != "ok":
                ctx.count("rooted_value_not_buildable_by_interpreter")
                continue
            bc = outcome(lambda: c.build(v))
            if bc[:2] != bi[:2]:
                ctx.violation("rooted:build:%s" % ("compiled-raises-" + bc[1] if bc[0] != "ok" else "value-differs"), "interpreter builds %s ; compiled %s (value %r)" % (bi[1].hex(), ("raised %s: %s" % (bc[1], bc[2])) if bc[0] != "ok" else "builds " + bc[1].hex(), v), dict(case0, value=tag(v)))
                break
            datas.append(bi[1])
        for _ in range(30):
            datas.append(bytes(rng.choice([0, 1, 2, 3, 2, 1, rng.getrandbits(8)]) for _ in range(rng.randint(0, 14))))
        for data in datas:
            ri = outcome(lambda: d.parse(data))
            if ri[0] != "ok":
                continue
            ctx.ev()
            ctx.count("comparisons")
            rc = outcome(lambda: c.parse(data))
            if rc[0] != "ok" or not veq(rc[1], ri[1]):
                ctx.violation("rooted:parse:%s" % ("compiled-raises-" + rc[1] if rc[0] != "ok" else "value-differs"), "parse(%s): interpreter %r ; compiled %s" % (data.hex(), strip(ri[1]), ("raised %s: %s" % (rc[1], rc[2])) if rc[0] != "ok" else strip(rc[1])), dict(case0, input=tag(data)))
                break
            ctx.nontrivial("rooted", repr(r)[:80], len(data))


def inputs(rng, count):
    outs = []
    for _ in range(count):
        n = rng.choice([0, 1, 2, 3, 1, 2])
        m = rng.choice([0, 1, 2, 3, 255, 256, 300])
        f = rng.choice([0, 1, 1, 2])
        s = rng.choice([b"", b"ab", b"x", b"ab"])
        e = rng.choice([1, 2, 7, 0])
        b2 = rng.choice([b"xy", b"\x00\x00", bytes([rng.getrandbits(8), rng.getrandbits(8)])])
        style = rng.random()
        if style < 0.4:
            tail = bytes(rng.choice([0, 1, 2, 3, 1, 0, 2, 200, 0xfe]) for _ in range(700))
        elif style < 0.7:
            tail = bytes(rng.getrandbits(8) if i % 3 else rng.choice([0, 1, 2]) for i in range(700))
        else:
            tail = bytes((i * 7 + n) % 5 for i in range(700))
        outs.append(bytes([n]) + m.to_bytes(2, "big") + bytes([f, len(s)]) + s + bytes([e]) + b2 + tail)
    return outs


def outcome(f):
    try:
        return ("ok", f())
    except Exception as e:
        return ("exc", type(e).__name__, str(e)[:160], e)


def native_linked(source):
    linked = len(set(re.findall(r"linked(?:parsers|builders)\[(\d+)\]", source)))
    native = len(re.findall(r"^def (parse|build)_\w+|struct\.Struct\(|io\.read\(|bytes2integer|parse_const|parse_check|switch_cases_|factory_", source, re.M))
    return native, linked


def mechkey(r, direction, res_c):
    """mechanism key: the exception type + generated-code site for crashes, else the kinds present that have emitters"""
    if res_c[0] == "exc":
        return "%s:compiled-raises-%s" % (direction, res_c[1])
    return "%s:value-differs" % direction


def member_culprit(prog, data, kw, direction):
    """shrink: drop trailing members while the disagreement persists, report the kind of the last member needed"""
    import construct as C
    ms = prog[1]
    best = None
    for cut in range(len(ms), 6, -1):
        sub = ["Struct", ms[:cut]]
        try:
            d = mk(sub)
            c = d.compile()
        except Exception:
            break
        ri = outcome(lambda: d.parse(data, **kw))
        if ri[0] != "ok":
            break
        if direction == "parse":
            rc = outcome(lambda: c.parse(data, **kw))
            bad = rc[0] != "ok" or not veq(rc[1], ri[1])
        else:
            bi = outcome(lambda: d.build(ri[1], **kw))
            bc = outcome(lambda: c.build(ri[1], **kw))
            bad = bi[0] == "ok" and (bc[0] != "ok" or bc[1] != bi[1])
        if bad:
            best = ms[cut - 1]
        else:
            break
    if best is None:
        return "?"
    m = best[1]
    return m[0] if m[0] != "name" else m[1]


def run_program(ctx, prog, kw, ins, sample=False):
    import construct as C
    try:
        d = mk(prog)
    except Exception:
        ctx.count("program_not_constructible")
        return
    comp = outcome(lambda: d.compile())
    if comp[0] != "ok":
        ctx.count("compile_not_accepted:" + comp[1])
        return
    c = comp[1]
    ctx.count("programs")
    native, linked = native_linked(c.source)
    src_hash = hashlib.sha1(re.sub(r"\d{6,}", "N", c.source).encode()).hexdigest()[:16]
    accepted = 0
    hasexpr = "this[" in c.source
    for data in ins:
        ri = outcome(lambda: d.parse(data, **kw))
        if ri[0] != "ok":
            ctx.count("inputs_interpreter_rejects")
            continue
        if peek_failed(prog, ri[1], d, data, kw):
            # look-ahead over truncated data: documented as outside what generated code handles (it omits the length checks)
            ctx.count("inputs_skipped_lookahead_failed")
            continue
        accepted += 1
        ctx.ev()
        ctx.count("comparisons")
        case = {"program": prog, "kw": kw, "input": tag(data[:120]), "input_len": len(data)}
        rc = outcome(lambda: c.parse(data, **kw))
        if rc[0] != "ok" or not veq(rc[1], ri[1]):
            cul = member_culprit(prog, data, kw, "parse")
            ctx.violation("%s:%s" % (mechkey(prog, "parse", rc), cul), "interpreter parses to %r ; compiled %s" % (strip(ri[1]), ("raised %s: %s" % (rc[1], rc[2])) if rc[0] != "ok" else "gives %r" % (strip(rc[1]),)), case)
            return
        bi = outcome(lambda: d.build(ri[1], **kw))
        if bi[0] != "ok":
            ctx.count("parsed_value_not_buildable_by_interpreter")
            continue
        ctx.ev()
        ctx.count("comparisons")
        bc = outcome(lambda: c.build(ri[1], **kw))
        if bc[0] != "ok" or bc[1] != bi[1]:
            cul = member_culprit(prog, data, kw, "build")
            ctx.violation("%s:%s" % (mechkey(prog, "build", bc), cul), "interpreter builds %s ; compiled %s (value %r)" % (bi[1].hex()[:120], ("raised %s: %s" % (bc[1], bc[2])) if bc[0] != "ok" else "builds " + bc[1].hex()[:120], strip(ri[1])), case)
            return
        # the same value with every member that build can derive by itself left out (Rebuild/Default/Const/Computed)
        for v2 in [blank_derived(prog, ri[1])] + blank_one_by_one(prog, ri[1]):
          bi2 = outcome(lambda: d.build(v2, **kw))
          if bi2[0] == "ok":
            ctx.ev()
            ctx.count("comparisons")
            ctx.count("comparisons_build_from_blanked_value")
            bc2 = outcome(lambda: c.build(v2, **kw))
            if bc2[0] != "ok" or bc2[1] != bi2[1]:
                ctx.violation("build-derived:%s:%s" % ("compiled-raises-" + bc2[1] if bc2[0] != "ok" else "value-differs", derived_kinds(prog)),
                              "derived members omitted: interpreter builds %s ; compiled %s (value %r)" % (bi2[1].hex()[:120], ("raised %s: %s" % (bc2[1], bc2[2])) if bc2[0] != "ok" else "builds " + bc2[1].hex()[:120], strip(v2)), case)
                return
        # a constant member given another value: both implementations refuse it
        for v3 in wrong_constants(prog, ri[1]):
            bi3 = outcome(lambda: d.build(v3, **kw))
            if bi3[0] == "exc" and bi3[1] == "ConstError":
                ctx.ev()
                ctx.count("comparisons_wrong_constant_supplied")
                bc3 = outcome(lambda: c.build(v3, **kw))
                if bc3[0] == "ok":
                    ctx.violation("build:compiled-accepts-wrong-constant", "a constant member was given another value: the interpreter raises ConstError, compiled code builds %s (value %r)" % (bc3[1].hex()[:80], strip(v3)), case)
                    return
    # sizeof under a sequence of keyword contexts on the same compiled instance (the first context is asked again at the end)
    answers = set()
    for j, kw2 in enumerate([kw] + [{"k": x} for x in (3, 0, 2, 1)] + [{}, kw]):
        si = outcome(lambda: d.sizeof(**kw2))
        sc = outcome(lambda: c.sizeof(**kw2))
        ctx.ev()
        answers.add(si[:2])
        if si[:2] != sc[:2]:
            ctx.violation("sizeof-differs" + (":later-call" if j else ""), "sizeof(%r) (call %d on this instance): interpreter %r, compiled %r" % (kw2, j + 1, si[:2], sc[:2]), {"program": prog, "kw": kw})
            break
    if len(answers) > 1:
        ctx.count("programs_whose_sizeof_depends_on_context")
    if accepted and native >= 2 and hasexpr:
        ctx.nontrivial("prog", src_hash)
    ctx.count("native_emitted_fragments", native)
    ctx.count("linked_fallbacks", linked)
    if sample:
        ctx.sample({"program": prog, "kw": kw, "accepted_inputs": accepted, "natively_emitted_fragments": native, "linked_fallbacks": linked})


def peek_failed(prog, value, d=None, data=None, kw=None):
    """a look-ahead that found too little data (the documented exclusion: generated code omits the length checks).  A look-ahead
    that read enough and rejected it (constant / validator mismatch) is compared like everything else: whether a None came from
    running out of data is decided by parsing the same input with 16 more bytes appended."""
    none = [nm for nm, m in prog[1] if m[0] == "Peek" and nm in value and value[nm] is None]
    if not none:
        return False
    if any(m[0] == "Peek" and m[1] == ["name", "Int16ub"] for nm, m in prog[1] if nm in none) or d is None:
        return True
    longer = outcome(lambda: d.parse(data + b"\x01" * 16, **kw))
    return longer[0] != "ok" or any(longer[1].get(nm) is not None for nm in none)


DERIVED = ("Rebuild", "Default", "Const", "Computed")


def from_nothing(m):
    """a member that builds from nothing: derived leaves, padding, and structures all of whose members do (their value may be
    left out altogether - the enclosing structure then hands None down)"""
    if m[0] in DERIVED or m[0] == "Padding":
        return True
    if m[0] in ("Struct", "Sequence"):
        return all(from_nothing(x) for _, x in m[1])
    return False


def blank_derived(r, v):
    k = r[0]
    if k == "Struct" and isinstance(v, dict):
        out = {}
        for nm, m in r[1]:
            if nm is None or nm not in v:
                continue
            if from_nothing(m):
                continue
            out[nm] = blank_derived(m, v[nm])
        return out
    if k == "Sequence" and isinstance(v, list):
        return [None if from_nothing(m) else blank_derived(m, x) for (nm, m), x in zip(r[1], v)]
    if k == "Array" and isinstance(v, list):
        return [blank_derived(r[2], x) for x in v]
    return v


def wrong_constants(r, v, limit=4):
    """variants of the value in which one Const member (depth <= 2) holds a value other than its constant"""
    out = []

    def other(c):
        c = untag(c) if isinstance(c, (dict, list)) else c
        return (c + b"?") if isinstance(c, bytes) else (c + 1) if isinstance(c, int) and not isinstance(c, bool) else (c + "?") if isinstance(c, str) else None

    def rec(r, v, put, depth):
        if len(out) >= limit or depth > 2:
            return
        if r[0] == "Struct" and isinstance(v, dict):
            for nm, m in r[1]:
                if nm is None:
                    continue
                if m[0] == "Const" and other(m[1]) is not None:
                    out.append(put(dict(v, **{nm: other(m[1])})))
                elif nm in v:
                    rec(m, v[nm], lambda x, nm=nm: put(dict(v, **{nm: x})), depth + 1)
        elif r[0] == "Sequence" and isinstance(v, list):
            for i, ((nm, m), x) in enumerate(zip(r[1], v)):
                if m[0] == "Const" and other(m[1]) is not None:
                    out.append(put(list(v[:i]) + [other(m[1])] + list(v[i + 1:])))
    rec(r, v, lambda x: x, 0)
    return out[:limit]


def blank_one_by_one(r, v, limit=8):
    """variants of the value with exactly one derived member (at depth <= 2) left out: the other derived members keep the parsed
    values, so the layout that build chooses stays the one that was parsed and the interpreter can usually build the variant"""
    out = []

    def rec(r, v, put, depth):
        if len(out) >= limit or depth > 2:
            return
        k = r[0]
        if k == "Struct" and isinstance(v, dict):
            for nm, m in r[1]:
                if nm is None or nm not in v:
                    continue
                if m[0] in DERIVED:
                    out.append(put({kk: vv for kk, vv in v.items() if kk != nm}))
                elif from_nothing(m):
                    out.append(put({kk: vv for kk, vv in v.items() if kk != nm}))
                    out.append(put(dict(v, **{nm: None})))
                else:
                    rec(m, v[nm], lambda x, nm=nm: put(dict(v, **{nm: x})), depth + 1)
        elif k == "Sequence" and isinstance(v, list):
            for i, ((nm, m), x) in enumerate(zip(r[1], v)):
                if m[0] in DERIVED or from_nothing(m):
                    out.append(put(list(v[:i]) + [None] + list(v[i + 1:])))
                else:
                    rec(m, x, lambda y, i=i: put(list(v[:i]) + [y] + list(v[i + 1:])), depth + 1)
        elif k == "Array" and isinstance(v, list) and v:
            rec(r[2], v[0], lambda y: put([y] + list(v[1:])), depth + 1)
    rec(r, v, lambda x: x, 0)
    return out[:limit]


def derived_kinds(prog):
    ks = set()

    def f(r, parent):
        if isinstance(r, list) and r and isinstance(r[0], str):
            if r[0] in DERIVED and parent:
                ks.add(parent + "/" + r[0])
            if r[0] in ("Struct", "Sequence"):
                for nm, m in r[1]:
                    f(m, r[0])
            elif r[0] == "FocusedSeq":
                for nm, m in r[2]:
                    f(m, r[0])
            elif r[0] == "Array":
                f(r[2], parent)
    for nm, m in prog[1]:
        f(m, "")
    return "+".join(sorted(ks)) or "top-level"


def strip(v):
    s = repr(v)
    return s if len(s) < 400 else s[:400] + "..."


def twin_programs():
    """programs with the same skeleton that differ only inside members the compiler links to instead of translating (their text
    does not appear in the generated source): compiled one after the other in one process, each must behave as its own interpreter"""
    GB = ["name", "GreedyBytes"]
    pairs = [
        (["OneOf", B, [1, 2]], ["OneOf", B, [0, 3, 200]]), (["Select", [B, ["name", "Int16ub"]]], ["Select", [["name", "Int16ub"], B]]), (["RawCopy", B], ["RawCopy", ["name", "Int16ub"]]),
        (["CString", "ascii"], ["CString", "utf16"]), (["Optional", ["Const", tag(b"\x01"), None]], ["Optional", ["Const", tag(b"\x00"), None]]),
        (["ByteSwapped", ["name", "Int16ub"]], ["ByteSwapped", ["name", "Int24ub"]]), (["NullTerminated", GB, tag(b"\x00")], ["NullTerminated", GB, tag(b"\x01")]),
        (["Bitwise", ["Struct", [["a", ["name", "Nibble"]], ["b", ["name", "Nibble"]]]]], ["Bitwise", ["Struct", [["a", ["BitsInteger", 3, False, False]], ["b", ["BitsInteger", 5, True, False]]]]]),
        (["name", "VarInt"], ["name", "ZigZag"]), (["PaddedString", 2, "ascii"], ["PaddedString", 4, "utf16"]), (["ProcessXor", 1, ["Bytes", 1]], ["ProcessXor", 255, ["Bytes", 1]]),
        (["ExprAdapter", B, ["bin", "+", ["obj"], 1], ["bin", "-", ["obj"], 1]], ["ExprAdapter", B, ["bin", "*", ["obj"], 2], ["bin", "//", ["obj"], 2]]),
        (["Slicing", ["Array", 2, B], 2, 0, 1, 1, 0], ["Slicing", ["Array", 2, B], 2, 1, 2, 1, 0]),
    ]
    head = [["n", B], ["m", ["name", "Int16ub"]], ["f", ["name", "Flag"]], ["s", ["PascalString", B, "ascii"]], ["e", ["Enum", B, [["a", 1], ["b", 2]]]], ["b2", ["Bytes", 2]]]
    out = []
    for x1, x2 in pairs:
        for tailm in ([["t", B]], [["t", B], ["p", ["Bytes", ["bin", "&", ["this", "n"], 1]]]]):
            out.append((["Struct", head + [["v", x1]] + tailm], ["Struct", head + [["v", x2]] + tailm]))
    return out


def run(ctx):
    rng = ctx.rng
    n = ctx.pick(1500, 40000) // ctx.nworkers
    nin = ctx.pick(30, 80)
    for j, (p1, p2) in enumerate(twin_programs()):
        if ctx.mine(j):
            ins = inputs(rng, nin)
            for prog in (p1, p2, p1):
                run_program(ctx, prog, {"k": 1}, ins)
            ctx.count("twin_program_pairs")
    for _ in range(ctx.pick(2, 6)):
        run_rooted(ctx, rng)
    for i in range(n):
        g = PGen(rng)
        g.derived_program = (i % 4 == 1)
        prog = g.program() if i % 4 else sized_program(rng)
        kw = {"k": rng.choice([0, 1, 2, 3]), "sel": rng.choice(["a", "num"])}
        run_program(ctx, prog, kw, inputs(rng, nin), sample=(i < 2 and ctx.index < 2))


def replay(ctx, case):
    import random
    if case.get("rooted"):
        return run_rooted(ctx, random.Random(1))
    run_program(ctx, case["program"], case.get("kw", {}), inputs(random.Random(1), 200))
