"""C18 - errors name the member in which parsing or building failed.

Oracle: the generator knows the shape (every named member has a unique name).  For truncation at offset t the
expected name chain is read off the *successful* parse of the full encoding: a hook on Renamed records when each named
member was entered/left in units of the traced outer stream's operation log; the failing read of the truncated run is
the first logged read that reaches beyond t, and the expected chain is the named members active at that read
(each member once, outermost first).  For build / sizeof the chain is the path of shape names down to the member that
was made unbuildable / unsizable.
"""
from ..common import tag, untag
from ..recipes import mk, shape
from ..streams import TracedStream
from .. import refmodel as M
from .. import monitors
from ..gen import genval

LEVEL = "exploration"
RULE = ("nested Struct/Sequence/Array/Prefixed/FixedSized/IfThenElse/Switch shapes with uniquely named members (depth<=4, some with docstrings), every leaf "
        "kind; EVERY truncation offset of every canonical encoding; every named leaf made unbuildable in turn (out-of-range integer, wrong-length bytes, "
        "bytes for a string, unencodable string, unknown label, wrong element count); LazyStruct records truncated inside the length/count fields they must read; the member whose byte extent contains the cut must lie on the chain of the member that "
        "performs the read; a build failure that is no ConstructError is a violation; every named leaf made unsizable in turn (inherently, or through each "
        "context-dependent parameter slot with the entry absent - reached via this.key, a callable with attribute access, a callable with item access); explicit cases: sources that cannot tell or seek, negative lengths, reused named objects, the AlignedStruct macro (every cut incl. alignment padding, build, sizeof) and explicit Errors inside Select / Optional alternatives in both directions. non-trivial = a failure at "
        "depth >= 2; distinct by (shape, operation, failing member)")
ASSUMPTIONS = ["only ConstructError subclasses carry a path; failures that legitimately raise other exceptions (KeyError for a missing dict key) are not provoked"]
REQUIRED_ANCHORS = ["core:ConstructError.__init__", "core:Renamed._parse", "core:Renamed._build", "core:Renamed._sizeof", "core:stream_read", "core:Construct.parse_stream",
                    "core:Construct.build_stream", "core:Construct.sizeof", "core:Prefixed._parse", "core:FixedSized._parse", "core:Array._parse", "core:Struct._parse"]
ANCHORS = REQUIRED_ANCHORS
B = ["name", "Byte"]


class ShapeGen:
    def __init__(self, rng, maxdepth):
        self.rng = rng
        self.n = 0
        self.maxdepth = maxdepth

    def name(self):
        self.n += 1
        if self.n > 1 and self.rng.random() < 0.15:
            return "m%d" % self.rng.randint(1, self.n - 1)       # names are only unique per structure: reuse an enclosing/earlier name
        return "m%d" % self.n

    def leaf(self):
        r = self.rng
        return r.choice([B, ["name", "Int16ub"], ["name", "Int32ul"], ["Bytes", 3], ["name", "VarInt"], ["CString", "ascii"], ["PascalString", B, "utf8"],
                         ["Enum", B, [["a", 1], ["b", 2]]], ["name", "Flag"], ["name", "Float32b"], ["PaddedString", 4, "ascii"], ["name", "Int24sb"],
                         ["BytesInteger", 5, True, True], ["BitStruct", [["x", ["name", "Nibble"]], ["y", ["BitsInteger", 12, False, False]]]],
                         ["Aligned", 4, ["name", "Int16ul"]], ["Padded", 3, B], ["FlagsEnum", B, [["r", 1], ["w", 2]]], ["Hex", ["name", "Int16ul"]]])

    def member(self, depth):
        """-> [name, recipe] with optional docstring wrapper"""
        nm = self.name()
        r = self.node(depth)
        if self.rng.random() < 0.12:
            return [None, ["Renamed", nm, r, "some docs"]], nm
        return [nm, r], nm

    def node(self, depth):
        r = self.rng
        if depth <= 0 or r.random() < 0.3:
            return self.leaf()
        c = r.random()
        if c < 0.40:
            ms = []
            used = set()
            for _ in range(r.randint(1, 3)):
                m, _nm = self.member(depth - 1)
                if _nm in used:
                    continue           # names are reused across levels, never between siblings
                used.add(_nm)
                ms.append(m)
            if r.random() < 0.2:
                ms.insert(r.randrange(len(ms) + 1), [None, ["Const", tag(b"\x7e"), None]])
            return ["Struct", ms]
        if c < 0.50:
            ms = []
            used = set()
            for _ in range(r.randint(1, 3)):
                m, _nm = self.member(depth - 1)
                if _nm in used:
                    continue
                used.add(_nm)
                ms.append(m)
            if not ms:
                return self.leaf()
            return ["Sequence", ms]
        if c < 0.62:
            return ["Array", r.randint(1, 3), self.node(depth - 1)]
        if c < 0.74:
            return ["Prefixed", r.choice([B, ["name", "VarInt"], ["name", "Int16ul"]]), self.node(depth - 1), False]
        if c < 0.775:
            # a tunnel behind a length prefix: the inner format is built / parsed on a stream of its own, the names go on
            return ["Prefixed", r.choice([B, ["name", "Int16ul"]]), ["Compressed", self.node(depth - 1), "zlib"], False]
        if c < 0.82:
            inner = self.node(depth - 1)
            try:
                n = M.size(inner, M.top_scope({})) + r.randint(0, 2)
            except Exception:
                n = 24
            return ["FixedSized", n, inner]
        if c < 0.91:
            return ["IfThenElse", r.random() < 0.5, self.node(depth - 1), self.node(depth - 1)]
        return ["Switch", 1, [[1, self.node(depth - 1)], [2, B]], None]

    def top(self):
        ms = []
        used = set()
        for _ in range(self.rng.randint(1, 3)):
            m, nm = self.member(self.maxdepth - 1)
            if nm in used:
                continue
            used.add(nm)
            ms.append(m)
        return ["Struct", ms]


def named_paths(r, prefix=()):
    """all (chain of names, leaf recipe, container recipe path) for named leaves of a shape"""
    out = []
    k = r[0]
    if k in ("Struct", "Sequence"):
        for nm, m in r[1]:
            if nm is None and m[0] == "Renamed":
                nm2, inner = m[1], m[2]
                out += named_paths(inner, prefix + (nm2,)) or []
                if not is_container(inner):
                    out.append((prefix + (nm2,), inner))
            elif nm:
                out += named_paths(m, prefix + (nm,))
                if not is_container(m):
                    out.append((prefix + (nm,), m))
            else:
                out += named_paths(m, prefix)
    elif k == "Array":
        out += named_paths(r[2], prefix)
    elif k in ("Prefixed", "FixedSized"):
        out += named_paths(r[2], prefix)
    elif k == "Compressed":
        out += named_paths(r[1], prefix)
    elif k == "IfThenElse":
        out += named_paths(r[2] if r[1] else r[3], prefix)
    elif k == "Switch":
        out += named_paths(r[2][0][1], prefix)
    return out


def is_container(r):
    return r[0] in ("Struct", "Sequence", "Array", "Prefixed", "FixedSized", "IfThenElse", "Switch", "Compressed")


def replace_leaf(r, chain, newleaf, prefix=()):
    """copy of r with the named leaf at `chain` replaced"""
    k = r[0]
    if k in ("Struct", "Sequence"):
        ms = []
        for nm, m in r[1]:
            if nm is None and m[0] == "Renamed":
                p2 = prefix + (m[1],)
                if p2 == chain and not is_container(m[2]):
                    ms.append([None, ["Renamed", m[1], newleaf, m[3]]])
                else:
                    ms.append([None, ["Renamed", m[1], replace_leaf(m[2], chain, newleaf, p2), m[3]]])
            elif nm:
                p2 = prefix + (nm,)
                if p2 == chain and not is_container(m):
                    ms.append([nm, newleaf])
                else:
                    ms.append([nm, replace_leaf(m, chain, newleaf, p2)])
            else:
                ms.append([nm, replace_leaf(m, chain, newleaf, prefix)])
        return [k, ms]
    if k == "Array":
        return [k, r[1], replace_leaf(r[2], chain, newleaf, prefix)]
    if k == "Prefixed":
        return [k, r[1], replace_leaf(r[2], chain, newleaf, prefix), r[3]]
    if k == "FixedSized":
        return [k, r[1], replace_leaf(r[2], chain, newleaf, prefix)]
    if k == "Compressed":
        return [k, replace_leaf(r[1], chain, newleaf, prefix)] + r[2:]
    if k == "IfThenElse":
        return [k, r[1], replace_leaf(r[2], chain, newleaf, prefix) if r[1] else r[2], r[3] if r[1] else replace_leaf(r[3], chain, newleaf, prefix)]
    if k == "Switch":
        return [k, r[1], [[r[2][0][0], replace_leaf(r[2][0][1], chain, newleaf, prefix)]] + r[2][1:], r[3]]
    return r


def set_value(r, v, chain, bad, prefix=()):
    """copy of value v with the (first occurrence of the) named leaf at `chain` set to `bad`"""
    k = r[0]
    if k in ("Struct", "Sequence"):
        isseq = k == "Sequence"
        out = list(v) if isseq else dict(v)
        for i, (nm, m) in enumerate(r[1]):
            nm2, inner = (m[1], m[2]) if (nm is None and m[0] == "Renamed") else (nm, m)
            if nm2 is None:
                continue
            p2 = prefix + (nm2,)
            key = i if isseq else nm2
            if p2 == chain[:len(p2)]:
                if p2 == chain and not is_container(inner):
                    out[key] = bad
                else:
                    out[key] = set_value(inner, v[key], chain, bad, p2)
        return out
    if k == "Array":
        out = list(v)
        if out:
            out[0] = set_value(r[2], v[0], chain, bad, prefix)
        return out
    if k in ("Prefixed", "FixedSized"):
        return set_value(r[2], v, chain, bad, prefix)
    if k == "Compressed":
        return set_value(r[1], v, chain, bad, prefix)
    if k == "IfThenElse":
        return set_value(r[2] if r[1] else r[3], v, chain, bad, prefix)
    if k == "Switch":
        return set_value(r[2][0][1], v, chain, bad, prefix)
    return v


def leaf_by_name(leaves, name):
    for chain, leaf in leaves:
        if chain[-1] == name:
            return leaf
    return None


FLOATBAD = ["not a number"]      # rotated by the caller: wrong type, then finite values beyond the format's range
BYTESBAD = [b"toolongvalue"]     # rotated by the caller: wrong length, then values of other types (tuple, list, float, str)


def bad_value_for(leaf):
    k = leaf[0]
    if k == "name":
        n = leaf[1]
        if n == "Flag":
            return None           # anything builds as a Flag
        if n.startswith("Float"):
            return FLOATBAD[0]
        return 1 << 80 if n != "VarInt" else -5
    if k in ("Bytes",):
        return BYTESBAD[0]
    if k in ("CString", "PascalString", "PaddedString"):
        return b"bytes-not-str" if leaf[0] != "PaddedString" else "much too long for the field"
    if k == "Enum":
        return "no-such-label"
    if k == "FlagsEnum":
        return "nope"
    if k == "BytesInteger":
        return 1 << 90
    if k == "BitStruct":
        return None       # its own inner names would extend the chain; covered by the truncation monitor
    if k in ("Aligned", "Padded", "Hex"):
        return 1 << 80
    return None


def path_names(path):
    """'(parsing) -> a -> b' -> ('(parsing)', ['a','b'])"""
    if path is None:
        return None, None
    parts = [p.strip() for p in path.split("->")]
    return parts[0], parts[1:]


def check_path(ctx, e, op, want, mech_prefix, case, detail):
    head, names = path_names(getattr(e, "path", None))
    if head is None:
        ctx.violation("%s-error-without-path:%s" % (mech_prefix, type(e).__name__), "%s: %s raised without a path (expected %s -> %s): %s" % (detail, type(e).__name__, op, " -> ".join(want), str(e)[:120]), case)
        return False
    if head != op:
        ctx.violation("%s-path-wrong-operation" % mech_prefix, "%s: path starts with %r, expected %r" % (detail, head, op), case)
        return False
    if names != list(want):
        kind = "duplicated-name" if dedupe(names) == list(want) else "missing-names" if is_subseq(names, want) else "extra-or-wrong-names"
        ctx.violation("%s-path-%s" % (mech_prefix, kind), "%s: path is %r, the enclosing named members are %r" % (detail, " -> ".join([head] + names), " -> ".join([op] + list(want))), case)
        return False
    return True


def dedupe(names):
    out = []
    for n in names:
        if not out or out[-1] != n:
            out.append(n)
    return out


def is_subseq(a, b):
    it = iter(b)
    return all(x in it for x in a)


def run_shape(ctx, rng, r):
    import construct as C
    try:
        d = mk(r)
        v = genval(r, rng, M.top_scope({}))
        enc = d.build(v)
    except Exception:
        ctx.count("shape_not_buildable")
        return
    leaves = named_paths(r)
    # ---- parsing: every truncation offset
    s = TracedStream(enc)
    monitors.MEMBERS.clock = lambda: len(s.log)
    try:
        with monitors.MEMBERS as tr:
            d.parse_stream(s)
            events = [list(e) for e in tr.events]
    except (Exception, monitors.TraceOverflow):
        ctx.count("canonical_not_parseable")
        monitors.MEMBERS.clock = None
        return
    monitors.MEMBERS.clock = None
    log = list(s.log)
    for t in range(len(enc)):
        ctx.ev()
        # first logged read that reaches beyond t
        idx = None
        for i, (op, arg, res, p0, p1) in enumerate(log):
            if op == "read" and isinstance(arg, int) and arg >= 0 and p0 + arg > t:
                idx = i
                break
        if idx is None:
            continue
        active = [ev for ev in events if ev[7] is not None and ev[7] <= idx and (ev[8] is None or ev[8] > idx)]
        want = dedupe_members(active)
        case = {"op": "parse", "recipe": r, "encoding": tag(enc), "cut": t}
        # the member whose byte extent contains the cut, from the positions the members started and ended at (independent of
        # which call happened to read the byte): it must lie on the same chain as the member that performed the read (a region
        # read up-front is read by an enclosing member, never by an unrelated one)
        inext = [ev for ev in events if ev[0] == "parse" and ev[6] == id(s) and ev[3] is not None and ev[4] is not None and ev[3] <= t < ev[4]]
        want_ext = dedupe_members(inext)
        if want_ext[:len(want)] != want and want[:len(want_ext)] != want_ext:
            ctx.violation("parse-extent-vs-read-attribution", "cut at %d: the members whose extent contains the offset are %s, but the read that reaches it is performed inside %s" % (t, " -> ".join(want_ext), " -> ".join(want)), case)
            break
        try:
            d.parse(enc[:t])
            ctx.count("truncation_accepted")        # C06's subject
            continue
        except C.ConstructError as e:
            ok = check_path(ctx, e, "(parsing)", want, "parse", case, "truncated at %d of %d" % (t, len(enc)))
        except Exception:
            ctx.count("truncation_foreign_exception")   # C06's subject
            continue
        if len(want) >= 2:
            ctx.nontrivial("p", shape(r), tuple(want))
        if not ok:
            break
    ctx.count("truncations", len(enc))
    # ---- parsing: a validating leaf given invalid content (undecodable text) - the failure is inside that member
    for ev in events:
        if ev[2] is None or ev[3] is None or ev[4] is None or ev[4] - ev[3] < 2 or ev[6] != id(s):
            continue                      # (members inside a tunnel live on a stream of their own: their offsets are not offsets of the encoding)
        if any(e2[10] > ev[10] and e2[11] is not None and e2[11] < ev[11] for e2 in events):
            continue                      # not a leaf member
        con = ev[9]
        while type(con).__name__ == "Renamed":
            con = object.__getattribute__(con, "__dict__")["subcon"]
        if type(con).__name__ != "StringEncoded" or object.__getattribute__(con, "__dict__").get("encoding") not in ("ascii", "utf8"):
            continue
        inner = type(object.__getattribute__(con, "__dict__")["subcon"]).__name__
        pos = ev[3] + (1 if inner == "Prefixed" else 0)
        bad = enc[:pos] + b"\xff" + enc[pos + 1:]
        active = [e2 for e2 in events if e2[10] <= ev[10] and e2[11] is not None and e2[11] >= ev[11]]
        want = dedupe_members(active)
        ctx.ev()
        case = {"op": "parse-corrupt", "recipe": r, "encoding": tag(bad), "member": ev[2]}
        try:
            d.parse(bad)
            continue
        except C.ConstructError as e:
            check_path(ctx, e, "(parsing)", want, "parse", case, "undecodable byte planted in member %s" % ev[2])
            ctx.count("corruptions_rejected")
        except Exception:
            continue
    # ---- building: every named leaf made unbuildable in turn
    FLOATBAD[0] = ["not a number", 1e300, -3.5e38, 70000.0][ctx.evaluations % 4]
    BYTESBAD[0] = [b"toolongvalue", (1, 2), (), [1, 2, 3], 2.5, "text", {"a": 1}, 2 ** 70, -1][(ctx.evaluations // 4) % 9]      # (Bytes also builds from an integer: one that does not fit)
    for chain, leaf, bad in [(c, l, bad_value_for(l)) for c, l in leaves] + [(c, l, "\u20ac not ascii") for c, l in leaves if l[0] in ("CString", "PaddedString") and l[-1] == "ascii"]:
        if bad is None:
            continue
        try:
            v2 = set_value(r, v, chain, bad)
        except Exception:
            continue
        ctx.ev()
        case = {"op": "build", "recipe": r, "value": tag(v2), "member": list(chain)}
        try:
            d.build(v2)
            ctx.count("bad_value_accepted")
            continue
        except C.ConstructError as e:
            check_path(ctx, e, "(building)", chain, "build", case, "member %s made unbuildable (%r)" % (".".join(chain), bad))
        except Exception as e:
            # no ConstructError at all, so no path: the failing member is not named
            ctx.violation("build-error-not-a-ConstructError:%s" % type(e).__name__, "member %s made unbuildable (%r): build raised %s: %s" % (".".join(chain), bad, type(e).__name__, str(e)[:120]), case)
            continue
        ctx.count("build_failures")
        if len(chain) >= 2:
            ctx.nontrivial("b", shape(r), chain)
    # ---- sizeof: every named leaf made unsizable in turn
    for chain, leaf in leaves:
        for unsized in UNSIZED:
            r2 = replace_leaf(r, chain, unsized)
            try:
                d2 = mk(r2)
            except Exception:
                continue
            ctx.ev()
            case = {"op": "sizeof", "recipe": r2, "member": list(chain)}
            try:
                d2.sizeof()
                ctx.count("sizeof_answered_despite_unsized_member")     # an earlier member may already be unsized... then it raises; answered = enclosing FixedSized
                continue
            except C.SizeofError as e:
                want = first_unsized_chain(r2)
                if want is None:
                    continue
                check_path(ctx, e, "(sizeof)", want, "sizeof", case, "first unsizable member %s" % ".".join(want))
            except Exception:
                ctx.count("sizeof_foreign_exception")   # C05's subject
                continue
            ctx.count("sizeof_failures")
            if len(chain) >= 2:
                ctx.nontrivial("s", shape(r), chain, unsized[0])


def region_end_failures(ctx):
    """failures that are detected when a region is wrapped up rather than inside one of its leaves: a bit-level region of
    data-dependent size that ends inside a byte (parse: bits decoded but not consumed; build: bits left unflushed) under named
    members, and failures inside a tunnel - the error carries the operation and the names down to the region"""
    import construct as C
    bits = C.Bitwise(C.Struct("n" / C.Nibble, "bits" / C.Array(C.this.n, C.Bit)))
    tun = C.Prefixed(C.Byte, C.Compressed(C.Struct("k" / C.Byte, "body" / C.Struct("v" / C.Int16ub, "e" / C.Enum(C.Byte, a=1))), "zlib"))
    import zlib
    cases = []
    for n in (1, 2, 3, 5, 6, 7):
        for wrapname, wrap, chain in (("direct", lambda x: C.Struct("r" / x), ["r"]), ("nested", lambda x: C.Struct("h" / C.Byte, "msg" / C.Struct("flags" / x, "t" / C.Byte)), ["msg", "flags"]),
                                      ("array", lambda x: C.Struct("xs" / C.Array(1, C.Struct("f" / x))), ["xs", "f"]), ("prefixed", lambda x: C.Struct("p" / C.Prefixed(C.Byte, C.Struct("q" / x))), ["p", "q"])):
            d = wrap(bits)
            val = {"n": n, "bits": [1] * n}
            v = {"direct": {"r": val}, "nested": {"h": 1, "msg": {"flags": val, "t": 2}}, "array": {"xs": [{"f": val}]}, "prefixed": {"p": {"q": val}}}[wrapname]
            data = {"direct": b"", "nested": b"\x01", "array": b"", "prefixed": b"\x02"}[wrapname] + bytes([(n << 4) | 0x0f, 0xff]) + b"\x02"
            cases.append(("bit-region-ends-inside-a-byte:" + wrapname, d, v, data, chain, chain))
    vb = C.Bitwise(C.Struct("w" / C.Nibble, "small" / C.BitsInteger(C.this.w), "rest" / C.BitsInteger(4), "tail" / C.Array(C.this.w, C.Bit)))
    for w, val, chain0 in ((3, {"w": 3, "small": 99, "rest": 1, "tail": [1, 0, 1]}, ["small"]), (5, {"w": 5, "small": 1, "rest": 77, "tail": [1] * 5}, ["rest"]),
                           (2, {"w": 2, "small": 1, "rest": 1, "tail": [1, "x"]}, ["tail"]), (1, {"w": 1, "small": -1, "rest": 0, "tail": [0]}, ["small"])):
        for wrapname, wrap, pre in (("direct", lambda x: C.Struct("bits" / x), ["bits"]), ("nested", lambda x: C.Struct("records" / C.Array(1, "rec" / C.Struct("bits" / x, "t" / C.Byte))), ["records", "rec", "bits"])):
            v = {"bits": val} if wrapname == "direct" else {"records": [{"bits": val, "t": 1}]}
            cases.append(("unbuildable-member-after-a-partial-byte:" + wrapname, wrap(vb), v, None, pre + chain0, None))
    for bad, chain in (({"k": 1, "body": {"v": 70000, "e": "a"}}, ["body", "v"]), ({"k": 1, "body": {"v": 1, "e": "zz"}}, ["body", "e"]), ({"k": 300, "body": {"v": 1, "e": "a"}}, ["k"])):
        for wrapname, wrap, pre in (("direct", lambda x: C.Struct("z" / x), ["z"]), ("nested", lambda x: C.Struct("h" / C.Byte, "msg" / C.Struct("z" / x)), ["msg", "z"])):
            d = wrap(tun)
            v = {"direct": {"z": bad}, "nested": {"h": 1, "msg": {"z": bad}}}[wrapname]
            cases.append(("tunnel:" + wrapname, d, v, None, pre + chain, None))
    # parsing inside a tunnel: the decompressed data is too short for the inner format / carries an unknown constant
    for inner_data, chain in ((b"\x01\x00", ["body", "v"]), (b"\x01", ["body", "v"]), (b"", ["k"])):
        comp = zlib.compress(inner_data)
        for wrapname, wrap, pre, head in (("direct", lambda x: C.Struct("z" / x), ["z"], b""), ("nested", lambda x: C.Struct("h" / C.Byte, "msg" / C.Struct("z" / x)), ["msg", "z"], b"\x07")):
            cases.append(("tunnel:" + wrapname, wrap(tun), None, head + bytes([len(comp)]) + comp, None, pre + chain))
    for label, d, v, data, bchain, pchain in cases:
        if v is not None:
            ctx.ev()
            case = {"op": "region-end", "label": label, "direction": "build", "value": tag(v)}
            try:
                d.build(v)
                ctx.count("region_end_build_accepted")
            except C.ConstructError as e:
                check_path(ctx, e, "(building)", bchain, "build", case, label)
                ctx.count("region_end_failures")
            except Exception as e:
                ctx.violation("build-error-not-a-ConstructError:%s" % type(e).__name__, "%s: build raised %s: %s" % (label, type(e).__name__, str(e)[:120]), case)
        if data is not None and pchain is not None:
            ctx.ev()
            case = {"op": "region-end", "label": label, "direction": "parse", "encoding": tag(data)}
            try:
                d.parse(data)
                ctx.count("region_end_parse_accepted")
            except C.ConstructError as e:
                check_path(ctx, e, "(parsing)", pchain, "parse", case, label)
                ctx.count("region_end_failures")
            except Exception as e:
                ctx.violation("parse-error-not-a-ConstructError:%s" % type(e).__name__, "%s: parse raised %s: %s" % (label, type(e).__name__, str(e)[:120]), case)
        ctx.nontrivial("region-end", label, tuple(bchain or pchain))


def explicit_parse_failures(ctx):
    """failures that are no truncation of a valid encoding: a length prefix that decodes to a negative payload size, an end-relative
    region on a stream that cannot seek to its end, and named field objects that were used on their own before they were embedded
    under another name - the path still starts with the operation and names the members down to the failing one"""
    import construct as C, io

    class ForwardOnly(object):
        """a reader that can tell where it is but cannot seek (a pipe, a decompressor)"""
        def __init__(self, data):
            self.b = io.BytesIO(data)

        def read(self, n=-1):
            return self.b.read(n)

        def tell(self):
            return self.b.tell()

        def seekable(self):
            return False

        def seek(self, *a):
            raise io.UnsupportedOperation("seek")
    class ReadOnly(object):
        """a source that offers nothing but read() (a pipe, a socket file, a decompressor)"""
        def __init__(self, data):
            self.b = io.BytesIO(data)

        def read(self, n=-1):
            return self.b.read(n)
    cases = []
    # truncated encodings read from a source that can neither tell nor seek: the short read is still reported with the path
    trunc = C.Struct("hdr" / C.Byte, "a" / C.Struct("b" / C.Int16ub, "c" / C.Int32ub), "xs" / C.Array(2, "e" / C.Struct("v" / C.Int16ub)))
    full = bytes(range(1, 12))
    for cut, chain in ((0, ["hdr"]), (2, ["a", "b"]), (3, ["a", "c"]), (6, ["a", "c"]), (8, ["xs", "e", "v"]), (10, ["xs", "e", "v"])):
        cases.append(("truncated:read-only-source", trunc, ReadOnly(full[:cut]), chain, "parse_stream"))
        cases.append(("truncated:forward-only-source", trunc, ForwardOnly(full[:cut]), chain, "parse_stream"))
    # negative payload sizes
    for lf, data in ((C.Int8sb, b"\xff"), (C.Int8sb, b"\x80abc"), (C.Int16sb, b"\xff\xfe")):
        cases.append(("negative-length:signed-prefix", C.Struct("records" / C.Array(1, "record" / C.Struct("name" / C.Prefixed(lf, C.GreedyBytes)))), data, ["records", "record", "name"], "parse"))
    for lf, data in ((C.Int16ub, b"\x00\x01"), (C.Int32ul, b"\x02\x00\x00\x00zz"), (C.Int16ub, b"\x00\x00")):
        cases.append(("negative-length:includelength", C.Struct("h" / C.Pass, "blk" / C.Struct("body" / C.Prefixed(lf, C.GreedyBytes, includelength=True))), data, ["blk", "body"], "parse"))
    cases.append(("negative-length:fixedsized", C.Struct("n" / C.Int8sb, "f" / C.Struct("d" / C.FixedSized(C.this._.n, C.GreedyBytes))), b"\xfe\x00", ["f", "d"], "parse"))
    cases.append(("negative-length:bytes", C.Struct("n" / C.Int8sb, "f" / C.Struct("d" / C.Bytes(C.this._.n))), b"\xfe\x00", ["f", "d"], "parse"))
    cases.append(("negative-length:padding", C.Struct("n" / C.Int8sb, "f" / C.Struct("d" / C.Padding(C.this._.n))), b"\xfe\x00", ["f", "d"], "parse"))
    # a region delimited from the end of a stream that cannot seek there
    oe = C.Struct("hdr" / C.Byte, "body" / C.Struct("data" / C.OffsettedEnd(-2, C.GreedyBytes), "crc" / C.Bytes(2)))
    cases.append(("end-relative-region:forward-only-stream", oe, ForwardOnly(b"\x01abcdXY"), ["body", "data"], "parse_stream"))
    cases.append(("end-relative-region:translating-stream", C.Struct("w" / C.BitsSwapped(C.Struct("n" / C.VarInt, "body" / C.Struct("data" / C.OffsettedEnd(-1, C.GreedyBytes), "t" / C.Byte)))), b"\x01abcd", ["w", "body", "data"], "parse"))
    cases.append(("pointer:forward-only-stream", C.Struct("a" / C.Byte, "far" / C.Struct("p" / C.Pointer(3, C.Byte))), ForwardOnly(b"\x01\x02\x03\x04"), ["far", "p"], "parse_stream"))
    # field objects used on their own first, then embedded under another name / given a docstring
    coord = "coord" / C.Struct("x" / C.Byte, "y" / C.Int16ub)
    for use in (lambda: coord.parse(b"\x01\x02\x03"), lambda: coord.build(dict(x=1, y=2)), lambda: coord.sizeof()):
        use()
    outer = C.Struct("origin" / coord, "pts" / C.Array(2, "p" / coord), "doc" / (coord * "documented"))
    cases.append(("reused-named-object:renamed-again", outer, b"\x01\x02", ["origin", "coord", "y"], "parse"))
    cases.append(("reused-named-object:in-array", outer, b"\x01\x02\x03\x04\x05\x06\x07", ["pts", "p", "coord", "y"], "parse"))
    cases.append(("reused-named-object:documented", outer, b"\x01\x02\x03" * 3 + b"\x09", ["doc", "coord", "y"], "parse"))
    cases.append(("reused-named-object:build", outer, dict(origin=dict(x=1, y=2), pts=[dict(x=1, y=2), dict(x=1, y=70000)], doc=dict(x=1, y=2)), ["pts", "p", "coord", "y"], "build"))
    leaf = "n" / C.Int16ub
    leaf.parse(b"\x00\x01")
    cases.append(("reused-named-object:leaf", C.Struct("a" / C.Struct("b" / leaf)), b"\x00", ["a", "b", "n"], "parse"))
    # the structure-building macros: every member is named once, whatever the macro wraps around it (alignment padding belongs to the member)
    hook = lambda obj, c: None
    for mname, mk in (("alignedstruct", lambda *m, **kw: C.AlignedStruct(4, *m, **kw)), ("bitstruct", None)):
        if mk is None:
            continue
        al = mk("a" / C.Byte, ("b" / C.Struct("c" / C.Int16ub, "d" / C.Bytes(3))) * "documented", ("e" / C.Int16ub) * hook, C.Padding(1), f=C.Byte)
        full = al.build(dict(a=1, b=dict(c=2, d=b"xyz"), e=3, f=4))
        for cut, chain in ((0, ["a"]), (2, ["a"]), (4, ["b", "c"]), (5, ["b", "c"]), (7, ["b", "d"]), (9, ["b"]), (11, ["b"]), (12, ["e"]), (13, ["e"]), (15, ["e"]), (16, []), (20, ["f"]), (22, ["f"])):
            cases.append(("macro-member-named-once:%s:parse" % mname, al, full[:cut], chain, "parse"))
            cases.append(("macro-member-named-once:%s:parse-wrapped" % mname, C.Struct("hdr" / C.Pass, "w" / al), full[:cut], ["w"] + chain, "parse"))
        cases.append(("macro-member-named-once:%s:build" % mname, al, dict(a=1, b=dict(c=2, d=b"xy"), e=3, f=4), ["b", "d"], "build"))
        cases.append(("macro-member-named-once:%s:build" % mname, al, dict(a=1, b=dict(c=2, d=b"xyz"), e=70000, f=4), ["e"], "build"))
        cases.append(("macro-member-named-once:%s:build" % mname, al, dict(a=1, b=dict(c=2, d=b"xyz"), e=3, f="x"), ["f"], "build"))
        cases.append(("macro-member-named-once:%s:sizeof" % mname, mk("a" / C.Byte, "g" / C.Struct("h" / C.GreedyBytes)), None, ["g", "h"], "sizeof"))
        cases.append(("macro-member-named-once:%s:sizeof" % mname, mk("a" / C.Byte, g=C.GreedyBytes), None, ["g"], "sizeof"))
    # an explicit Error inside an alternative passes through Select / Optional with the full chain, in both directions
    for aname, alt, val, chain in (("struct-alt", lambda: C.Select(C.Struct("x" / C.Error), C.Byte), dict(x=None), ["x"]),
                                   ("named-alt", lambda: C.Select(first=C.Struct("k" / C.Byte, "x" / C.Error), second=C.Byte), dict(k=1, x=None), ["first", "x"]),
                                   ("later-alt", lambda: C.Select(C.Const(b"Z"), "alt" / C.Struct("x" / C.Error)), dict(x=None), ["alt", "x"]),
                                   ("optional", lambda: C.Optional(C.Struct("x" / C.Error)), dict(x=None), ["x"])):
        for wname, wrap, pre, mkval in (("direct", lambda x: C.Struct("a" / x), ["a"], lambda v: dict(a=v)),
                                        ("nested", lambda x: C.Struct("h" / C.Byte, "msg" / C.Struct("sel" / x, "t" / C.Byte)), ["msg", "sel"], lambda v: dict(h=1, msg=dict(sel=v, t=2))),
                                        ("array", lambda x: C.Struct("xs" / C.Array(2, "e" / C.Struct("f" / x))), ["xs", "e", "f"], lambda v: dict(xs=[dict(f=v), dict(f=v)]))):
            cases.append(("explicit-error-through-select:%s:%s" % (aname, wname), wrap(alt()), b"\x01\x02\x03\x04", pre + chain, "parse"))
            cases.append(("explicit-error-through-select:%s:%s" % (aname, wname), wrap(alt()), mkval(val), pre + chain, "build"))
    for label, d, arg, chain, how in cases:
        ctx.ev()
        case = {"op": "explicit-parse-failure", "label": label}
        try:
            if how == "parse":
                d.parse(arg)
            elif how == "parse_stream":
                d.parse_stream(arg)
            elif how == "sizeof":
                d.sizeof()
            else:
                d.build(arg)
            ctx.count("explicit_failure_accepted:" + label)
        except C.ConstructError as e:
            check_path(ctx, e, "(building)" if how == "build" else "(sizeof)" if how == "sizeof" else "(parsing)", chain, how if how in ("build", "sizeof") else "parse", case, label)
            ctx.count("explicit_failures")
        except Exception as e:
            ctx.violation("%s-error-not-a-ConstructError:%s" % ("build" if how == "build" else "parse", type(e).__name__), "%s: raised %s: %s" % (label, type(e).__name__, str(e)[:120]), case)
        ctx.nontrivial("explicit-failure", label)


def dedupe_members(active):
    """names of the active named members, each member once: a member wrapped twice (name wrapper + docstring wrapper, i.e.
    a Renamed whose subcon is the next Renamed) is one member"""
    out = []
    prev = None
    for ev in active:
        nm = ev[2]
        if nm is None:
            continue
        con = ev[9]
        if prev is not None and out and out[-1] == nm and object.__getattribute__(prev, "__dict__").get("subcon") is con:
            prev = con
            continue
        out.append(nm)
        prev = con
    return out


def lazy_truncations(ctx):
    """LazyStruct reads only what it must (the length / count fields of length-prefixed members): a truncation that cuts such a
    field is reported inside that member, under the names of the enclosing members"""
    import construct as C
    rec = C.LazyStruct("a" / C.Byte, "p" / C.Prefixed(C.Int16ub, C.GreedyBytes), "q" / C.PrefixedArray(C.Byte, C.Int16ub), "t" / C.Byte)
    plain = C.Struct("a" / C.Byte, "p" / C.Prefixed(C.Int16ub, C.GreedyBytes), "q" / C.PrefixedArray(C.Byte, C.Int16ub), "t" / C.Byte)
    for wrap, names, mkd, head in (("top", [], lambda r: r, b""), ("nested", ["hdr", "rec"], lambda r: C.Struct("hdr" / C.Struct("k" / C.Byte, "rec" / r), "z" / C.Byte), b"\x4b"),
                                   ("array", ["recs"], lambda r: C.Struct("recs" / C.Array(2, r)), b"")):
        d = mkd(rec)
        for plen in (0, 3):
            for qn in (0, 2):
                one = plain.build(dict(a=1, p=b"x" * plen, q=[7] * qn, t=9))
                enc = head + one * (2 if wrap == "array" else 1) + (b"\x05" if wrap == "nested" else b"")
                # offsets (within the first record) of the fields the lazy parse has to read: p's length (2 bytes at 1), q's count (1 byte)
                base = len(head)
                # (PrefixedArray is a FocusedSeq of the members "count" and "items": its own member names belong to the chain)
                # named members are measured through their name wrapper, which has no size for a length-prefixed member: they are parsed in full
                need = [(base + 1, base + 3 + plen, ["p"]), (base + 3 + plen, base + 4 + plen, ["q", "count"]), (base + 4 + plen, base + 4 + plen + 2 * qn, ["q", "items"])]
                for t in range(len(head), len(enc)):
                    want = None
                    for lo, hi, nm in need:
                        if t < hi:
                            want = names + nm
                            break
                    if want is None:
                        continue
                    ctx.ev()
                    case = {"op": "lazy-truncation", "wrap": wrap, "encoding": tag(enc), "cut": t}
                    try:
                        d.parse(enc[:t])
                        ctx.count("truncation_accepted")
                        continue
                    except C.ConstructError as e:
                        check_path(ctx, e, "(parsing)", want, "parse", case, "lazy record truncated at %d of %d (inside the length/count field of %s)" % (t, len(enc), want[-1]))
                    except Exception:
                        ctx.count("truncation_foreign_exception")
                        continue
                    ctx.nontrivial("lazy-trunc", wrap, plen, qn, t)
    ctx.count("lazy_truncation_families")


def _unsized_forms():
    """members whose size cannot be determined: inherently, or because a parameter refers to a context entry that is absent
    while sizing - spelled as this.key, as a callable using attribute access and as a callable using item access"""
    from .c05 import slots
    out = [["name", "VarInt"], ["Prefixed", ["name", "VarInt"], B, False]]
    for e in (["this", "nosuchkey"], ["lam", "nosuchkey"], ["lamitem", "nosuchkey"], ["this", "_", "nosuchkey"], ["lam", "_params", "nosuchkey"]):
        for label, x in slots(e):
            if label.split(".")[0] in ("Bytes", "BytesInteger", "PaddedString", "Padding", "Padded", "Aligned", "FixedSized", "Array", "IfThenElse", "If", "Switch", "Array(Array)",
                                       "Padded(Padded)", "Struct/Bytes", "PaddedString16", "Switch.key+default") or label == "Switch.key+default":
                out.append(x)
    return out


UNSIZED = _unsized_forms()


def first_unsized_chain(r, prefix=()):
    """chain of names to the first member (in declaration order) whose size the library cannot determine, following the
    library's evaluation order; None if the model cannot tell"""
    k = r[0]

    def sized(x):
        try:
            M.size(x, M.top_scope({}))
            return True
        except Exception:
            return False
    if k in ("Struct", "Sequence"):
        for nm, m in r[1]:
            nm2, inner = (m[1], m[2]) if (nm is None and m[0] == "Renamed") else (nm, m)
            if not sized(inner):
                p2 = prefix + ((nm2,) if nm2 else ())
                deeper = first_unsized_chain(inner, p2)
                return deeper if deeper is not None else p2
        return None
    def resolves(e):
        try:
            M.ev(e, M.top_scope({}))
            return True
        except Exception:
            return False
    if k in ("Array", "IfThenElse", "Switch") and not resolves(r[1]):
        return prefix                      # the count / condition / key itself cannot be evaluated: this member is the failing one
    if k == "Array":
        return first_unsized_chain(r[2], prefix) if not sized(r[2]) else None
    if k == "Prefixed":
        if not sized(r[1]):
            return prefix
        return first_unsized_chain(r[2], prefix) if not sized(r[2]) else None
    if k == "FixedSized":
        return None
    if k == "IfThenElse":
        b = r[2] if M.ev(r[1], M.top_scope({})) else r[3]
        return first_unsized_chain(b, prefix) if not sized(b) else None
    if k == "Switch":
        key = M.ev(r[1], M.top_scope({}))
        hit = [c for ck, c in r[2] if ck == key]
        b = hit[0] if hit else (r[3] if len(r) > 3 and r[3] is not None else ["name", "Pass"])
        return first_unsized_chain(b, prefix) if not sized(b) else None
    return prefix if not sized(r) else None


def run(ctx):
    rng = ctx.rng
    monitors.MEMBERS.install()
    if ctx.index == 0:
        lazy_truncations(ctx)
    if ctx.index == 1 % ctx.nworkers:
        region_end_failures(ctx)
    if ctx.index == 2 % ctx.nworkers:
        explicit_parse_failures(ctx)
    n = ctx.pick(4000, 60000) // ctx.nworkers
    for i in range(n):
        g = ShapeGen(rng, rng.choice([2, 3, 3, 4]))
        r = g.top()
        run_shape(ctx, rng, r)
        ctx.count("shapes")
        if i < 2 and ctx.index < 2:
            ctx.sample({"shape": r})


def replay(ctx, case):
    if case.get("op") == "lazy-truncation":
        return lazy_truncations(ctx)
    if case.get("op") == "region-end":
        return region_end_failures(ctx)
    if case.get("op") == "explicit-parse-failure":
        return explicit_parse_failures(ctx)
    import random
    monitors.MEMBERS.install()
    run_shape(ctx, random.Random(0), case["recipe"])
