"""C06 - malformed, truncated or failing input is always reported as ConstructError.

Three monitors (fault enumeration):
 (a) exception type + termination: arbitrary bytes -> returns or raises a ConstructError subclass, within a logical
     step budget (sys.monitoring call counter + traced-stream operation counter; exceeding it raises a BaseException
     that the library's `except Exception` handlers cannot swallow);
 (b) strict prefixes: for constructs without greedy/optional/look-ahead parts EVERY truncation offset of every
     canonical encoding must be rejected with StreamError;
 (c) stream faults: the fault-free run is recorded on a traced stream, then EVERY index k of every operation kind is
     re-run with each fault kind (raise OSError / raise ValueError / short read / short write / non-seekable /
     non-tellable), for parse and for build: the outcome must be StreamError or - when the fault did no harm - the
     fault-free result; constructs with error-absorbing members are held to "no foreign exception" only.
"""
import io
from ..common import tag, untag, raise_site
from ..recipes import mk, shape
from ..streams import TracedStream, BudgetExceeded, FAULT_KINDS
from .. import refmodel as M
from .. import monitors
from ..gen import Gen, genval
from ..libmodel import lib_build, kinds_in, top_kind
from ..veq import veq

LEVEL = "fault_enumeration"
RULE = ("core-fragment recipes from the typed grammar (no user callbacks, no third-party codecs) plus explicit data-dependent repeaters plus every parameter "
        "slot of every class fed from a u8/s8/VarInt field parsed just before it (n, n-3, n*n, n%5; every value of the field); (a) x random, "
        "boundary-biased, mutated-canonical inputs and zero/huge length fields, parsed through io.BytesIO and through the traced stream under a step "
        "budget linear in input length x recipe size; (b) every truncation offset of every canonical encoding of the strict sub-grammar and of explicit strict formats (Unions ending at their longest "
        "member, FocusedSeq, streamed bit regions with validated sub-byte fields), each tried again on the same object after calls on inputs rejected part-way through a byte; (c) every "
        "index k of every stream operation kind x 3 fault kinds, for parse and build. non-trivial = (a) an input the library rejected, (b) a "
        "truncation strictly inside a member, (c) a delivered fault; distinct by (recipe shape, monitor, input/fault class)")
ASSUMPTIONS = ["a 0-byte answer to read(1) is end-of-file, not a fault; short reads are injected on reads of >= 2 bytes",
               "constructs containing Select/Optional/GreedyRange/Peek/NullTerminated(require=False) absorb failures by contract: only 'no foreign exception' is required of them under faults",
               "wall clock never decides: the step budget does; the per-worker watchdog firing is inconclusive"]
REQUIRED_ANCHORS = ["core:stream_read", "core:stream_write", "core:stream_seek", "core:stream_tell", "core:stream_read_entire", "core:FormatField._parse",
                    "core:BytesInteger._parse", "core:StringEncoded._decode", "core:Mapping._decode", "core:GreedyRange._parse", "core:Select._parse",
                    "core:Terminated._parse", "core:Padded._parse", "core:Aligned._parse", "core:Prefixed._parse", "core:NullTerminated._parse"]
ANCHORS = REQUIRED_ANCHORS
ABSORBING = {"Select", "Optional", "GreedyRange", "Peek", "NullStripped"}
B = ["name", "Byte"]


def recipe_size(r):
    n = 1
    if isinstance(r, list):
        for x in r:
            if isinstance(x, list):
                n += recipe_size(x)
    return n


def site_key(e):
    return "%s@%s" % (type(e).__name__, raise_site(e))


# ---------------------------------------------------------------------------- (a)
def parse_guarded(ctx, d, r, data, kw, case, via):
    """-> 'ok' | 'rejected' | None(violation)"""
    import construct as C
    budget = min(400000, 6000 + 40 * (len(data) + 2) * recipe_size(r))
    ctx.ev()
    try:
        with monitors.STEPS(budget):
            if via == "bytesio":
                d.parse(data, **kw)
            else:
                d.parse_stream(TracedStream(data, budget=20 * budget, keeplog=False), **kw)
        return "ok"
    except C.ConstructError:
        return "rejected"
    except BudgetExceeded as e:
        if "GreedyRange" in kinds_in(r) and kinds_in(r) & {"LazyStruct", "LazyArray", "Lazy"} and runs_past_end(d, data, kw):
            ctx.violation("greedy-repeater-over-lazy-element-never-ends", "parse did not finish within %d call steps on %d input bytes: the repeater's element is skipped by its size instead of being read, "
                          "so it never fails (400,000 further call steps did not end it either)" % (budget, len(data)), dict(case, via=via))
            return None
        verdict = second_look(d, data, kw)
        if verdict == "finished":
            # e.g. a count field of a few hundred zero-width elements: slow relative to the input length, but it ends
            ctx.count("a_exceeded_linear_budget_but_terminated")
            return "ok"
        key = "repeater-zero-width-element-no-progress" if verdict == "noprogress" else "nontermination:" + nonterm_key(r)
        ctx.violation(key, "parse did not finish within %d call steps (nor within 3,000,000 on a second look) on %d input bytes%s" % (budget, len(data),
                      "; the stream position no longer advances: a repeater keeps parsing an element that consumes nothing" if verdict == "noprogress" else ""), dict(case, via=via))
        return None
    except RecursionError:
        ctx.count("recursion_error")
        return None
    except Exception as e:
        ctx.violation("foreign-exception:" + site_key(e), "parse(%s) raised %s: %s" % (data[:40].hex(), type(e).__name__, str(e)[:200]), dict(case, via=via))
        return None


def runs_past_end(d, data, kw):
    """a cheap classifier for repeaters over lazily skipped elements (the caller has checked the recipe's structure): a second run
    with 400,000 call steps / 200,000 stream operations does not end either"""
    s = TracedStream(data, budget=200000, keeplog=False)
    try:
        with monitors.STEPS(400000):
            d.parse_stream(s, **kw)
        return False
    except BudgetExceeded:
        # (inside a length-limited region the element skips about in the region's own buffer: the outer position does not move)
        return True
    except Exception:
        return False


def second_look(d, data, kw):
    """after the linear budget was exceeded: re-run with a 3,000,000-step budget on a traced stream.
    -> 'finished' | 'noprogress' (the last 300 stream operations all at one position: a repeater is parsing a zero-width
       element over and over) | 'progress'"""
    s = TracedStream(data, budget=400000)
    try:
        with monitors.STEPS(3000000):
            d.parse_stream(s, **kw)
        return "finished"
    except BudgetExceeded:
        tail = s.log[-300:]
        if len(tail) >= 300 and len(set((e[3], e[4]) for e in tail)) == 1:
            return "noprogress"
        return "progress"
    except Exception:
        return "finished"


def nonterm_key(r):
    ks = kinds_in(r)
    rep = sorted(ks & {"GreedyRange", "RepeatUntil", "Array", "PrefixedArray"})
    return "+".join(rep) or top_kind(r)


def hostile_inputs(rng, canon, n):
    outs = []
    for b in canon[:4]:
        outs.append(b)
        for _ in range(n // 8):
            outs.append(mutate(rng, b))
        # length/count fields forced to zero and to huge values: every byte position in turn
        for j in range(min(len(b), 12)):
            outs.append(b[:j] + b"\x00" + b[j + 1:])
            outs.append(b[:j] + b"\xff" + b[j + 1:])
            outs.append(b[:j] + b"\xff\xff\xff\xff\xff\xff\xff\xff\xff\x7f" + b[j + 1:])     # a 2^70-ish VarInt
            outs.append(b[:j] + b"\x80" * 30 + b[j + 1:])
    for _ in range(n // 3):
        L = rng.choice([0, 1, 2, 3, 5, 8, 13, 40])
        outs.append(bytes(rng.choice([0, 0, 1, 2, 0x7f, 0x80, 0xff, 0xff, rng.getrandbits(8)]) for _ in range(L)))
    outs += [b"", b"\x00" * 64, b"\xff" * 64, b"\x80" * 64, b"\x01" * 64, bytes(range(256))]
    return outs


def mutate(rng, b):
    if not b:
        return bytes([rng.getrandbits(8)])
    j = rng.randrange(len(b))
    c = rng.random()
    if c < 0.4:
        return b[:j] + bytes([b[j] ^ (1 << rng.randrange(8))]) + b[j + 1:]
    if c < 0.6:
        return b[:j]
    if c < 0.8:
        return b[:j] + bytes([rng.getrandbits(8)]) + b[j:]
    return b[:j] + b[j + 1:]


EXPLICIT = [
    # repeaters whose element width comes from the data (legitimate formats; may be zero-width for some inputs)
    (["Struct", [["n", B], ["xs", ["GreedyRange", ["Bytes", ["this", "n"]]]]]], {}),
    (["Struct", [["n", B], ["xs", ["RepeatUntil", ["bin", "==", ["fn", "len", ["obj"]], 0], ["Array", ["this", "n"], B]]]]], {}),
    (["GreedyRange", ["Optional", ["Const", 7, B]]], {}),
    # repeaters over elements that are skipped by their size instead of being read
    (["GreedyRange", ["LazyStruct", [["a", B], ["b", ["name", "Int16ub"]]]]], {}),
    (["Struct", [["h", B], ["xs", ["Prefixed", B, ["GreedyRange", ["Lazy", ["name", "Int16ub"]]], False]]]], {}),
    (["GreedyRange", ["LazyArray", 2, B]], {}),
    (["GreedyRange", ["Select", [["Const", tag(b"AB"), None], ["name", "Int16ub"]]]], {}),
    (["PrefixedArray", ["name", "VarInt"], ["Struct", [["a", ["Padding", 0]]]]], {}),
    (["Struct", [["n", ["name", "VarInt"]], ["xs", ["Array", ["this", "n"], ["Bytes", 0]]]]], {}),
    (["GreedyRange", ["Prefixed", B, ["GreedyRange", B]]], {}),
    (["GreedyRange", ["PascalString", ["name", "VarInt"], "utf8"]], {}),
    (["Struct", [["a", ["Prefixed", ["name", "VarInt"], ["GreedyRange", ["CString", "utf16"]]]], ["t", ["name", "Terminated"]]]], {}),
    (["Sequence", [[None, ["Peek", ["name", "Int32ub"]]], [None, ["Pointer", 2, B]], [None, ["name", "Terminated"]]]], {}),
    (["Struct", [["o", ["name", "VarInt"]], ["p", ["Pointer", ["this", "o"], ["name", "Int16ub"]]]]], {}),
    (["Struct", [["o", ["name", "Int8sb"]], ["p", ["Pointer", ["this", "o"], B]], ["s", ["Seek", ["this", "o"], 1]]]], {}),
    (["Bitwise", ["Struct", [["w", ["name", "Nibble"]], ["v", ["BitsInteger", ["this", "w"], False, False]]]]], {}),
    (["Bitwise", ["GreedyRange", ["BitsInteger", 3, False, False]]], {}),
    (["Bitwise", ["Struct", [["n0", ["name", "Nibble"]], [None, ["Padding", 4]], ["xs", ["Array", ["this", "n0"], ["BitsInteger", 16, False, True]]], ["d", ["Bytewise", ["Bytes", ["this", "n0"]]]]]]], {}),
    (["Struct", [["h", B], ["b", ["BitsSwapped", ["Struct", [["n", B], ["d", ["Bytes", ["this", "n"]]]]]]], ["t", B]]], {}),
    (["Bitwise", ["Struct", [["w", ["BitsInteger", 3, False, False]], ["rest", ["name", "GreedyBytes"]]]]], {}),
    (["BitsSwapped", ["Struct", [["n", B], ["d", ["Bytes", ["this", "n"]]]]]], {}),
    (["Struct", [["n", B], ["u", ["Union", 0, [["a", ["Bytes", ["this", "_", "n"]]], ["b", ["name", "Int16ub"]]]]]]], {}),
    (["LazyStruct", [["n", B], ["d", ["Prefixed", B, ["name", "GreedyBytes"]]], ["v", ["name", "VarInt"]]]], {}),
    # deferred parsing with members skipped by their size BEHIND members that have to be read (every skip is a seek that can fail)
    (["LazyStruct", [["n", B], ["d", ["Prefixed", B, ["name", "GreedyBytes"]]], ["v", ["name", "VarInt"]], ["w", ["name", "Int16ub"]], ["t", B]]], {}),
    (["Struct", [["h", B], ["zs", ["LazyArray", 3, ["name", "Int16ub"]]], ["t", ["name", "Int16ub"]]]], {}),
    (["Struct", [["h", B], ["z", ["Lazy", ["name", "Int32ub"]]], ["y", ["Lazy", ["Prefixed", B, ["name", "GreedyBytes"], False]]], ["t", B]]], {}),
    (["LazyArray", 2, ["Prefixed", B, ["name", "GreedyBytes"], False]], {}),
    (["Struct", [["r", ["RawCopy", ["PascalString", B, "utf8"]]], ["c", ["Checksum", B, "sum8", ["this", "r", "data"]]]]], {}),
    (["FixedSized", 4, ["NullStripped", ["GreedyString", "utf_32_be"], tag(b"\x00\x00\x00\x00")]], {}),
    (["OffsettedEnd", -2, ["GreedyRange", ["name", "Int16ul"]]], {}),
    (["ProcessRotateLeft", 3, 2, ["GreedyRange", ["name", "Int16ub"]]], {}),
    (["Struct", [["k", B], ["x", ["ProcessXor", ["this", "k"], ["CString", "utf8"]]]]], {}),
    (["NullTerminated", ["GreedyRange", ["name", "Int16ub"]], tag(b"\x00"), True, False, False], {}),
    (["Hex", ["name", "VarInt"]], {}), (["HexDump", ["Prefixed", B, ["name", "GreedyBytes"]]], {}),
    # text codecs other than the usual ones: they signal malformed input with exception types of their own (UnicodeError, ValueError,
    # LookupError for codecs that are not text encodings)
    (["GreedyString", "punycode"], {}), (["PascalString", B, "idna"], {}), (["GreedyString", "utf_7"], {}), (["PascalString", ["name", "VarInt"], "unicode_escape"], {}),
    (["GreedyString", "raw_unicode_escape"], {}), (["PascalString", B, "hex"], {}), (["GreedyString", "base64"], {}), (["PascalString", B, "cp037"], {}),
    (["Struct", [["a", ["PascalString", B, "punycode"]], ["b", ["PascalString", B, "idna"]], ["c", ["GreedyString", "utf_16"]]]], {}),
    # bit-level fields used directly on a byte stream (each byte read stands for one bit, whatever its value)
    (["name", "Nibble"], {}), (["BitsInteger", 12, True, False], {}), (["Struct", [["a", ["name", "Bit"]], ["b", ["name", "Octet"]], ["c", ["BitsInteger", 16, False, True]]]], {}),
    (["Array", 3, ["name", "Bit"]], {}),
    # values of the library's own result types (bytes / str subclasses, tuples, containers) flowing on into other constructs
    (["Struct", [["blob", ["Hex", ["Prefixed", B, ["name", "GreedyBytes"], False]]], ["x", ["RestreamData", ["this", "blob"], ["name", "Int16ub"]]]]], {}),
    (["Struct", [["blob", ["HexDump", ["Bytes", 2]]], ["x", ["RestreamData", ["this", "blob"], ["Struct", [["a", B], ["b", ["OneOf", B, [1, 2]]]]]]], ["t", B]]], {}),
    (["Struct", [["blob", ["Hex", ["Bytes", 2]]], ["x", ["RestreamData", ["this", "blob"], ["name", "Int32ub"]]]]], {}),
    (["OneOf", ["NamedTuple", "point", "x y", ["Array", 2, B]], [{"t": [1, 2]}, {"t": [0, 0]}]], {}),
    (["NoneOf", ["NamedTuple", "point", "x y z", ["Struct", [["x", B], ["y", B], ["z", B]]]], [{"t": [0, 0, 0]}]], {}),
    (["ExprValidator", ["NamedTuple", "pair", "a b", ["Array", 2, B]], ["bin", "==", ["obj", 0], 1]], {}),
    (["OneOf", ["Array", 2, B], [[1, 2], [3, 4]]], {}), (["NoneOf", ["Sequence", [[None, B], [None, ["name", "Int16ub"]]]], [[0, 0]]], {}),
    (["OneOf", ["Hex", ["Bytes", 2]], [tag(b"ab")]], {}), (["OneOf", ["Enum", B, [["a", 1], ["b", 2]]], ["a"]], {}), (["OneOf", ["PascalString", B, "utf8"], ["ok", "%s", "%d%d"]], {}),
    (["Struct", [["k", ["Hex", ["Bytes", 2]]], ["x", ["ProcessXor", ["this", "k"], ["Bytes", 4]]]]], {}),
    (["Struct", [["e", ["Enum", B, [["a", 1], ["b", 2]]]], ["x", ["Switch", ["this", "e"], [["a", B], ["b", ["name", "Int16ub"]]], None]]]], {}),
    (["Struct", [["r", ["RawCopy", ["Hex", ["Bytes", 2]]]], ["c", ["Checksum", B, "sum8", ["this", "r", "data"]]], ["c2", ["Checksum", B, "sum8", ["this", "r", "value"]]]]], {}),
    (["Struct", [["e", ["Enum", ["name", "VarInt"], [["a", 1]]]], ["f", ["FlagsEnum", ["name", "Int24ul"], [["x", 1]]]], ["m", ["Mapping", B, [["p", 0]]]]]], {}),
]


def monitor_a(ctx, rng):
    n = ctx.pick(3000, 60000) // ctx.nworkers
    nin = ctx.pick(100, 300)
    jobs = [(r, kw, True) for r, kw in EXPLICIT if True]
    for i, (r, kw, _) in enumerate(jobs):
        if ctx.mine(i):
            run_a(ctx, rng, r, kw, nin * 2)
    monitor_a_slots(ctx, rng)
    for i in range(n):
        g = Gen(rng, maxdepth=rng.choice([1, 2, 2, 3]), fragment="core")
        try:
            r = g.recipe()
        except (M.ModelGap, M.MissingKey, M.Unsized):
            continue
        run_a(ctx, rng, r, dict(g.kw), nin)
        if i < 1 and ctx.index < 3:
            ctx.sample({"monitor": "a", "recipe": r})


def monitor_a_slots(ctx, rng):
    """every parameter slot of every class fed from a field parsed just before it (the way real formats carry lengths, counts,
    selectors, offsets, keys and amounts), for every value of that field"""
    from .c05 import slots
    heads = [("u8", B, [bytes([x]) for x in range(256)]), ("s8", ["name", "Int8sb"], [bytes([x]) for x in range(256)]),
             ("varint", ["name", "VarInt"], [b"\x00", b"\x01", b"\x7f", b"\x80\x01", b"\xff\x7f", b"\xff\xff\x03"])]       # up to 65535: larger counts only cost time and memory
    exprs = [("n", ["this", "n"]), ("n-3", ["bin", "-", ["this", "n"], 3]), ("n*n", ["bin", "*", ["this", "n"], ["this", "n"]]), ("n%5", ["bin", "%", ["this", "n"], 5])]
    tails = [b"", b"\x00" * 40, bytes(range(1, 41)), b"\xff" * 40]
    k = 0
    for hname, head, hvals in heads:
        for ename, e in exprs:
            for label, x in slots(e):
                k += 1
                if not ctx.mine(k):
                    continue
                # not valid parameterisations: the expression sits one structure deeper than the field; a member selector /
                # predicate / checksum input that is an arbitrary integer; an XOR key outside 0..255
                if label in ("Struct/Bytes.length", "FocusedSeq.parsebuildfrom", "Union.parsefrom", "RepeatUntil.predicate", "Checksum.bytesfunc", "AlignedStruct.modulus"):
                    continue
                if (hname == "varint" or label == "LazyArray.count") and ename == "n*n":
                    continue          # up to 2^32 elements / table entries: resource use, not a verdict
                if label == "ProcessXor.key" and not (hname == "u8" and ename in ("n", "n%5")):
                    continue
                for r in (["Struct", [["n", head], ["x", x], ["t", B]]], ["Sequence", [["n", head], [None, ["Prefixed", B, x, False]]]]):
                    try:
                        d = mk(r)
                    except Exception:
                        ctx.count("recipe_not_constructible")
                        continue
                    rejected = 0
                    for hv in hvals:
                        for ti, tail in enumerate(tails):
                            data = hv + (tail if r[0] == "Struct" else bytes([len(tail)]) + tail)
                            res = parse_guarded(ctx, d, r, data, {}, {"monitor": "a", "recipe": r, "kw": {}, "input": tag(data)}, "bytesio" if ti % 2 else "traced")
                            if res is None:
                                break
                            rejected += res == "rejected"
                        else:
                            continue
                        break
                    ctx.count("a_slot_inputs_rejected", rejected)
                    if rejected:
                        ctx.nontrivial("slot", label, hname, ename, r[0])
                ctx.count("a_slot_constructs")


def run_a(ctx, rng, r, kw, nin):
    try:
        d = mk(r)
    except Exception:
        ctx.count("recipe_not_constructible")
        return
    canon = []
    for _ in range(4):
        try:
            v = genval(r, rng, M.top_scope(dict(kw)))
        except Exception:
            break
        lb = lib_build(d, v, kw)
        if lb[0] == "ok":
            canon.append(lb[1])
    rejected = 0
    for k, data in enumerate(hostile_inputs(rng, canon, nin)):
        case = {"monitor": "a", "recipe": r, "kw": kw, "input": tag(data)}
        res = parse_guarded(ctx, d, r, data, kw, case, "bytesio" if k % 2 == 0 else "traced")
        if res is None:
            break
        if res == "rejected":
            rejected += 1
    ctx.count("a_inputs_rejected", rejected)
    ctx.count("a_recipes")
    if rejected:
        ctx.nontrivial("a", shape(r))


# ---------------------------------------------------------------------------- (b)
def monitor_b(ctx, rng):
    import construct as C
    n = ctx.pick(2000, 30000) // ctx.nworkers
    for i in range(n):
        g = Gen(rng, maxdepth=rng.choice([1, 2, 3, 3]), fragment="core", strict=True)
        try:
            r = g.recipe()
            d = mk(r)
        except Exception:
            continue
        kw = dict(g.kw)
        for _ in range(2):
            try:
                v = genval(r, rng, M.top_scope(dict(kw)))
            except Exception:
                break
            lb = lib_build(d, v, kw)
            if lb[0] != "ok":
                continue
            truncations(ctx, r, d, kw, lb[1])
        if i < 1 and ctx.index < 2:
            ctx.sample({"monitor": "b", "recipe": r, "all_truncation_offsets": True})
    # explicit strict formats the grammar does not produce: a Union that ends at its longest member (selected by name, index or
    # expression; the other members look no further), FocusedSeq, nested scopes
    I16, I32, I24 = ["name", "Int16ub"], ["name", "Int32ub"], ["name", "Int24ub"]
    explicit = [
        (["Struct", [["u", ["Union", "b", [["a", I16], ["b", I32]]]], ["t", I16]]], {"u": {"b": 0x01020304}, "t": 5}, {}),
        (["Struct", [["u", ["Union", 1, [[None, ["Const", tag(b"\x01"), None]], ["b", I24]]]], ["t", B]]], {"u": {"b": 0x010203}, "t": 5}, {}),
        (["Sequence", [[None, B], [None, ["Union", ["this", "_params", "sel"], [["a", B], ["b", I32], ["c", I16]]]], [None, I16]]], [7, {"b": 0x01020304}, 9], {"sel": "b"}),
        (["Struct", [["h", B], ["u", ["Union", "w", [["v", ["Struct", [["x", B], ["y", B]]]], ["w", ["Struct", [["n", B], ["d", ["Bytes", 3]]]]]]]], ["t", I16]]], {"h": 1, "u": {"w": {"n": 1, "d": b"abc"}}, "t": 2}, {}),
        (["FocusedSeq", "v", [["n", B], ["v", ["Bytes", ["this", "n"]]], [None, ["Const", tag(b"\xfe"), None]]]], None, {}),
        # streamed bit regions with a validated sub-byte field (a rejected input leaves a half-read byte behind)
        (["Bitwise", ["Struct", [["k", ["OneOf", ["name", "Nibble"], [1, 2]]], ["c", ["name", "Nibble"]], ["xs", ["Array", ["this", "c"], ["name", "Octet"]]]]]], {"k": 1, "c": 2, "xs": [0xab, 0xcd]}, {}),
        (["Bitwise", ["Struct", [["k", ["OneOf", ["name", "Nibble"], [1, 2]]], ["c", ["name", "Nibble"]], ["xs", ["Array", ["this", "c"], ["name", "Nibble"]]]]]], {"k": 1, "c": 2, "xs": [0xa, 0xb]}, {}),
        (["Bitwise", ["Struct", [["k", ["OneOf", ["name", "Nibble"], [1, 2]]], ["c", ["name", "Nibble"]], ["xs", ["Array", ["this", "c"], ["name", "Nibble"]]]]]], {"k": 2, "c": 4, "xs": [1, 2, 3, 4]}, {}),
        (["Bitwise", ["Struct", [["f", ["OneOf", ["BitsInteger", 2, False, False], [1]]], ["n", ["BitsInteger", 2, False, False]], ["xs", ["Array", ["bin", "*", ["this", "n"], 2], ["BitsInteger", 2, False, False]]]]]], {"f": 1, "n": 2, "xs": [1, 2, 3, 0]}, {}),
        (["Struct", [["h", B], ["b", ["Bitwise", ["Struct", [["k", ["OneOf", ["BitsInteger", 3, False, False], [1, 5]]], ["c", ["BitsInteger", 5, False, False]], ["xs", ["Array", ["this", "c"], ["BitsInteger", 16, False, True]]]]]]], ["t", B]]],
         {"h": 7, "b": {"k": 5, "c": 1, "xs": [0x1234]}, "t": 9}, {}),
        (["BitsSwapped", ["Struct", [["n", ["OneOf", B, [1, 2, 3]]], ["d", ["Bytes", ["this", "n"]]]]]], {"n": 2, "d": b"xy"}, {}),
    ]
    for i, (r, v, kw) in enumerate(explicit):
        if not ctx.mine(i):
            continue
        d = mk(r)
        if v is None:
            e = b"\x03abc\xfe"
        else:
            lb = lib_build(d, v, kw)
            if lb[0] != "ok":
                ctx.count("b_explicit_not_buildable")
                continue
            e = lb[1]
        truncations(ctx, r, d, kw, e)


def truncations(ctx, r, d, kw, e):
    import construct as C
    if True:
        if True:
            try:
                d.parse(e, **kw)
            except Exception:
                ctx.count("b_canonical_not_parseable")     # C01's subject
                return
            for t in range(len(e)):
                ctx.ev()
                case = {"monitor": "b", "recipe": r, "kw": kw, "encoding": tag(e), "cut": t}
                try:
                    res = d.parse(e[:t], **kw)
                    ctx.violation("truncated-input-accepted:" + trunc_key(r, e, t, kw), "the first %d of %d bytes of a canonical encoding were accepted -> %r" % (t, len(e), res), case)
                    break
                except C.StreamError:
                    pass
                except C.ConstructError as x:
                    ctx.violation("truncation-not-StreamError:%s:%s" % (type(x).__name__, trunc_key(r, e, t, kw)), "cut at %d of %d: raised %s instead of StreamError: %s" % (t, len(e), type(x).__name__, str(x)[:150]), case)
                    break
                except Exception as x:
                    ctx.violation("foreign-exception:" + site_key(x), "cut at %d of %d: raised %s: %s" % (t, len(e), type(x).__name__, str(x)[:150]), case)
                    break
            # the same truncations once more on the same construct object, each preceded by inputs that are rejected part-way through
            # a byte / a field (what a rejected call leaves behind must not turn a strict prefix into an accepted input)
            poisons = [bytes([e[0] ^ m]) + e[1:] for m in (0x30, 0x03, 0xf0, 0x81)] + [e[:1], bytes([e[0] ^ 0x20])] if e else []
            for t in range(len(e)):
                for pz in poisons[t % 2::2]:
                    try:
                        d.parse(pz, **kw)
                    except Exception:
                        pass
                ctx.ev()
                case = {"monitor": "b", "recipe": r, "kw": kw, "encoding": tag(e), "cut": t, "after_rejected_inputs": True}
                try:
                    res = d.parse(e[:t], **kw)
                    ctx.violation("truncated-input-accepted-after-rejected-calls:" + trunc_key(r, e, t, kw), "after calls on rejected inputs the same object accepted the first %d of %d bytes -> %r" % (t, len(e), res), case)
                    break
                except C.ConstructError:
                    pass
                except Exception as x:
                    ctx.violation("foreign-exception:" + site_key(x), "cut at %d of %d after rejected calls: raised %s: %s" % (t, len(e), type(x).__name__, str(x)[:150]), case)
                    break
            ctx.count("b_encodings")
            ctx.count("b_truncations", len(e))
            if len(e) > 1:
                ctx.nontrivial("b", shape(r), len(e))


def trunc_key(r, e, t, kw):
    """which construct kinds were involved: the kinds of the recipe that measure padding/regions (mechanism key material)"""
    ks = kinds_in(r)
    inner = [k for k in ("Padded", "Aligned", "AlignedStruct", "FixedSized", "Prefixed", "NullTerminated", "Bitwise", "BitStruct", "PaddedString", "ByteSwapped", "Padding", "Array", "PrefixedArray", "RepeatUntil") if k in ks]
    return "+".join(inner[:3]) or top_kind(r)


# ---------------------------------------------------------------------------- (c)
def outcome_stream(f):
    import construct as C
    try:
        return ("ok", f())
    except C.StreamError:
        return ("streamerror",)
    except C.ConstructError as e:
        return ("constructerror", type(e).__name__)
    except BudgetExceeded as e:
        return ("budget",)
    except Exception as e:
        return ("foreign", site_key(e), str(e)[:150])


def monitor_c(ctx, rng):
    n = ctx.pick(600, 8000) // ctx.nworkers
    extra = [(r, kw) for r, kw in EXPLICIT if not ("GreedyRange" in kinds_in(r) and kinds_in(r) & {"LazyStruct", "LazyArray", "Lazy"})]
    for i in range(n + len(extra)):
        if i < len(extra):
            if not ctx.mine(i):
                continue
            r, kw = extra[i]
        else:
            g = Gen(rng, maxdepth=rng.choice([1, 2, 2, 3]), fragment="core")
            try:
                r = g.recipe()
            except (M.ModelGap, M.MissingKey, M.Unsized):
                continue
            kw = dict(g.kw)
        try:
            d = mk(r)
            v = genval(r, rng, M.top_scope(dict(kw)))
        except Exception:
            if i >= len(extra):
                continue
            v = None
        absorbing = bool(kinds_in(r) & ABSORBING) or "NullTerminated" in kinds_in(r) and "false, true, false" in repr(r).lower()
        lb = lib_build(d, v, kw) if v is not None else ("no",)
        for _ in range(12 if i < len(extra) else 0):
            if lb[0] == "ok":
                break
            try:                    # the explicit recipes always get a buildable value if one can be generated
                v = genval(r, rng, M.top_scope(dict(kw)))
                lb = lib_build(d, v, kw)
            except Exception:
                continue
        if lb[0] == "ok":
            data = lb[1]
        else:
            data = bytes(rng.choice([0, 1, 2, 3, 0x41, 0]) for _ in range(12))
        fault_runs(ctx, d, r, kw, absorbing, "parse", data, None)
        if lb[0] == "ok":
            fault_runs(ctx, d, r, kw, False, "build", None, v)        # absorbing failures is a parse-side contract: no construct may swallow a failing write
        ctx.count("c_recipes")
        if i < len(extra) + 1 and ctx.index < 2:
            ctx.sample({"monitor": "c", "recipe": r, "every_op_index_x_fault_kind": True})


def fault_runs(ctx, d, r, kw, absorbing, direction, data, v):
    def run(fault):
        if direction == "parse":
            s = TracedStream(data + b"\x33\x44", fault=fault, budget=200000)
            res = outcome_stream(lambda: d.parse_stream(s, **kw))
            return res, s
        s = TracedStream(b"", fault=fault, budget=200000)
        res = outcome_stream(lambda: (d.build_stream(v, s, **kw), s.getvalue())[1])
        return res, s
    base, s0 = run(None)
    if base[0] in ("foreign", "budget"):
        return                       # monitor (a)'s subject
    counts = dict(s0.counts)
    if direction == "parse" and base[0] == "ok":
        # a stream that can tell where it is but cannot seek at all (a pipe, a decompressor; seekable() says so from the start): the
        # call either gives the result it gives on a seekable stream or raises StreamError - never another value
        s1 = TracedStream(data + b"\x33\x44", budget=200000)
        s1._noseek = True
        ctx.ev()
        r1 = outcome_stream(lambda: d.parse_stream(s1, **kw))
        ctx.count("c_forward_only_stream_runs")
        if r1[0] == "ok" and not veq(r1[1], base[1]):
            ctx.violation("forward-only-stream-silently-wrong-result", "parse_stream on a stream that cannot seek returned %r, on a seekable stream %r" % (r1[1], base[1]),
                          {"monitor": "c", "recipe": r, "kw": kw, "direction": direction, "fault": ["forward-only"], "input": tag(data), "value": None})
            return
        if r1[0] == "foreign":
            ctx.violation("fault-foreign-exception:seek:%s" % r1[1], "parse_stream on a stream that cannot seek: foreign exception %s: %s" % (r1[1], r1[2]),
                          {"monitor": "c", "recipe": r, "kw": kw, "direction": direction, "fault": ["forward-only"], "input": tag(data), "value": None})
            return
    for op, kinds in FAULT_KINDS.items():
        for k in range(min(counts[op], 40)):
            for fk in kinds:
                ctx.ev()
                res, s = run((fk, op, k))
                case = {"monitor": "c", "recipe": r, "kw": kw, "direction": direction, "fault": [fk, op, k],
                        "input": tag(data) if data is not None else None, "value": tag(v) if v is not None else None}
                if not s.fault_delivered:
                    ctx.count("c_faults_not_delivered")
                    continue
                ctx.count("c_faults_delivered")
                ctx.count("c_fault_%s_%s" % (op, fk))
                ctx.nontrivial("c", shape(r), direction, op, fk, min(k, 6))
                if res[0] == "foreign":
                    ctx.violation("fault-foreign-exception:%s:%s" % (op, res[1]), "%s with %s on %s #%d: foreign exception %s: %s" % (direction, fk, op, k, res[1], res[2]), case)
                    return
                if res[0] == "budget":
                    ctx.violation("fault-nontermination:" + nonterm_key(r), "%s with %s on %s #%d did not finish" % (direction, fk, op, k), case)
                    return
                if absorbing:
                    continue
                if res[0] == "streamerror":
                    continue
                same = res[0] == base[0] and (res[0] != "ok" or (veq(res[1], base[1]) if direction == "parse" else res[1] == base[1]))
                if same and res[0] == "constructerror":
                    continue            # the same rejection as without the fault
                if res[0] == "ok" and same and fk not in ("short",):
                    # the fault was delivered but did no harm?  only possible when the library ignores the failure - that is a silently wrong run
                    ctx.violation("fault-ignored:%s:%s" % (op, fk), "%s: %s on %s #%d was delivered, yet the call returned normally" % (direction, fk, op, k), case)
                    return
                if res[0] == "ok":
                    ctx.violation("fault-silently-wrong-result:%s:%s" % (op, fk), "%s with %s on %s #%d returned %r, fault-free result %r" % (direction, fk, op, k, res[1], base[1]), case)
                    return
                if res[0] == "constructerror":
                    ctx.violation("fault-not-StreamError:%s:%s:%s" % (op, fk, res[1]), "%s with %s on %s #%d raised %s, expected StreamError" % (direction, fk, op, k, res[1]), case)
                    return


def run(ctx):
    import time
    rng = ctx.rng
    t = time.time()
    monitor_a(ctx, rng)
    ctx.notes["seconds_monitor_a_worker%d" % ctx.index] = round(time.time() - t, 1)
    t = time.time()
    monitor_b(ctx, rng)
    ctx.notes["seconds_monitor_b_worker%d" % ctx.index] = round(time.time() - t, 1)
    t = time.time()
    monitor_c(ctx, rng)
    ctx.notes["seconds_monitor_c_worker%d" % ctx.index] = round(time.time() - t, 1)


def gate(counters, tier):
    out = []
    for k in ("a_inputs_rejected", "b_truncations", "c_faults_delivered"):
        if counters.get(k, 0) < 100:
            out.append("monitor counter %s = %d: too few observations" % (k, counters.get(k, 0)))
    return out


def replay(ctx, case):
    d = mk(case["recipe"])
    kw = case.get("kw", {})
    m = case["monitor"]
    if m == "a":
        parse_guarded(ctx, d, case["recipe"], untag(case["input"]), kw, case, case.get("via", "bytesio"))
    elif m == "b":
        import construct as C
        e = untag(case["encoding"])
        try:
            res = d.parse(e[:case["cut"]], **kw)
            ctx.violation("truncated-input-accepted:" + trunc_key(case["recipe"], e, case["cut"], kw), "accepted -> %r" % (res,), case)
        except C.StreamError:
            pass
        except Exception as x:
            ctx.violation("truncation-not-StreamError:%s" % type(x).__name__, repr(x), case)
    else:
        absorbing = bool(kinds_in(case["recipe"]) & ABSORBING)
        if case["direction"] == "parse":
            fault_runs(ctx, d, case["recipe"], kw, absorbing, "parse", untag(case["input"]), None)
        else:
            fault_runs(ctx, d, case["recipe"], kw, absorbing, "build", None, untag(case["value"]))
