"""C07 - context expressions resolve identically when parsing, building and sizing.

A harness-defined construct `Spy` (size 0, builds from nothing - the documented extension API) is placed at every
position of generated nesting shapes and records the context object it is handed: the chain of `_` links, what `x`,
`_index`, `_params`, `_root` and the three flags are at every level, and what the library's own `this` expressions
(this.x, this._.x, this._._.x, this._root.x, this._params.k, this._index, this._._index) evaluate to on it.
Oracle: a scope-chain model maintained by a simulator of the shape (which composite opens a scope, when a member
becomes visible in parse / build / sizeof, which repeater sets _index), plus the expected bytes of dependent
members `Bytes(<path>)` whose length comes from such a path.
"""
import itertools
from ..common import tag

LEVEL = "exploration"
RULE = ("nesting shapes of Struct/Sequence/FocusedSeq/Union/LazyStruct/Array/GreedyRange/RepeatUntil(discard on/off) to depth 3 (quick) / 4 (thorough), "
        "<= 3 members per level, a Spy at every position and dependent members Bytes(path) for paths of length <= 3 over this.x, this._.x, this._._.x, "
        "this._root.x, this._params.k, this._index, this._._index; data members that build derives by itself (Default given nothing), Unions whose first member "
        "builds from nothing, plain nested structures inside LazyStruct (entered through sizeof while parsing); each shape under parse, build and sizeof with keyword arguments. non-trivial = an "
        "observation at depth >= 2 or involving _index/_root/_params below the first level; distinct by (shape, operation)")
ASSUMPTIONS = ["_index left behind by a finished repeater for later siblings is unspecified and not compared", "sibling references inside LazyStruct while parsing are a documented restriction (not compared)",
               "Select is not in the property's list (its build re-enters build with a new top-level context)"]
REQUIRED_ANCHORS = ["core:Struct._parse", "core:Struct._build", "core:Struct._sizeof", "core:Sequence._parse", "core:Sequence._build", "core:Sequence._sizeof", "core:FocusedSeq._parse",
                    "core:FocusedSeq._build", "core:FocusedSeq._sizeof", "core:Union._parse", "core:Union._build", "core:LazyStruct._parse", "core:LazyStruct._build", "core:LazyStruct._sizeof",
                    "core:Array._parse", "core:Array._build", "core:GreedyRange._parse", "core:GreedyRange._build", "core:RepeatUntil._parse", "core:RepeatUntil._build",
                    "core:Construct.parse_stream", "core:Construct.build_stream", "core:Construct.sizeof", "core:evaluate", "expr:Path.__call__"]
ANCHORS = REQUIRED_ANCHORS
MISSING = "<missing>"
ANY = "<unspecified>"
K = 2           # keyword argument k


def make_spy_class():
    import construct as C

    class Spy(C.Construct):
        def __init__(self, sid, log):
            super().__init__()
            self.sid = sid
            self.log = log
            self.flagbuildnone = True

        def observe(self, context, op):
            chain = [context]
            while True:
                nxt = dict.get(chain[-1], "_", None)
                if nxt is None or len(chain) > 12:
                    break
                chain.append(nxt)
            top = chain[-1]
            rec = {"sid": self.sid, "call": op, "depth": len(chain) - 1,
                   "x": [dict.get(c, "x", MISSING) for c in chain[:-1]],
                   "index": [dict.get(c, "_index", MISSING) for c in chain],
                   "flags": [[dict.get(c, "_parsing", MISSING), dict.get(c, "_building", MISSING), dict.get(c, "_sizing", MISSING)] for c in chain],
                   "params_ok": all(dict.get(c, "_params", None) is top for c in chain), "k": dict.get(top, "k", MISSING),
                   "root_ok": all(dict.get(c, "_root", None) is chain[-2] for c in chain[:-1]) if len(chain) > 1 else True,
                   "top_has_no_root": "_root" not in top and "_" not in top}
            # the library's own expression machinery on the same context
            ex = {}
            for name, e in (("this.x", C.this.x), ("this._.x", C.this._.x), ("this._._.x", C.this._._.x), ("this._root.x", C.this._root.x), ("this._params.k", C.this._params.k),
                            ("this._index", C.this._index), ("this._._index", C.this._._index), ("this._parsing", C.this._parsing), ("this._building", C.this._building), ("this._sizing", C.this._sizing)):
                try:
                    ex[name] = C.core.evaluate(e, context)
                except (KeyError, AttributeError):
                    ex[name] = MISSING
            rec["expr"] = ex
            self.log.append(rec)

        def _parse(self, stream, context, path):
            self.observe(context, "parse")
            return None

        def _build(self, obj, stream, context, path):
            self.observe(context, "build")
            return None

        def _sizeof(self, context, path):
            self.observe(context, "sizeof")
            return 0
    return Spy


# ------------------------------------------------------------------------------------------ shapes
# node forms:  ["x"] data byte | ["spy"] | ["dep", pathname] | [kind, members] for scope openers | ["array", n, node, discard] | ["greedy", n, node, discard] | ["until", n, node, discard]
OPENERS = ("struct", "seq", "focused", "union", "lazystruct")
DEP_PATHS = ["this.x", "this._.x", "this._._.x", "this._root.x", "this._params.k", "this._index", "this._._index"]


def gen_shape(rng, depth, in_repeater=False, first=False):
    c = rng.random()
    if depth <= 0 or c < 0.2:
        if rng.random() < 0.25:
            A, Bsh, Csh = ["struct", [["spy"]]], ["spy"], ["seq", [["struct", [["spy"]]]]]
            p = rng.choice(DEP_PATHS)
            return rng.choice([["if", p, rng.choice([1, 2, 3]), A, Bsh], ["if", p, rng.choice([0, 1, 2]), Bsh, Csh], ["switch", p, A, Bsh, Csh], ["switch", p, Csh, A, Bsh]]
                              + ([["fsrep", rng.randint(1, 3)]] if in_repeater else []))
        return rng.choice([["spy"], ["spy"], ["x"], ["x", "d"], ["dep", rng.choice(DEP_PATHS)]])
    if c < 0.26 and depth >= 2:
        inner = gen_shape(rng, depth - 1)
        if inner[0] in ("struct", "seq"):
            return ["tunnel", inner]
        return inner
    if c < 0.62:
        kind = rng.choice(["struct", "struct", "seq", "focused", "union", "lazystruct"])
        n = rng.randint(1, 3)
        ms = []
        for i in range(n):
            ms.append(gen_shape(rng, depth - 1))
        if kind in ("union", "focused"):
            # Union builds only its first member, FocusedSeq builds every other member from None: data member first, spies after
            ms = [["x"]] + [m for m in ms if m[0] in ("spy",)][:2] + [["spy"]]
            if kind == "union" and rng.random() < 0.4:
                ms = [["spy"]] + ms           # ... or a member that builds from nothing first: then that one is what build runs
            if kind == "union" and rng.random() < 0.5:
                # the member the stream continues after is selected by a context expression (resolved in the Union's own scope)
                return [kind, ms, rng.choice(["this.x", "this._.x", "this._._.x", "this._root.x", "this._params.k", "this._index", "this._._index"])]
        if kind == "lazystruct":
            # while parsing, LazyStruct only *sizes* its members (leaves and plain nested structures; the latter are entered
            # through their sizeof while the call in progress is a parse)
            ms = [(m if m[0] in ("x", "spy") else gen_sizable(rng, depth - 1)) for m in ms] or [["spy"]]
            if sum(1 for m in ms if m[0] == "x") > 1:
                ms = [m for m in ms if m[0] != "x"] + [["x"]]
        return [kind, ms]
    n = rng.randint(1, 3)
    elem = gen_shape(rng, depth - 1, True)
    discard = rng.random() < 0.3
    r = rng.random()
    if r < 0.5:
        return ["array", n, elem, discard]
    # greedy / until elements must start with the data byte so that the terminating failed iteration activates no spy
    elem = ["struct", [["x"], elem]] if elem[0] != "struct" else ["struct", [["x"]] + elem[1]]
    return ["greedy" if r < 0.75 else "until", n, elem, discard]


def gen_sizable(rng, depth):
    """a nested structure with a static size: Struct/Sequence of data bytes, spies and such structures"""
    ms = []
    for i in range(rng.randint(1, 3)):
        c = rng.random()
        if c < 0.3 and not any(m[0] == "x" for m in ms):
            ms.append(["x"])
        elif c < 0.8 or depth <= 1:
            ms.append(["spy"])
        else:
            ms.append(gen_sizable(rng, depth - 1))
    return [rng.choice(["struct", "seq"]), ms]


DV = 2          # what a derived data member ( ["x", "d"] = Default(Byte, DV), built from nothing ) holds


def xval(node, key):
    return DV if len(node) > 1 else xvalue(key)


def xvalue(pathkey):
    """the data byte of the x member at a position (position = tuple of member / repetition indices): 1..3"""
    h = 7
    for i in pathkey:
        h = (h * 31 + i + 1) % 1009
    return h % 3 + 1


def simulate(shape, op):
    """Scope-chain model.  Walks the shape the way the documentation says the library does for `op` and returns
    (observations, bytes, complete): observations are spy records {sid, depth, x:[innermost first], index:[...]} and
    dependent-member records {sid:'dep', path, value}; bytes is the encoding (parse input == expected build output)."""
    obs = []
    sid = itertools.count(0)
    out = bytearray()

    class Stop(Exception):
        pass

    def resolve(path, chain):
        parts = path.split(".")[1:]           # e.g. ['_', 'x']
        if parts == ["_params", "k"]:
            return K
        if parts[0] == "_root":
            if len(chain) < 2:
                return MISSING
            return chain[-2].get("x", MISSING)
        hops = parts.count("_")
        if hops >= len(chain):
            return MISSING
        sc = chain[hops]
        if parts[-1] == "x":
            return sc.get("x", MISSING) if hops < len(chain) - 1 else MISSING
        if parts[-1] == "_index":
            return sc.get("_index", MISSING if hops == len(chain) - 1 else None)
        return MISSING

    def walk(node, chain, key, sizing=False):
        # sizing: inside a member that a parsing LazyStruct skips by its size (entered through _sizeof: nothing is read, no
        # member becomes visible; the bytes are in the input all the same)
        k = node[0]
        cur = chain[0]
        if k == "x":
            v = xval(node, key)
            if op != "sizeof":
                out.append(v)
            return v
        if k == "spy":
            obs.append({"sid": next(sid), "depth": len(chain) - 1, "x": [c.get("x", MISSING) for c in chain[:-1]], "index": [c.get("_index", None) for c in chain]})
            return None
        if k == "rep":
            # a named repeater "r" of n data bytes (Array / GreedyRange inside a sized region / RepeatUntil), discard on or off:
            # what later siblings see under its name is the list (empty with discard) in parse and in build alike
            rk, n, discard = node[1], node[2], node[3]
            if op == "sizeof":
                if rk == "until":
                    raise Stop()               # (the GreedyRange sits inside a FixedSized region: sized)
                return MISSING
            out.extend(range(1, n + 1))
            cur["_index"] = ANY
            return [] if discard else list(range(1, n + 1))
        if k == "deplen":
            rr = cur.get("r", MISSING)
            n = len(rr) if isinstance(rr, list) else MISSING
            obs.append({"sid": "dep", "path": "len_(this.r)", "value": n})
            if isinstance(n, int) and op != "sizeof":
                out.extend(bytes([0xd0 + n]) * n)
                return None
            raise Stop()
        if k == "fwdu":
            # a member rebuilt from a LATER sibling whose name starts with an underscore (supplied siblings are visible from the
            # start while building, whatever their name)
            if op == "sizeof":
                return None
            out.append(DV)
            return DV
        if k == "yu":
            if op != "sizeof":
                out.append(DV)
            return DV
        if k == "idx":
            # a named member "i" = Index: the running index of the enclosing repeater in parse and in build alike, whatever number the
            # value handed to build carries there (a parsed list whose elements were reordered)
            v = resolve("this._index", chain)
            return v if isinstance(v, int) else None
        if k == "depi":
            n = cur.get("i", MISSING)
            obs.append({"sid": "dep", "path": "this.i", "value": n if isinstance(n, int) else MISSING})
            if isinstance(n, int) and not isinstance(n, bool) and op != "sizeof":
                out.extend(bytes([0xd0 + n]) * n)
                return None
            raise Stop()
        if k == "rc0":
            # a named member "rc" = RawCopy around a member that build derives by itself with a FALSY result (Default(Byte, 0) given
            # nothing): what later siblings see under rc.value is that result, in build as in parse
            if op != "sizeof":
                out.append(0)
            return 0
        if k == "deprc":
            n = cur.get("rc", MISSING)
            obs.append({"sid": "dep", "path": "this.rc.value+1", "value": n + 1 if isinstance(n, int) else MISSING})
            if isinstance(n, int) and op != "sizeof":
                out.extend(bytes([0xd0 + n + 1]) * (n + 1))
                return None
            raise Stop()
        if k == "arrd":
            # a named array "a" of members that build derives by themselves (Default given nothing)
            if op != "sizeof":
                out.extend([DV] * node[1])
                cur["_index"] = ANY            # what a finished repeater leaves behind is unspecified
            return [DV] * node[1]
        if k == "depa":
            # a member whose length is an element of that array as it was actually built / parsed
            arr = cur.get("a", MISSING)
            n = arr[node[1]] if isinstance(arr, list) else MISSING
            obs.append({"sid": "dep", "path": "this.a[%d]" % node[1], "value": n})
            if isinstance(n, int) and not isinstance(n, bool) and op != "sizeof":
                out.extend(bytes([0xd0 + n]) * n)
                return None
            raise Stop()
        if k == "tunnel":
            # a tunnel (Compressed behind a length byte) hands the enclosing context on unchanged in both directions; no size
            if op == "sizeof":
                raise Stop()
            start = len(out)
            walk(node[1], chain, key + (0,), sizing)
            body = bytes(out[start:])
            del out[start:]
            import zlib
            comp = zlib.compress(body)
            out.append(len(comp))
            out.extend(comp)
            return None
        if k == "fsrep":
            # a region whose length is this._index + 4 around a repeater of node[1] data bytes sharing the scope: the length is the
            # enclosing repeater's index in parse and in build alike (not what the inner repeater leaves behind)
            n = resolve("this._index", chain)
            obs.append({"sid": "sel", "path": "this._index(+4)", "value": n})
            if op == "sizeof" or not isinstance(n, int) or isinstance(n, bool):
                raise Stop()
            out.extend(range(1, node[1] + 1))
            out.extend(b"\x00" * (n + 4 - node[1]))
            cur["_index"] = ANY
            return None
        if k in ("if", "switch"):
            # a branch selected by a context expression: the same branch in parse, build and sizeof (branches hold spies at
            # different depths, no data)
            sel = resolve(node[1], chain)
            obs.append({"sid": "sel", "path": node[1], "value": sel})
            if not isinstance(sel, int) or isinstance(sel, bool):
                raise Stop()
            if k == "if":
                br = node[3] if sel == node[2] else node[4]
            else:
                br = node[2] if sel == 1 else node[3] if sel == 2 else node[4]
            walk(br, chain, key + (9,), sizing)
            return None
        if k == "dep":
            n = resolve(node[1], chain)
            obs.append({"sid": "dep", "path": node[1], "value": n})
            if op == "sizeof":
                if isinstance(n, int) and not isinstance(n, bool):
                    return None
                raise Stop()                   # sizeof cannot resolve the length (no siblings in a sizing scope): it raises, nothing after it runs
            if isinstance(n, int) and not isinstance(n, bool) and 0 <= n <= 8:
                out.extend(bytes([0xd0 + n]) * n)
                return None
            raise Stop()                       # the path does not resolve to a usable length here: shape discarded
        if k in OPENERS:
            if k == "union" and op == "sizeof":
                raise Stop()                             # Union has no size
            sc = {"_": cur, "x": MISSING, "_index": cur.get("_index", None)}
            ch2 = [sc] + chain
            members = node[1]
            if op == "build" and k in ("struct", "lazystruct", "union"):
                for i, m in enumerate(members):          # all supplied siblings are visible from the start
                    if m[0] == "x" and len(m) == 1:
                        sc["x"] = xvalue(key + (i,))
            if op == "build" and k == "focused" and members[0][0] == "x":
                sc["x"] = xvalue(key + (0,))             # the focused value is put into the scope up front
            if op == "build" and k == "union":
                members = members[:1]                    # Union builds the first member it has a value for (or that builds from nothing)
            for i, m in enumerate(members):
                if k == "lazystruct" and op == "parse" and m[0] == "x":
                    out.append(xval(m, key + (i,)))      # skipped by its size: not parsed, not entered into the context
                    continue
                v = walk(m, ch2, key + (i,), sizing or (k == "lazystruct" and op == "parse"))
                if m[0] == "x" and op != "sizeof" and not sizing:
                    sc["x"] = v
                if m[0] == "arrd" and op != "sizeof" and not sizing:
                    sc["a"] = v
                if m[0] == "rc0" and op != "sizeof" and not sizing:
                    sc["rc"] = v
                if m[0] == "idx" and op != "sizeof" and not sizing:
                    sc["i"] = v
                if m[0] == "rep" and op != "sizeof" and not sizing:
                    sc["r"] = v
            if k == "union" and len(node) > 2 and op == "parse":
                sel = resolve(node[2], ch2)
                obs.append({"sid": "sel", "path": node[2], "value": sel})
                if not isinstance(sel, int) or isinstance(sel, bool):
                    raise Stop()               # the selector does not resolve to a number here: shape discarded
            return None
        n = node[1]
        if op == "sizeof":
            if k != "array":
                raise Stop()                             # GreedyRange / RepeatUntil have no size: SizeofError before anything inside runs
            walk(node[2], chain, key + (0,))
            return None
        for i in range(n):
            cur["_index"] = i
            walk(node[2], chain, key + (i,))
        cur["_index"] = ANY
        return None

    top = {"k": K}
    try:
        walk(shape, [top], ())
        complete = True
    except Stop:
        complete = False
    return obs, bytes(out), complete


def PATH_EXPR():
    import construct as C
    return {"this.x": C.this.x, "this._.x": C.this._.x, "this._._.x": C.this._._.x, "this._root.x": C.this._root.x, "this._params.k": C.this._params.k,
            "this._index": C.this._index, "this._._index": C.this._._index}


def mk_construct(shape, Spy, log, sidc):
    import construct as C
    k = shape[0]
    if k == "x":
        return C.Byte if len(shape) == 1 else C.Default(C.Byte, DV)
    if k == "spy":
        return Spy(next(sidc), log)
    if k == "rep":
        rk, n, discard = shape[1], shape[2], shape[3]
        if rk == "array":
            return C.Array(n, C.Byte, discard=discard)
        if rk == "greedy":
            return C.FixedSized(n, C.GreedyRange(C.Byte, discard=discard))
        cnt = {"n": n}
        return C.RepeatUntil(lambda obj, lst, ctx, _c=cnt: ctx._index >= _c["n"] - 1, C.Byte, discard=discard)
    if k == "deplen":
        return C.Bytes(C.len_(C.this.r))
    if k == "fwdu":
        return C.Rebuild(C.Byte, C.this._y)
    if k == "yu":
        return C.Byte
    if k == "idx":
        return C.Index
    if k == "depi":
        return C.Bytes(C.this.i)
    if k == "rc0":
        return C.RawCopy(C.Default(C.Byte, 0))
    if k == "deprc":
        return C.Bytes(C.this.rc.value + 1)
    if k == "arrd":
        return C.Array(shape[1], C.Default(C.Byte, DV))
    if k == "depa":
        return C.Bytes(C.this.a[shape[1]])
    if k == "tunnel":
        return C.Prefixed(C.Byte, C.Compressed(mk_construct(shape[1], Spy, log, sidc), "zlib"))
    if k == "fsrep":
        return C.FixedSized(C.this._index + 4, C.Array(shape[1], C.Byte))
    if k in ("if", "switch"):
        e = PATH_EXPR()[shape[1]]
        if k == "if":
            return C.IfThenElse(e == shape[2], mk_construct(shape[3], Spy, log, sidc), mk_construct(shape[4], Spy, log, sidc))
        return C.Switch(e, {1: mk_construct(shape[2], Spy, log, sidc), 2: mk_construct(shape[3], Spy, log, sidc)}, default=mk_construct(shape[4], Spy, log, sidc))
    if k == "dep":
        p = shape[1]
        e = {"this.x": C.this.x, "this._.x": C.this._.x, "this._._.x": C.this._._.x, "this._root.x": C.this._root.x, "this._params.k": C.this._params.k,
             "this._index": C.this._index, "this._._index": C.this._._index}[p]
        return C.Bytes(e)
    if k in OPENERS:
        ms = []
        names = {"x": 0, "s": 0, "d": 0, "n": 0}
        for i, m in enumerate(shape[1]):
            c = mk_construct(m, Spy, log, sidc)
            if m[0] == "x":
                nm = "x" if names["x"] == 0 else "x%d" % names["x"]
                names["x"] += 1
            elif m[0] == "arrd":
                nm = "a"
            elif m[0] == "rc0":
                nm = "rc"
            elif m[0] == "idx":
                nm = "i"
            elif m[0] in ("rep", "fwdu", "yu"):
                nm = {"rep": "r", "fwdu": "c", "yu": "_y"}[m[0]]
            else:
                nm = "m%d" % i
            ms.append(nm / c)
        if k == "struct":
            return C.Struct(*ms)
        if k == "seq":
            return C.Sequence(*ms)
        if k == "focused":
            return C.FocusedSeq(ms[0].name, *ms)
        if k == "union":
            ix = [i for i, m in enumerate(shape[1]) if m[0] == "x"][0]
            if len(shape) > 2:
                e = {"this.x": C.this.x, "this._.x": C.this._.x, "this._._.x": C.this._._.x, "this._root.x": C.this._root.x, "this._params.k": C.this._params.k,
                     "this._index": C.this._index, "this._._index": C.this._._index}[shape[2]]
                return C.Union(e * 0 + ix, *ms)
            return C.Union(ix, *ms)
        if k == "lazystruct":
            return C.LazyStruct(*ms)
    n, elem, discard = shape[1], shape[2], shape[3]
    e = mk_construct(elem, Spy, log, sidc)
    if k == "array":
        return C.Array(n, e, discard=discard)
    if k == "greedy":
        return C.GreedyRange(e, discard=discard)
    if k == "until":
        cnt = {"n": n}
        return C.RepeatUntil(lambda obj, lst, ctx, _c=cnt: ctx._index >= _c["n"] - 1, e, discard=discard)


def has_multiple_x(shape):
    if shape[0] in OPENERS:
        if sum(1 for m in shape[1] if m[0] == "x") > 1:
            return True
        return any(has_multiple_x(m) for m in shape[1])
    if shape[0] in ("array", "greedy", "until"):
        return has_multiple_x(shape[2])
    if shape[0] == "tunnel":
        return has_multiple_x(shape[1])
    return False


def build_value(shape, key=()):
    """the value handed to build: x members carry xvalue(position), dependent members a placeholder filled in later"""
    k = shape[0]
    if k == "x":
        return xvalue(key) if len(shape) == 1 else None
    if k == "spy":
        return None
    if k == "dep":
        return ("dep", shape[1])
    if k == "rep":
        return list(range(1, shape[2] + 1))
    if k == "deplen":
        return ("dep", "len_(this.r)")
    if k == "fwdu":
        return None
    if k == "yu":
        return DV
    if k == "idx":
        return 7                               # a stale number: build derives the index by itself
    if k == "depi":
        return ("dep", "this.i")
    if k == "rc0":
        return {"value": None}
    if k == "deprc":
        return ("dep", "this.rc.value+1")
    if k == "arrd":
        return [None] * shape[1]
    if k == "depa":
        return ("dep", "this.a[%d]" % shape[1])
    if k == "tunnel":
        return build_value(shape[1], key + (0,))
    if k == "fsrep":
        return list(range(1, shape[1] + 1))
    if k in ("if", "switch"):
        return None                            # every branch builds from nothing
    if k in OPENERS:
        if k == "seq":
            return [build_value(m, key + (i,)) for i, m in enumerate(shape[1])]
        d = {}
        for i, m in enumerate(shape[1]):
            if m[0] == "x" and len(m) > 1:
                continue                       # derived: not supplied
            if m[0] == "fwdu":
                continue
            d["x" if m[0] == "x" else {"arrd": "a", "rep": "r", "yu": "_y", "rc0": "rc", "idx": "i"}.get(m[0], "m%d" % i)] = build_value(m, key + (i,))
        if k == "focused":
            first = shape[1][0]
            return d["x" if first[0] == "x" else "m0"]
        return d
    return [build_value(shape[2], key + (i,)) for i in range(shape[1])]


def norm_x(v):
    return v


def compare(ctx, shape, op, got, want, case):
    """got: spy log records (library), want: model observations (spies only, in activation order)"""
    wspies = [w for w in want if w["sid"] not in ("dep", "sel")]
    if len(got) != len(wspies):
        ctx.violation("spy-activation-count:%s:%s" % (op, opener_kinds(shape)), "%s: %d spy activations observed, the model expects %d" % (op, len(got), len(wspies)), case)
        return False
    flags_want = {"parse": [True, False, False], "build": [False, True, False], "sizeof": [False, False, True]}[op]
    for g, w in zip(got, wspies):
        where = "spy#%s at depth %d during %s" % (g["sid"], w["depth"], op)
        if g["depth"] != w["depth"]:
            ctx.violation("scope-depth:%s" % op, "%s: %d `_` links observed, expected %d" % (where, g["depth"], w["depth"]), case)
            return False
        for f in g["flags"]:
            if f != flags_want:
                ctx.violation("flags:%s" % op, "%s: (_parsing,_building,_sizing) = %r at some level, expected %r" % (where, f, flags_want), case)
                return False
        if not g["params_ok"] or g["k"] != K:
            ctx.violation("params:%s" % op, "%s: _params is not the call's keyword arguments at every depth (k=%r)" % (where, g["k"]), case)
            return False
        if not g["root_ok"] or not g["top_has_no_root"]:
            ctx.violation("root:%s:%s" % (op, outermost_kind(shape)), "%s: _root is not the outermost structure's scope" % where, case)
            return False
        for j, (gx, wx) in enumerate(zip(g["x"], w["x"])):
            if wx == "<pre>":
                if gx == MISSING:
                    ctx.violation("sibling-visibility:%s" % op, "%s: x supplied to build is not visible at level %d" % (where, j), case)
                    return False
                continue
            if gx != wx:
                ctx.violation("sibling-visibility:%s" % op, "%s: x at `_`x%d is %r, expected %r" % (where, j, gx, wx), case)
                return False
        for j, (gi, wi) in enumerate(zip(g["index"], w["index"])):
            if wi == ANY or op == "sizeof":
                continue
            if gi != wi and not (gi == MISSING and wi is None):
                ctx.violation("index:%s:%s" % (op, repeater_kinds(shape)), "%s: _index at `_`x%d is %r, expected %r" % (where, j, gi, wi), case)
                return False
        # the library's expression objects must agree with the raw context facts
        ex = g["expr"]
        raw = {"this.x": g["x"][0] if g["x"] else MISSING, "this._.x": g["x"][1] if len(g["x"]) > 1 else MISSING, "this._._.x": g["x"][2] if len(g["x"]) > 2 else MISSING,
               "this._params.k": g["k"], "this._index": g["index"][0], "this._._index": g["index"][1] if len(g["index"]) > 1 else MISSING,
               "this._parsing": flags_want[0], "this._building": flags_want[1], "this._sizing": flags_want[2]}
        if g["depth"] >= 1:
            raw["this._root.x"] = g["x"][-1]
        for name, rv in raw.items():
            if ex.get(name, MISSING) != rv:
                ctx.violation("expression-resolution:%s" % name, "%s: %s evaluates to %r, the context holds %r" % (where, name, ex.get(name), rv), case)
                return False
        if w["depth"] >= 2:
            ctx.nontrivial("obs", shape, op)
    return True


def opener_kinds(shape):
    ks = set()

    def f(n):
        if n[0] in OPENERS:
            ks.add(n[0])
            for m in n[1]:
                f(m)
        elif n[0] in ("array", "greedy", "until"):
            ks.add(n[0])
            f(n[2])
        elif n[0] == "tunnel":
            ks.add("tunnel")
            f(n[1])
        elif n[0] in ("if", "switch", "fsrep"):
            ks.add(n[0])
    f(shape)
    return "+".join(sorted(ks))


def repeater_kinds(shape):
    return "+".join(sorted(k for k in opener_kinds(shape).split("+") if k in ("array", "greedy", "until"))) or "none"


def outermost_kind(shape):
    n = shape
    while n[0] in ("array", "greedy", "until"):
        n = n[2]
    return n[0]


ENTRY = [0]


def enter_parse(d, data, how):
    """the three parsing entry points create the top-level scope from the same keyword arguments"""
    import io, os, tempfile
    if how == 0:
        return d.parse(data, k=K)
    if how == 1:
        return d.parse_stream(io.BytesIO(data), k=K)
    fd, path = tempfile.mkstemp(prefix="rv-c07-")
    try:
        with os.fdopen(fd, "wb") as f:
            f.write(data)
        return d.parse_file(path, k=K)
    finally:
        os.unlink(path)


def enter_build(d, v, how):
    import io, os, tempfile
    if how == 0:
        return d.build(v, k=K)
    if how == 1:
        s = io.BytesIO()
        d.build_stream(v, s, k=K)
        return s.getvalue()
    fd, path = tempfile.mkstemp(prefix="rv-c07-")
    os.close(fd)
    try:
        d.build_file(v, path, k=K)
        with open(path, "rb") as f:
            return f.read()
    finally:
        os.unlink(path)


def run_shape(ctx, shape, Spy):
    import construct as C
    if has_multiple_x(shape):
        return
    from ..common import h64
    ENTRY[0] = h64(shape) % 3          # (by the shape, so that a replay enters the same way)
    ctx.count("entry_point_%s" % ["parse/build", "parse_stream/build_stream", "parse_file/build_file"][ENTRY[0] % 3])
    case = {"shape": shape}
    results = {}
    for op in ("parse", "build", "sizeof"):
        want, data, complete = simulate(shape, op)
        results[op] = (want, data, complete)
    wantp, data, complete = results["parse"]
    if not complete:
        ctx.count("shapes_with_unresolvable_dependent_member")
        return
    log = []
    sidc = itertools.count(0)
    try:
        d = mk_construct(shape, Spy, log, sidc)
    except Exception as e:
        ctx.count("shape_not_constructible")
        return
    ctx.ev()
    # ---- parse
    del log[:]
    from .. import monitors
    from ..streams import BudgetExceeded
    try:
        # greedy repeaters end at end of data: they are only generated where that is the end of the whole input
        with monitors.STEPS(200000):
            pv = enter_parse(d, data, ENTRY[0] % 3)
    except BudgetExceeded:
        ctx.count("shape_exceeded_step_budget")
        return
    except Exception as e:
        ctx.violation("parse-fails:%s:%s" % (type(e).__name__, opener_kinds(shape)), "parse of the model's bytes %s raised %s: %s" % (data.hex(), type(e).__name__, str(e)[:200]), case)
        return
    plog = list(log)
    if not compare(ctx, shape, "parse", plog, wantp, case):
        return
    # ---- build (values carry the same numbers as the bytes)
    wantb, datab, completeb = results["build"]
    if completeb:
        v = fill_deps(build_value(shape), wantb)
        if True:
            del log[:]
            ctx.ev()
            try:
                built = enter_build(d, v, ENTRY[0] % 3)
            except Exception as e:
                ctx.violation("build-fails:%s:%s" % (type(e).__name__, opener_kinds(shape)), "build of %r raised %s: %s" % (v, type(e).__name__, str(e)[:200]), case)
                return
            if not compare(ctx, shape, "build", list(log), wantb, case):
                return
            # what a finished Array / RepeatUntil leaves in _index is unspecified, but it is the same when parsing and when building
            # (GreedyRange ends its parse on a failed extra iteration: not compared)
            if "greedy" not in repr(shape) and len(plog) == len(log):
                pi, bi = [g["index"] for g in plog], [g["index"] for g in log]
                if pi != bi:
                    ctx.violation("index:parse-vs-build:" + repeater_kinds(shape), "_index seen by the spies while parsing %r, while building %r" % (pi, bi), case)
                    return
            if built != datab:
                ctx.violation("dependent-layout-differs:build:" + opener_kinds(shape), "build emitted %s, the scope model expects %s" % (built.hex(), datab.hex()), case)
                return
    # ---- sizeof
    wants, _, _ = results["sizeof"]
    del log[:]
    ctx.ev()
    try:
        d.sizeof(k=K)
    except C.SizeofError:
        pass
    except Exception as e:
        ctx.count("sizeof_foreign_exception")      # C05's subject
    compare(ctx, shape, "sizeof", list(log), wants, case)
    ctx.count("shapes_checked")


def data_values(shape, data):
    """x values in parse order (dependent filler bytes removed)"""
    return [b for b in data if b < 0xd0]


def fill_deps(v, wantb):
    """replace ("dep", path) placeholders by the bytes the model expects, in order"""
    deps = [w for w in wantb if w["sid"] == "dep"]
    it = iter(deps)

    def f(x):
        if isinstance(x, tuple) and x and x[0] == "dep":
            w = next(it)
            n = w["value"]
            return bytes([0xd0 + n]) * n
        if isinstance(x, dict):
            return {k: f(y) for k, y in x.items()}
        if isinstance(x, list):
            return [f(y) for y in x]
        return x
    return f(v)


def has_greedy_not_last(shape, last=True):
    k = shape[0]
    if k == "greedy":
        return not last or has_greedy_not_last(shape[2], False)
    if k in OPENERS:
        ms = shape[1]
        return any(has_greedy_not_last(m, last and i == len(ms) - 1 and k != "union") for i, m in enumerate(ms))
    if k in ("array", "until"):
        return has_greedy_not_last(shape[2], False)
    if k == "tunnel":
        return has_greedy_not_last(shape[1], True)     # the tunnel's data ends where its inner format ends
    return False


def enumerate_small():
    """bounded-exhaustive part: every opener kind x every repeater kind x spy/x/dep positions at depth <= 2"""
    leaves = [["spy"], ["x"]] + [["dep", p] for p in DEP_PATHS]
    out = []
    for ok in ("struct", "seq", "focused", "lazystruct"):
        for a in leaves:
            for b in leaves:
                if ok in ("focused", "lazystruct") and (a[0] != "spy" or b[0] != "spy"):
                    continue
                inner = [ok, [["x"], a, b]]
                out.append(inner)
                for ok2 in ("struct", "seq", "union"):
                    out.append([ok2, [["x"], ["spy"], inner]] if ok2 != "union" else ["struct", [["x"], ["union", [["x"], ["spy"]]], inner]])
                for rep in ("array", "greedy", "until"):
                    for discard in (False, True):
                        out.append(["struct", [["x"], [rep, 2, ["struct", [["x"], a, b]], discard]]])
                        out.append([rep, 2, [ok if (rep == "array" or ok in ("struct", "seq")) else "struct", [["x"], a, ["spy"]]], discard])
                        if ok in ("struct", "seq"):
                            out.append([ok, [["x"], ["array", 2, [rep, 2, ["struct", [["x"], a]], discard], False]]])
    # a Union whose first member builds from nothing, alone and inside every repeater (build runs exactly that member)
    for rep in ("array", "greedy", "until"):
        for discard in (False, True):
            out.append([rep, 2, ["struct", [["x"], ["union", [["spy"], ["x"], ["spy"]]]]], discard])
            out.append(["struct", [["x"], [rep, 2, ["struct", [["x"], ["union", [["spy"], ["x"]]], ["struct", [["union", [["spy"], ["x"]]]]]]], discard]]])
    out.append(["array", 3, ["union", [["spy"], ["x"]]], False])
    out.append(["union", [["spy"], ["x"], ["spy"]]])
    # members that build derives by itself become visible to later siblings with the value actually built
    for ok in ("struct", "seq", "lazystruct"):
        for a in leaves:
            if ok == "lazystruct" and a[0] != "spy":
                continue
            out.append([ok, [["x", "d"], a, ["spy"]]])
            out.append([ok, [["spy"], ["x", "d"], ["spy"], a]])
            out.append(["struct", [["x"], [ok, [["x", "d"], ["spy"], ["struct", [a, ["spy"]]] if ok != "lazystruct" else ["spy"]]]]])
            out.append(["array", 2, [ok, [["x", "d"], a, ["spy"]]], False])
    # an array of self-derived members followed by a member whose length is one of its elements as actually built
    for ok in ("struct", "seq"):
        for i in (0, 1):
            out.append([ok, [["arrd", 2], ["depa", i], ["spy"]]])
            out.append(["struct", [["x"], [ok, [["spy"], ["arrd", 3], ["depa", i], ["dep", "this._.x"]]]]])
            out.append(["array", 2, [ok, [["arrd", 2], ["depa", i]]], False])
    # an Index member followed by a member sized from it, in every repeater (the value handed to build carries a stale number)
    for rep in ("array", "greedy", "until"):
        for ok in ("struct", "seq"):
            out.append([rep, 3, ["struct", [["x"], [ok, [["idx"], ["depi"], ["spy"]]]]] if ok == "seq" else ["struct", [["x"], ["idx"], ["depi"], ["spy"]]], False])
            out.append(["struct", [["x"], [rep, 2, ["struct", [["x"], ["idx"], ["struct", [["dep", "this._.i"] if False else ["spy"]]], ["depi"]]], False]]])
    # a RawCopy around a self-derived member whose built result is falsy, followed by a member sized from rc.value
    for ok in ("struct", "seq"):
        out.append([ok, [["rc0"], ["deprc"], ["spy"]]])
        out.append(["struct", [["x"], [ok, [["spy"], ["rc0"], ["deprc"], ["dep", "this._.x"]]]]])
        out.append(["array", 2, [ok, [["rc0"], ["deprc"]]], False])
        out.append(["struct", [["x"], ["tunnel", [ok, [["rc0"], ["deprc"]]]]]])
    # what later siblings see of a repeater, with and without discard; a member rebuilt from a later sibling named _y
    for rk in ("array", "greedy", "until"):
        for discard in (False, True):
            for n in (1, 3):
                out.append(["struct", [["rep", rk, n, discard], ["deplen"], ["spy"]]])
                out.append(["struct", [["x"], ["struct", [["rep", rk, n, discard], ["spy"], ["deplen"]]]]])
                out.append(["array", 2, ["struct", [["rep", rk, n, discard], ["deplen"]]], False])
    out.append(["struct", [["fwdu"], ["spy"], ["yu"]]])
    out.append(["struct", [["x"], ["struct", [["fwdu"], ["yu"], ["spy"]]]]])
    out.append(["array", 2, ["struct", [["fwdu"], ["yu"]]], False])
    out.append(["lazystruct", [["fwdu"], ["yu"]]])
    # Unions whose continuation member is selected by a context expression
    for sel in DEP_PATHS:
        out.append(["struct", [["x"], ["union", [["x"], ["spy"]], sel], ["x", "d"]]] if False else ["struct", [["x"], ["struct", [["union", [["x"], ["spy"]], sel], ["spy"]]]]])
        out.append(["array", 2, ["struct", [["x"], ["union", [["spy"], ["x"]], sel]]], False])
        out.append(["struct", [["x"], ["seq", [["x"], ["struct", [["union", [["x"], ["spy"]], sel]]]]]]])
        out.append(["union", [["x"], ["spy"]], sel])
    # tunnels: the enclosing context reaches the inner format unchanged in both directions
    for a in leaves:
        inner = ["struct", [["x"], a, ["spy"]]]
        out.append(["struct", [["x"], ["tunnel", inner]]])
        out.append(["struct", [["x"], ["struct", [["x"], ["tunnel", ["seq", [["spy"], ["struct", [a, ["spy"]]]]]]]]]])
        out.append(["array", 2, ["struct", [["x"], ["tunnel", inner]]], False])
        out.append(["tunnel", inner])
        out.append(["struct", [["x"], ["tunnel", ["struct", [["tunnel", inner]]]]]])
    # branches selected by every path, compared with both outcomes, at every level; branches sit at different depths
    A, Bsh, Csh = ["struct", [["spy"]]], ["spy"], ["seq", [["struct", [["spy"]]]]]
    for p in DEP_PATHS:
        for cv in (1, 2, 3):
            for br in (["if", p, cv, A, Bsh], ["if", p, cv, Bsh, Csh], ["switch", p, A, Bsh, Csh]):
                if br[0] == "switch" and cv != 1:
                    continue
                out.append(["struct", [["x"], br, ["spy"]]])
                out.append(["struct", [["x"], ["struct", [["x"], br]]]])
                out.append(["array", 2, ["struct", [["x"], br]], False])
                out.append(["seq", [["x"], ["struct", [["struct", [br]]]]]])
                out.append(br)
    # a region sized by the enclosing repeater's index around a repeater that shares the scope
    for rep in ("array", "greedy", "until"):
        for kk in (1, 2, 3):
            out.append([rep, 3, ["struct", [["x"], ["fsrep", kk]]] if rep != "array" else ["fsrep", kk], False])
            out.append(["struct", [["x"], [rep, 2, ["struct", [["x"], ["fsrep", kk], ["spy"]]], False]]])
            out.append(["array", 3, ["seq", [["fsrep", kk], ["spy"]]], False])
    # plain nested structures inside a LazyStruct: entered through sizeof while parsing
    for inner in (["struct", [["spy"], ["x"], ["spy"]]], ["seq", [["spy"], ["struct", [["x"], ["spy"]]]]], ["struct", [["struct", [["seq", [["spy"]]]]], ["x"]]]):
        out.append(["lazystruct", [["x"], inner, ["spy"]]])
        out.append(["lazystruct", [inner, ["seq", [["spy"]]]]])
        out.append(["struct", [["x"], ["lazystruct", [["spy"], inner]]]])
        out.append(["array", 2, ["lazystruct", [["x"], inner]], False])
    return out


def run(ctx):
    rng = ctx.rng
    Spy = make_spy_class()
    small = enumerate_small()
    if ctx.index == 0:
        ctx.count("enumerated_small_shapes", len(small))
    for i, sh in enumerate(small):
        if ctx.mine(i) and not has_greedy_not_last(sh):
            run_shape(ctx, sh, Spy)
            if i % 400 == 0:
                ctx.sample({"shape": sh})
    n = ctx.pick(9000, 150000) // ctx.nworkers
    for i in range(n):
        sh = gen_shape(rng, ctx.pick(3, 4))
        if has_greedy_not_last(sh):
            ctx.count("skipped_greedy_not_at_end")
            continue
        run_shape(ctx, sh, Spy)
        if i < 2 and ctx.index < 2:
            ctx.sample({"shape": sh})


def replay(ctx, case):
    run_shape(ctx, case["shape"], make_spy_class())
