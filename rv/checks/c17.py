"""C17 - constructs are stateless: results do not depend on call history, schedule or entry point.

Monitors:
  memo     : reference outcome per (construct, op, input, kwargs) computed once, sequentially, at the start;
             every later observation - at any point of a history, from any thread - must equal it
  guard    : Construct.__setattr__/__delattr__ hooked: no attribute write on a construct that existed before the
             call; structural fingerprint of every pool construct unchanged at the end
  entry    : parse(bytes|bytearray|memoryview) == parse_stream(at offsets 0..5) == parse_file ;
             build == build_stream == build_file
  schedule : the histories run on 1/4/8/16 threads with sys.setswitchinterval(1e-6) (thorough: plus LINE-level
             yield injection inside construct/*.py); a global sequence number at operation start/end lets the
             evidence count operation pairs from different threads that overlapped in time on the same construct
"""
import io, os, sys, re, threading, itertools, tempfile, time, random, shutil
from ..common import tag
from ..veq import norm
from .. import monitors

LEVEL = "exploration"
WORKERS = 8
RULE = ("pool of ~45 constructs sharing sub-constructs and the global singletons (incl. compiled instances and constructs with Rebuild lambdas); "
        "operations parse/build/sizeof/compile on valid and invalid inputs (incl. shared user tables, shared caller-owned values, rotations sharing a byte shift, "
        "relative seeks in regions, data-driven seek targets, Slicing/Indexing); the whole pool once in three fresh processes differing only in call order; the "
        "repository's own test-suite under the mutation guard; histories of seeded random operations, sequential and split over "
        "4/8/16 threads (thorough: LINE-level yield injection); structural fingerprints (vars() of every reachable construct incl. user-supplied tables) taken "
        "before the first use and compared at the end; entry points x offsets 0..5 x bytes/bytearray/memoryview/file. non-trivial = an "
        "operation that overlapped in time with another thread's operation on the same or a sub-construct-sharing construct, or a repetition "
        "after a failing call; distinct by (construct, op, input, schedule class)")
ASSUMPTIONS = ["CPython with the GIL: schedules are bytecode-granular interleavings of Python frames; nothing is claimed for a free-threaded build",
               "Rebuffered and Debugger are the documented stateful exceptions and are not in the pool",
               "exception messages are compared after masking object addresses"]
REQUIRED_ANCHORS = ["core:Construct.parse", "core:Construct.parse_stream", "core:Construct.parse_file", "core:Construct.build", "core:Construct.build_stream",
                    "core:Construct.build_file", "core:Construct.sizeof", "core:Construct.compile", "core:Compiled._parse", "core:Compiled._build", "core:CodeGen.__init__"]
ANCHORS = REQUIRED_ANCHORS

YIELD_TOOL = 5


def make_pool():
    """-> list of (name, construct, position_free, inputs[bytes], values, kwargs list)"""
    import construct as C
    from construct import this, len_, obj_
    H = C.Struct("k" / C.Byte, "n" / C.Byte)
    E = C.Enum(C.Byte, a=1, b=2, c=255)
    F = C.FlagsEnum(C.Byte, r=1, w=2, x=4)
    S = C.CString("ascii")
    P = C.Prefixed(C.VarInt, C.GreedyBytes)
    RB1 = C.Struct("n" / C.Rebuild(C.Byte, lambda ctx: len(ctx.d)), "d" / C.Bytes(this.n))
    RB2 = C.Struct("n" / C.Rebuild(C.Byte, lambda ctx: len(ctx.d) + 1), "d" / C.Bytes(this.n - 1))
    RB3 = C.Struct("n" / C.Rebuild(C.Byte, lambda ctx: 2 * len(ctx.d)), "d" / C.Bytes(this.n // 2))
    pool = []
    shared0 = [(n, c, monitors.fingerprint(c)) for n, c in (("H", H), ("E", E), ("F", F), ("S", S), ("P", P), ("RB1", RB1), ("Byte", C.Byte), ("VarInt", C.VarInt), ("Pass", C.Pass))]
    make_pool.shared0 = shared0

    def add(name, d, ins, vals, posfree=True, kws=({},)):
        pool.append((name, d, posfree, list(ins), list(vals), list(kws)))
    B = [b"", b"\x00", b"\x01", b"\x01\x02", b"\x02\x03\x04\x05", b"\xff\xff\xff\xff\xff", b"\x03abc\x00rest", b"\x81\x01\x02\x03", b"ab\x00cd\x00", b"\x01\x02\x01\x00\x02\x04\x08"]
    add("Byte", C.Byte, B, [0, 1, 255, 256, -1, None, "x"])
    add("VarInt", C.VarInt, B + [b"\x80\x80\x01"], [0, 127, 128, 2 ** 70, -1, 1.5])
    add("Int16ub", C.Int16ub, B, [0, 65535, 65536, b"a"])
    add("Flag", C.Flag, B, [True, False, 0, 5])
    add("Pass", C.Pass, B, [None, 3])
    add("GreedyBytes", C.GreedyBytes, B, [b"", b"abc", "str", 5])
    add("H", H, B, [dict(k=1, n=2), dict(k=1), {}, None, dict(k=300, n=1)])
    add("E", E, B, ["a", "b", 1, 7, "zz", None])
    add("F", F, B, ["r|w", dict(r=True), 5, "q", dict(q=1)])
    add("S", S, B, ["", "abc", "\xff", 5, b"x"])
    add("P", P, B, [b"", b"abc", 5])
    add("H+x", H + ("x" / C.Byte), B, [dict(k=1, n=2, x=3), dict(k=1, n=2)])
    add("H+y", H + ("y" / C.Int16ub), B, [dict(k=1, n=2, y=3), dict(k=1, n=2)])
    add("Struct(h/H,d/Bytes(h.n))", C.Struct("h" / H, "d" / C.Bytes(this.h.n)), B, [dict(h=dict(k=0, n=2), d=b"ab"), dict(h=dict(k=0, n=3), d=b"ab")])
    add("Array(2,H)", C.Array(2, H), B, [[dict(k=1, n=2), dict(k=3, n=4)], [dict(k=1, n=2)]])
    add("H[this.c]", H[this._params.c], B, [[dict(k=1, n=2)], []], kws=({"c": 0}, {"c": 1}, {"c": 2}, {}))
    add("Prefixed(VarInt,GreedyRange(E))", C.Prefixed(C.VarInt, C.GreedyRange(E)), B, [["a", "b", 9], [], ["zz"]])
    add("Select(E-const,S)", C.Select(C.Const(b"\x01\x02"), S, C.Byte), B, [None, "abc", 5, b"\x01\x02"])
    add("Optional(Int16ub)", C.Optional(C.Int16ub), B, [None, 5, 70000])
    add("GreedyRange(H)", C.GreedyRange(H), B, [[dict(k=1, n=2)] * 3, []])
    add("RepeatUntil(obj==0,Byte)", C.RepeatUntil(obj_ == 0, C.Byte), B, [[1, 2, 0], [1, 2]])
    add("Switch(this.t)", C.Struct("t" / E, "v" / C.Switch(this.t, {"a": C.Byte, "b": C.Int16ub}, default=C.Pass)), B, [dict(t="a", v=1), dict(t="b", v=300), dict(t=9, v=None)])
    # two constructs over one user-supplied cases table, with different defaults
    table = {1: C.Byte, 2: C.Int16ub}
    add("Switch(shared-table,default=Pass)", C.Struct("t" / C.Byte, "v" / C.Switch(this.t, table, default=C.Pass)), B, [dict(t=1, v=1), dict(t=7, v=None)])
    add("Switch(shared-table,default=Int32ub)", C.Struct("t" / C.Byte, "v" / C.Switch(this.t, table, default=C.Int32ub)), B, [dict(t=1, v=1), dict(t=7, v=5), dict(t=9, v=70000)])
    add("IfThenElse(this.c)", C.IfThenElse(this._params.c, C.Byte, C.Int16ub), B, [1, 300], kws=({"c": True}, {"c": False}, {}))
    add("Bitwise", C.BitStruct("a" / C.Nibble, "b" / C.Flag, "c" / C.BitsInteger(3), "d" / C.Bytewise(C.Byte)), B, [dict(a=1, b=True, c=7, d=9), dict(a=16, b=0, c=0, d=0)])
    add("BitsCtx", C.Bitwise(C.BitsInteger(this._params.w)), B, [1, 255, 70000], kws=({"w": 8}, {"w": 16}, {"w": 3}))
    add("Aligned(4,S)", C.Aligned(4, S), B, ["", "abc", "abcd"])
    add("Padded(3,Byte)", C.Padded(3, C.Byte), B, [1, 256])
    add("PaddedString", C.PaddedString(4, "utf8"), B, ["", "ab", "abcde"])
    add("PascalString", C.PascalString(C.VarInt, "utf16"), B, ["", "ab"])
    add("NullTerminated", C.NullTerminated(C.GreedyRange(C.Byte), term=b"\x00"), B, [[1, 2], [0]])
    add("FocusedSeq", C.FocusedSeq("v", C.Const(b"\x01"), "v" / C.Byte), B, [5, 300])
    add("PrefixedArray(Byte,H)", C.PrefixedArray(C.Byte, H), B, [[dict(k=1, n=2)], []])
    add("Default/Const/Computed", C.Struct("a" / C.Default(C.Byte, 7), C.Const(b"\x02"), "c" / C.Computed(this.a + 1)), B, [dict(), dict(a=1), dict(a=300)])
    add("RB1", RB1, B, [dict(d=b"abc"), dict(d=b""), dict(d=5)])
    add("RB2", RB2, B, [dict(d=b"abc"), dict(d=b"")])
    add("RB3", RB3, B, [dict(d=b"abc"), dict(d=b"")])
    add("ProcessXor", C.ProcessXor(this._params.k, H), B, [dict(k=1, n=2)], kws=({"k": 0x5a}, {"k": b"\x01\x02"}, {}))
    add("Compressed", C.Prefixed(C.Byte, C.Compressed(C.GreedyBytes, "zlib")), B + [b"\x08x\x9c\x03\x00\x00\x00\x00\x01"], [b"", b"abcabc"])
    # transforms with constant multi-byte parameters, on data whose length is not a multiple of the parameter's length (whatever a
    # call leaves behind - a position in the key, a table, a buffer - must not show in the next call)
    add("ProcessXor(const key)", C.ProcessXor(b"\x01\x02\x03", C.GreedyBytes), B + [b"a", b"abcd", b"ab", b"abcde"], [b"a", b"abcd", b"ab", b"xyzzy", b""])
    add("Prefixed(ProcessXor(const key))", C.Struct("p" / C.Prefixed(C.Byte, C.ProcessXor(b"\x10\x20\x30\x40\x50", C.GreedyBytes)), "t" / C.Byte), B + [b"\x02ab\x07", b"\x07abcdefg\x01", b"\x01z\x02"],
        [dict(p=b"ab", t=1), dict(p=b"abcdefg", t=2), dict(p=b"q", t=3)])
    add("ProcessRotateLeft(const)", C.ProcessRotateLeft(3, 2, C.GreedyBytes), B + [b"ab", b"abcd", b"abcdef"], [b"ab", b"wxyz", b""])
    add("Array(ProcessXor element)", C.Array(3, C.FixedSized(2, C.ProcessXor(b"\xaa\x55\x0f", C.GreedyBytes))), B + [b"abcdef", b"\x00" * 6], [[b"ab", b"cd", b"ef"], [b"\x00\x00"] * 3])
    add("Checksum", C.Struct("f" / C.RawCopy(H), "c" / C.Checksum(C.Byte, lambda d: sum(d) & 255, this.f.data)), B + [b"\x01\x02\x03"], [dict(f=dict(value=dict(k=1, n=2)))], posfree=False)
    add("Tell/Pointer", C.Struct("t" / C.Tell, "p" / C.Pointer(0, C.Byte), "x" / C.Byte), B, [dict(p=1, x=2)], posfree=False)
    add("Peek", C.Sequence(C.Peek(C.Int16ub), C.Byte), B, [[None, 1]])
    add("Union", C.Union(0, "a" / C.Int16ub, "b" / H), B, [dict(a=5), dict(b=dict(k=1, n=2)), {}])
    add("LazyStruct", C.LazyStruct("h" / H, "s" / S), B, [dict(h=dict(k=1, n=2), s="x")])
    add("Hex", C.Hex(C.Int16ub), B, [5])
    add("Timelike-Mapping", C.Mapping(C.Byte, {"x": 1, "y": 2}), B, ["x", "z", 1])
    add("Error-in-Select", C.Select(C.Struct("a" / C.Byte, C.Check(this.a > 1)), C.Error), B, [dict(a=5), dict(a=0)])
    # relative seeks inside a length-limited region (the result must not depend on the absolute offset the region starts at)
    add("FixedSized(NullTerminated(consume=False))", C.FixedSized(6, C.Sequence(C.NullTerminated(C.GreedyBytes, consume=False), C.GreedyBytes)), B + [b"ab\x00cdef", b"\x00\x00abcd", b"abcdef"], [[b"ab", b"\x00cd"]])
    add("Prefixed(Seek(-1,1))", C.Prefixed(C.Byte, C.Struct("a" / C.Bytes(2), C.Seek(-1, 1), "b" / C.Byte, "r" / C.GreedyBytes)), B + [b"\x04wxyz", b"\x02pq"], [dict(a=b"ab", b=1, r=b"")])
    add("Struct(h,FixedSized(NullTerminated(consume=False)))", C.Struct("h" / C.Int16ub, "f" / C.FixedSized(4, C.Sequence(C.NullTerminated(C.GreedyBytes, consume=False), C.GreedyBytes)), "t" / C.Byte),
        B + [b"\x01\x02a\x00bc\x09", b"\x01\x02\x00abc\x09"], [dict(h=1, f=[b"a", b"\x00b"], t=9)])
    # seek targets read from the data (a failing seek must be the same StreamError from bytes, in-memory streams and files)
    add("Seek(this.n)", C.Struct("n" / C.Int8sb, C.Seek(this.n, 0), "x" / C.Byte), B + [b"\xfb\x01\x02", b"\x02\x01\x02\x03", b"\x80"], [dict(n=1, x=5)], posfree=False)
    # (absolute targets: for end-relative targets before the start of the data in-memory streams clamp and files raise - a difference
    #  of the stream types themselves, not of the library)
    add("Peek(Seek(this.n-3))", C.Struct("n" / C.Byte, "p" / C.Peek(C.Struct(C.Seek(this._.n - 3, 0), "v" / C.Byte)), "x" / C.Byte), B + [b"\x00\x01", b"\x04\x01\x02"], [dict(n=1, p=None, x=5)], posfree=False)
    add("Select(Seek(n-2),Byte)", C.Struct("n" / C.Byte, "s" / C.Select(C.Struct(C.Seek(this._.n - 2, 0), "v" / C.Int16ub), C.Byte)), B + [b"\x02\x07\x08", b"\x00\x07"], [dict(n=0, s=7)], posfree=False)
    # a caller-owned value object built repeatedly under different keyword contexts (what an earlier build did must not show)
    shared_rc = dict(value=b"abcd")
    add("RawCopy(Bytes(ctx))", C.RawCopy(C.Bytes(this._params.n)), B, [shared_rc, dict(value=b"ab"), shared_rc], posfree=False, kws=({"n": 4}, {"n": 2}, {"n": 3}))
    add("Struct(RawCopy,Checksum)(ctx)", C.Struct("f" / C.RawCopy(C.Bytes(this._params.n)), "c" / C.Checksum(C.Byte, lambda d: sum(d) & 255, this.f.data)), B, [dict(f=shared_rc), dict(f=dict(value=b"wxyz"))],
        posfree=False, kws=({"n": 4}, {"n": 2}))
    # per-call scratch state: a build with a list of the wrong length must not influence the next build
    add("Slicing(Array)", C.Slicing(C.Array(4, C.Byte), 4, 1, 3, empty=0), B + [b"\x01\x02\x03\x04"], [[5, 6], [5, 6, 7], [5], [8, 9]])
    add("Slicing(GreedyRange)", C.Slicing(C.GreedyRange(C.Byte), 4, 1, 3, empty=0), B, [[5, 6], [5, 6, 7], [], [8, 9]])
    add("Indexing", C.Indexing(C.Array(4, C.Byte), 4, 2, empty=0), B + [b"\x01\x02\x03\x04"], [5, 300, 6])
    # rotations that share a byte shift but not a group size; group and amount also from the keyword context
    for amount, group in ((8, 2), (8, 4), (8, 3), (16, 4), (16, 6), (24, 4), (-8, 2), (-8, 4)):
        add("Rotate(%d,%d)" % (amount, group), C.ProcessRotateLeft(amount, group, C.GreedyBytes), B + [bytes(range(1, 13)), bytes(range(20, 44))], [bytes(range(1, 13)), b"abcdefgh"])
    add("Rotate(ctx)", C.ProcessRotateLeft(this._params.a, this._params.g, C.GreedyBytes), [bytes(range(1, 13)), b"abcdefgh", b"abc"], [bytes(range(1, 13))],
        kws=({"a": 8, "g": 2}, {"a": 8, "g": 4}, {"a": 8, "g": 3}, {"a": 16, "g": 6}, {"a": 16, "g": 4}, {"a": 3, "g": 2}))
    # compiled instances share the interpreter objects' sub-constructs through linked callbacks
    for name in ("H", "E", "Struct(h/H,d/Bytes(h.n))", "RB1", "RB2", "RB3", "Array(2,H)", "Switch(this.t)", "Default/Const/Computed"):
        for (n2, d, pf, ins, vals, kws) in list(pool):
            if n2 == name:
                add("compiled:" + name, d.compile(), ins, vals, pf, kws)
    return pool


_ADDR = re.compile(r"0x[0-9a-fA-F]+")


def observe(f):
    try:
        v = f()
        return ("ok", norm_forced(v))
    except Exception as e:
        return ("exc", type(e).__name__, _ADDR.sub("0x?", str(e))[:300])


def norm_forced(v):
    tn = type(v).__name__
    if tn == "LazyContainer":
        return norm({k: v[k] for k in v.keys()})
    return norm(v)


class Ops:
    """All deterministic operations over the pool, addressable by index."""

    def __init__(self, pool):
        self.pool = pool
        self.ops = []
        for ci, (name, d, pf, ins, vals, kws) in enumerate(pool):
            for ki, kw in enumerate(kws):
                for ii in range(len(ins)):
                    self.ops.append((ci, "parse", ii, ki))
                for vi in range(len(vals)):
                    self.ops.append((ci, "build", vi, ki))
                self.ops.append((ci, "sizeof", 0, ki))
            if not name.startswith("compiled:"):
                self.ops.append((ci, "compile", 0, 0))

    def run(self, op):
        ci, kind, xi, ki = op
        name, d, pf, ins, vals, kws = self.pool[ci]
        kw = kws[ki]
        if kind == "parse":
            return observe(lambda: d.parse(ins[xi], **kw))
        if kind == "build":
            return observe(lambda: d.build(vals[xi], **kw))
        if kind == "sizeof":
            return observe(lambda: d.sizeof(**kw))
        if kind == "compile":
            # compiling must neither change the source construct nor earlier compiled instances
            def f():
                c = d.compile()
                return c.parse(ins[min(3, len(ins) - 1)], **kw) if False else type(c).__name__
            return observe(f)


def opkey(ops, op):
    ci, kind, xi, ki = op
    return "%s.%s[%d,%d]" % (ops.pool[ci][0], kind, xi, ki)


class Recorder:
    def __init__(self):
        self.lock = threading.Lock()
        self.seq = itertools.count()
        self.spans = []          # (thread, construct index, start, end)

    def begin(self):
        return next(self.seq)

    def end(self, tid, ci, s):
        e = next(self.seq)
        with self.lock:
            self.spans.append((tid, ci, s, e))


def count_overlaps(spans, share):
    """number of pairs of operations from different threads whose [start,end] intervals intersect and whose constructs
    are the same or share sub-constructs (share[ci] = frozenset of reachable construct ids)"""
    spans = sorted(spans, key=lambda x: x[2])
    n_same = n_share = 0
    active = []
    for t, ci, s, e in spans:
        active = [a for a in active if a[3] > s]
        for (t2, c2, s2, e2) in active:
            if t2 != t:
                if c2 == ci:
                    n_same += 1
                elif share[ci] & share[c2]:
                    n_share += 1
        active.append((t, ci, s, e))
    return n_same, n_share


def reachable(con, seen=None):
    import construct.core as core
    if seen is None:
        seen = set()
    if id(con) in seen:
        return seen
    seen.add(id(con))
    try:
        d = object.__getattribute__(con, "__dict__")
    except AttributeError:
        return seen
    stack = list(d.values())
    while stack:
        v = stack.pop()
        if isinstance(v, core.Construct):
            reachable(v, seen)
        elif isinstance(v, dict):
            stack.extend(dict.values(v))
        elif isinstance(v, (list, tuple)):
            stack.extend(v)
    return seen


def install_yield_injection(seed, prob):
    mon = sys.monitoring
    rng = random.Random(seed)
    lock = threading.Lock()
    stats = {"yields": 0}
    libdir = monitors.LIBDIR

    def cb(code, line):
        if not code.co_filename.startswith(libdir):
            return mon.DISABLE
        with lock:
            r = rng.random()
        if r < prob:
            stats["yields"] += 1
            time.sleep(0)

    mon.use_tool_id(YIELD_TOOL, "rv-yield")
    mon.register_callback(YIELD_TOOL, mon.events.LINE, cb)
    mon.set_events(YIELD_TOOL, mon.events.LINE)
    return stats


def remove_yield_injection():
    mon = sys.monitoring
    mon.set_events(YIELD_TOOL, 0)
    mon.free_tool_id(YIELD_TOOL)


def run(ctx):
    import construct as C
    rng = ctx.rng
    monitors.GUARD.install()
    pool = make_pool()
    for n, c, f0 in make_pool.shared0:
        ctx.ev()
        if monitors.fingerprint(c) != f0:
            ctx.violation("shared-construct-changed-by-composition:" + n, "composing other constructs from %s (operators + >> [] /, wrappers, compile) changed vars(%s)" % (n, n),
                          {"construct": n, "phase": "pool composition"})
    ops = Ops(pool)
    ctx.count("pool_constructs", len(pool) if ctx.index == 0 else 0)
    ctx.count("distinct_operations", len(ops.ops) if ctx.index == 0 else 0)
    # ---- reference phase (sequential, each op once); the fingerprints are taken before the very first use
    fp0 = [monitors.fingerprint(d) for (_, d, *_r) in pool]
    memo = {}
    for op in ops.ops:
        memo[op] = ops.run(op)
    failing = {op for op, r in memo.items() if r[0] == "exc"}
    share = [frozenset(reachable(d)) for (_, d, *_r) in pool]
    monitors.GUARD.writes.clear()
    monitors.GUARD.fresh.clear()
    monitors.GUARD.armed = True
    mism = []

    def check(op, where, sched):
        r = ops.run(op)
        ctx.ev()
        if r != memo[op]:
            ci, kind, xi, ki = op
            ctx.violation("result-depends-on-history:%s:%s:%s" % (sched, kind, pool[ci][0].split("(")[0].split(":")[0]),
                          "%s %s gave %r, the first observation was %r" % (where, opkey(ops, op), r, memo[op]),
                          {"op": opkey(ops, op), "schedule": sched, "seed": ctx.seed, "worker": ctx.index})
            return False
        return True

    # ---- sequential histories
    nseq = ctx.pick(4000, 60000) // ctx.nworkers
    last_failed = None
    for i in range(nseq):
        op = rng.choice(ops.ops)
        check(op, "sequential history step %d:" % i, "sequential")
        if last_failed is not None:
            # repetition right after a failing call on the same construct
            ctx.nontrivial("after-failure", opkey(ops, op))
        last_failed = op if op in failing else None
    ctx.count("sequential_ops", nseq)
    # ---- threaded histories
    old = sys.getswitchinterval()
    sys.setswitchinterval(1e-6)
    ystats = None
    if not ctx.quick:
        ystats = install_yield_injection(ctx.seed * 1000 + ctx.index, 0.02)
    try:
        for nthreads in (4, 8, 16):
            rec = Recorder()
            per = ctx.pick(250, 1500)
            # few constructs, many threads: concentrate the threads on a small working set sharing sub-constructs
            focus = rng.sample(range(len(pool)), 6)
            fops = [op for op in ops.ops if op[0] in focus]
            seeds = [rng.getrandbits(32) for _ in range(nthreads)]
            errs = []
            start = threading.Barrier(nthreads)

            def work(tid):
                r = random.Random(seeds[tid])
                try:
                    start.wait()
                    for j in range(per):
                        op = r.choice(fops)
                        s = rec.begin()
                        ok = check(op, "thread %d/%d step %d:" % (tid, nthreads, j), "threads")
                        rec.end(tid, op[0], s)
                except BaseException as e:
                    errs.append(repr(e))
            ts = [threading.Thread(target=work, args=(t,)) for t in range(nthreads)]
            for t in ts:
                t.start()
            for t in ts:
                t.join()
            if errs:
                ctx.inconclusive.append("thread crashed: %s" % errs[0])
            same, shr = count_overlaps(rec.spans, share)
            ctx.count("threaded_ops_%dthreads" % nthreads, len(rec.spans))
            ctx.count("overlapping_pairs_same_construct", same)
            ctx.count("overlapping_pairs_sharing_subconstructs", shr)
            for (t, ci, s, e) in rec.spans[:: max(1, len(rec.spans) // 300)]:
                ctx.nontrivial("threads", nthreads, pool[ci][0], t)
    finally:
        sys.setswitchinterval(old)
        if ystats is not None:
            remove_yield_injection()
            ctx.count("injected_yields", ystats["yields"])
    monitors.GUARD.armed = False
    # ---- mutation guard + fingerprints
    if monitors.GUARD.writes:
        kinds = sorted(set("%s.%s" % (c, a) for c, a, _ in monitors.GUARD.writes))
        ctx.violation("construct-mutated-by-use:" + kinds[0], "attribute writes on pre-existing constructs during use: %s (%d writes)" % (kinds[:6], len(monitors.GUARD.writes)),
                      {"writes": kinds[:20], "seed": ctx.seed, "worker": ctx.index})
    for (name, d, *_r), f0 in zip(pool, fp0):
        if monitors.fingerprint(d) != f0:
            ctx.violation("construct-fingerprint-changed:" + name.split("(")[0], "vars() of %s (or of a reachable sub-construct) changed during use" % name,
                          {"construct": name, "seed": ctx.seed, "worker": ctx.index})
    ctx.count("guarded_attribute_writes", len(monitors.GUARD.writes))
    # ---- after everything, the whole memo once more (end-of-history equality)
    for op in ops.ops:
        check(op, "after all histories:", "final")
    # ---- entry points
    entry_points(ctx, pool, rng)
    # ---- the repository's own test-suite as one more workload under the mutation guard (one worker)
    if ctx.index == ctx.nworkers - 1:
        suite_under_guard(ctx)
    if ctx.index == 0:
        fresh_process_orders(ctx)
    if ctx.index == 0:
        ctx.sample({"history_example": [opkey(ops, rng.choice(ops.ops)) for _ in range(8)], "threads": [4, 8, 16]})
        ctx.sample({"pool": [p[0] for p in pool]})


def order_dump(order, out):
    """child-process entry: build the pool, run every operation once in the given order, dump the results"""
    import json
    pool = make_pool()
    ops = Ops(pool)
    seq = list(ops.ops)
    if order == "reverse":
        seq.reverse()
    elif order == "by-kind":
        seq.sort(key=lambda op: (op[1], -op[0], op[3], op[2]))
    res = {}
    for op in seq:
        res[opkey(ops, op)] = repr(ops.run(op))
    with open(out, "w") as f:
        json.dump(res, f)


def fresh_process_orders(ctx):
    """the same operations, each exactly once, in three fresh processes that differ only in the order of the calls (pool order,
    reversed, grouped by kind): every result must be the same in all three - state that survives in the process (class-level
    caches, module globals) shows up as a dependence on what ran before"""
    import subprocess, json
    tmp = tempfile.mkdtemp(prefix="rv-c17o-")
    try:
        results = {}
        for order in ("forward", "reverse", "by-kind"):
            out = os.path.join(tmp, order + ".json")
            try:
                p = subprocess.run([sys.executable, "-B", "-c", "from rv.checks import c17; c17.order_dump(%r, %r)" % (order, out)], env=dict(os.environ), stdout=subprocess.PIPE,
                                   stderr=subprocess.STDOUT, timeout=600)
            except subprocess.TimeoutExpired:
                ctx.notes["fresh_process_orders"] = "timed out (not judged)"
                return
            if p.returncode != 0 or not os.path.exists(out):
                ctx.inconclusive.append("fresh-process order run %r failed: %s" % (order, p.stdout.decode("utf8", "replace")[-300:]))
                return
            results[order] = json.load(open(out))
        base = results["forward"]
        ctx.count("fresh_process_order_ops_compared", len(base))
        for order in ("reverse", "by-kind"):
            for k, v in base.items():
                ctx.ev()
                if results[order].get(k) != v:
                    ctx.violation("result-depends-on-history:process-order:" + k.split(".")[0].split("(")[0], "%s gives %s when the operations run in pool order and %s when they run %s (fresh process each)"
                                  % (k, v[:200], str(results[order].get(k))[:200], order), {"op": k, "order": order})
                    break
        ctx.nontrivial("fresh-process-orders", len(base))
    finally:
        shutil.rmtree(tmp, ignore_errors=True)


def suite_under_guard(ctx):
    """runs /repo's tests in a child process with rv.pytest_guard loaded: during every public parse/build/sizeof call of the
    whole suite, library code must not write attributes of Construct objects that existed before the call"""
    import subprocess, sys, json
    from ..common import REPO, VERIF
    out = os.path.join(tempfile.mkdtemp(prefix="rv-c17g-"), "guard.json")
    env = dict(os.environ, RV_GUARD_OUT=out, PYTHONPATH=VERIF + os.pathsep + REPO)
    try:
        p = subprocess.run([sys.executable, "-B", "-m", "pytest", "-q", "-p", "rv.pytest_guard", "-p", "no:cacheprovider", "--benchmark-disable", "tests"], cwd=REPO, env=env,
                           stdout=subprocess.PIPE, stderr=subprocess.STDOUT, timeout=1200)
    except subprocess.TimeoutExpired:
        ctx.notes["suite_under_guard"] = "timed out (not judged)"
        return
    try:
        st = json.load(open(out))
    except Exception:
        ctx.notes["suite_under_guard"] = "the test-suite could not be run under the guard here (not judged): " + p.stdout.decode("utf8", "replace")[-200:]
        return
    finally:
        shutil.rmtree(os.path.dirname(out), ignore_errors=True)
    ctx.count("suite_public_calls_observed_under_guard", st["calls"])
    ctx.count("suite_tests_run_under_guard", st["tests"])
    ctx.ev()
    allowed = {"Rebuffered", "Debugger"}           # the documented stateful exceptions
    bad = {k: n for k, n in st["by_class"].items() if k.split(".")[0] not in allowed}
    if bad:
        k = sorted(bad)[0]
        ctx.violation("construct-mutated-by-use:" + k, "while the repository's own tests ran, library code wrote attributes of pre-existing constructs during public calls: %r; first: %r" % (bad, st["writes"][:3]),
                      {"suite_under_guard": True, "writes": st["writes"][:10]})
    elif st["calls"] > 1000:
        ctx.nontrivial("suite-under-guard", st["tests"])


def entry_points(ctx, pool, rng):
    tmpdir = tempfile.mkdtemp(prefix="rv-c17-")
    try:
        for ci, (name, d, pf, ins, vals, kws) in enumerate(pool):
            if not ctx.mine(ci):
                continue
            for ki, kw in enumerate(kws):
                for ii, data in enumerate(ins):
                    ref = observe(lambda: d.parse(data, **kw))
                    alts = {"bytearray": lambda: d.parse(bytearray(data), **kw), "memoryview": lambda: d.parse(memoryview(data), **kw),
                            "parse_stream@0": lambda: d.parse_stream(io.BytesIO(data), **kw)}
                    path = os.path.join(tmpdir, "p%d_%d_%d" % (ci, ki, ii))
                    with open(path, "wb") as f:
                        f.write(data)
                    if not name.startswith("Lazy"):      # a lazy result needs its stream open; parse_file closes it by contract
                        alts["parse_file"] = lambda: d.parse_file(path, **kw)
                    if pf:
                        for off in range(1, 6):
                            def at(off=off):
                                s = io.BytesIO(b"\xEE" * off + data)
                                s.seek(off)
                                return d.parse_stream(s, **kw)
                            alts["parse_stream@%d" % off] = at
                    for how, f in alts.items():
                        ctx.ev()
                        got = observe(f)
                        if got[:2] != ref[:2]:
                            ctx.violation("entry-points-disagree:%s" % (how.split("@")[0],), "%s.%s -> %r ; parse(bytes) -> %r (kwargs %r)" % (name, how, got, ref, kw),
                                          {"construct": name, "entry": how, "input": tag(data), "kw": {k: repr(v) for k, v in kw.items()}})
                            break
                    os.unlink(path)
                    if kw:
                        ctx.nontrivial("entry-kw", name, ii, ki)
                for vi, v in enumerate(vals):
                    ref = observe(lambda: d.build(v, **kw))
                    if ref[0] != "ok":
                        continue

                    def bs():
                        s = io.BytesIO()
                        d.build_stream(v, s, **kw)
                        return s.getvalue()

                    def bsoff():
                        s = io.BytesIO(b"\xEE" * 3)
                        s.seek(3)
                        d.build_stream(v, s, **kw)
                        return s.getvalue()[3:]
                    path = os.path.join(tmpdir, "b%d_%d_%d" % (ci, ki, vi))

                    def bf():
                        d.build_file(v, path, **kw)
                        with open(path, "rb") as f:
                            return f.read()
                    alts = {"build_stream": bs, "build_file": bf}
                    if pf:
                        alts["build_stream@3"] = bsoff
                    for how, f in alts.items():
                        ctx.ev()
                        got = observe(f)
                        if got != ref:
                            ctx.violation("entry-points-disagree:%s" % (how.split("@")[0],), "%s.%s -> %r ; build -> %r" % (name, how, got, ref),
                                          {"construct": name, "entry": how, "value": tag(v)})
                            break
                    if os.path.exists(path):
                        os.unlink(path)
            ctx.count("entry_point_constructs")
    finally:
        import shutil
        shutil.rmtree(tmpdir, ignore_errors=True)


def replay(ctx, case):
    print("C17 cases are histories drawn from the seed: re-run `VERIF_SEED=%s ./check C17 %s`; case: %s" % (case.get("seed", ctx.seed), ctx.tier, case))
