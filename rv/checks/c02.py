"""C02 - re-encoding parsed data is canonical and stable.

Purely metamorphic chain on the real code:   b0 --parse--> v1 --build--> b1 --parse--> v2 --build--> b2
  whenever parse accepts b0: build(v1) must succeed, parse(b1) must succeed and equal v1, b2 == b1;
  when b0 was itself produced by build: b1 == b0.
The reference model only supplies canonical seeds.  Gallery formats run on their blobs.
"""
import os, glob, importlib.util, sys
from ..common import tag, untag, REPO, raise_site
from ..recipes import mk, shape
from .. import refmodel as M
from ..gen import Gen, genval
from ..libmodel import lib_build, lib_parse, model_build, model_parse, top_kind, kinds_in, loosen
from ..veq import veq, norm
from .c01 import covers

LEVEL = "exploration"
RULE = ("sequential (non-seeking) recipes from the typed grammar x inputs: canonical encodings; each with bit flips, insertions, deletions, truncations; "
        "random and boundary-biased strings; classic non-canonical forms (non-minimal VarInts, flags 02..ff, arbitrary padding bytes, trailing bytes inside "
        "length-delimited regions, overlong prefixes, Selects whose earlier alternative fails late on build); plus every gallery/deprecated_gallery format on every blob in tests/*/blobs and on blobs with "
        "flipped bytes. non-trivial = an accepted input whose rebuilt bytes differ from it (normalisation happened); distinct by (recipe shape, input class)")
ASSUMPTIONS = ["inputs that parse rejects are not accepted inputs and claim nothing", "NaNs compare as one class"]
REQUIRED_ANCHORS = ["core:Flag._build", "core:Padded._build", "core:Prefixed._build", "core:FixedSized._build", "core:NullTerminated._build", "core:Aligned._build",
                    "core:Select._build", "core:Enum._encode", "core:FlagsEnum._encode", "core:Mapping._encode", "core:VarInt._parse", "core:Struct._parse"]
ANCHORS = REQUIRED_ANCHORS
MIN_NONTRIVIAL = 50


def chain(ctx, d, b0, kw, case, canonical, keyname):
    import construct as C
    ctx.ev()
    try:
        v1 = d.parse(b0, **kw)
    except C.ConstructError:
        ctx.count("inputs_rejected")
        return None
    except Exception as e:
        ctx.count("inputs_rejected_with_foreign_exception")     # C06's subject
        return None
    try:
        norm(v1)                # deferred (lazy) members are parsed now: a lazy parse accepts only once they all can be read
    except Exception:
        ctx.count("inputs_rejected_once_deferred_members_are_read")
        return None
    ctx.count("inputs_accepted")
    try:
        b1 = d.build(v1, **kw)
    except Exception as e:
        if isinstance(e, TypeError) and "not callable" in str(e) and shadowing_member(case.get("recipe")):
            ctx.violation("member-name-shadows-dict-method", "parse accepted %s -> %r; build of that parsed container raised %s: %s (a member is named %s)" % (b0.hex(), v1, type(e).__name__, e, shadowing_member(case.get("recipe"))), case)
            return None
        if isinstance(e, C.PaddingError) and bom_codec_in(case.get("recipe")):
            ctx.violation("bom-codec-rebuild-exceeds-fixed-size", "parse accepted %s -> %r (decoded without a byte-order mark); build re-encodes with a BOM and no longer fits: %s" % (b0.hex(), v1, e), case)
            return None
        ctx.violation("parsed-value-not-buildable:%s:%s" % (keyname, type(e).__name__ + ("@" + raise_site(e) if not isinstance(e, C.ConstructError) else "")),
                      "parse accepted %s -> %r, but build of that value raised %s: %s" % (b0.hex(), v1, type(e).__name__, e), case)
        return None
    try:
        v2 = d.parse(b1, **kw)
    except Exception as e:
        ctx.violation("rebuilt-bytes-not-parseable:%s:%s" % (keyname, type(e).__name__), "b0=%s parsed; rebuilt b1=%s raised %s: %s" % (b0.hex(), b1.hex(), type(e).__name__, e), case)
        return None
    if not veq(v1, v2):
        ctx.violation("reparse-differs:%s" % keyname, "b0=%s -> %r ; b1=%s -> %r" % (b0.hex()[:200], v1, b1.hex()[:200], v2), case)
        return None
    try:
        b2 = d.build(v2, **kw)
    except Exception as e:
        ctx.violation("second-build-fails:%s:%s" % (keyname, type(e).__name__), repr(e), case)
        return None
    if b2 != b1:
        ctx.violation("rebuild-not-idempotent:%s" % keyname, "b1=%s b2=%s" % (b1.hex()[:200], b2.hex()[:200]), case)
        return None
    if canonical and b1 != b0:
        ctx.violation("own-output-not-reproduced:%s" % keyname, "build produced b0=%s; parse+build gives %s" % (b0.hex()[:200], b1.hex()[:200]), case)
        return None
    if b1 != b0:
        ctx.count("inputs_normalised")
        return "normalised"
    return "same"


BOM_CODECS = ("utf16", "utf_16", "u16", "utf32", "utf_32", "u32")


def bom_codec_in(r):
    if isinstance(r, list):
        if r and r[0] in ("PaddedString", "PascalString", "CString", "GreedyString") and any(isinstance(x, str) and x in BOM_CODECS for x in r[1:]):
            return True
        return any(bom_codec_in(x) for x in r)
    return False


def variants(rng, b):
    out = []
    for _ in range(6):
        if b:
            j = rng.randrange(len(b))
            out.append(("bitflip", b[:j] + bytes([b[j] ^ (1 << rng.randrange(8))]) + b[j + 1:]))
    for _ in range(3):
        j = rng.randrange(len(b) + 1)
        out.append(("insert", b[:j] + bytes([rng.choice([0, 0x80, 0xff, rng.getrandbits(8)])]) + b[j:]))
    for _ in range(2):
        if b:
            j = rng.randrange(len(b))
            out.append(("delete", b[:j] + b[j + 1:]))
            out.append(("truncate", b[:j]))
    out.append(("trailing", b + bytes(rng.getrandbits(8) for _ in range(rng.randint(1, 4)))))
    # classic non-canonical forms
    for j in range(len(b)):
        if b[j] < 0x80 and rng.random() < 0.3:
            out.append(("nonminimal-varint", b[:j] + bytes([b[j] | 0x80, 0x00]) + b[j + 1:]))
        if b[j] == 1 and rng.random() < 0.5:
            out.append(("flag-not-01", b[:j] + bytes([rng.randint(2, 255)]) + b[j + 1:]))
        if b[j] in (0, 0x2a, 0xaa, 0x20) and rng.random() < 0.3:
            out.append(("padding-byte", b[:j] + bytes([rng.randint(1, 255)]) + b[j + 1:]))
    return out


def run_recipe(ctx, rng, r, kw, nin):
    try:
        d = mk(r)
    except Exception:
        ctx.count("recipe_not_constructible")
        return
    keyname = top_kind(r)
    seeds = []
    for j in range(max(2, nin // 12)):
        try:
            v = genval(r, rng, M.top_scope(dict(kw)))
        except (M.ModelGap, M.MissingKey, M.Unsized, M.Reject):
            break
        lb = lib_build(d, v, kw)
        if lb[0] == "ok":
            # "bytes the construct itself produced are reproduced exactly" is claimed for values of the symmetric domain only
            # (a CString holding a NUL, data ending in the pad byte ... cannot come back): the reference model decides
            mb = model_build(r, v, kw)
            sym = False
            if mb[0] == "ok":
                mp = model_parse(r, mb[1], kw)
                sym = mp[0] == "ok" and mp[2] == len(mb[1]) and covers(loosen(norm(mp[1])), loosen(norm(v)))
            seeds.append((lb[1], sym))
    normalised = 0
    for b, sym in seeds:
        if not sym:
            ctx.count("seeds_outside_symmetric_domain")
        res = chain(ctx, d, b, kw, {"recipe": r, "kw": kw, "input": tag(b), "cls": "canonical" if sym else "built"}, sym, keyname)
        for cls, b2 in variants(rng, b)[: max(4, nin // max(1, len(seeds)))]:
            res = chain(ctx, d, b2, kw, {"recipe": r, "kw": kw, "input": tag(b2), "cls": cls}, False, keyname)
            if res == "normalised":
                normalised += 1
                ctx.nontrivial("norm", shape(r), cls)
    for _ in range(nin // 6):
        b = bytes(rng.choice([0, 1, 0x7f, 0x80, 0xff, rng.getrandbits(8)]) for _ in range(rng.randint(0, 20)))
        res = chain(ctx, d, b, kw, {"recipe": r, "kw": kw, "input": tag(b), "cls": "random"}, False, keyname)
        if res == "normalised":
            ctx.nontrivial("norm", shape(r), "random")
    ctx.count("recipes")


# ----------------------------------------------------------------------------- gallery
def gallery_targets():
    """(format name, construct, sample name, sample bytes): the (construct, sample) pairs are read from the repository's own
    gallery tests - commondump*/commonhex/commonbytes calls - so that every gallery and deprecated_gallery format is driven
    on every sample the repository ships for it; the constructs themselves come from the gallery packages"""
    import re, ast
    if REPO not in sys.path:
        sys.path.insert(0, REPO)
    ns = {}
    for pkg in ("gallery", "deprecated_gallery"):
        try:
            mod = __import__(pkg)
            ns.update({k: v for k, v in vars(mod).items() if not k.startswith("_")})
        except Exception:
            pass
    out = []
    for tf, blobdir in (("tests/gallery/test_gallery.py", "tests/gallery/blobs"), ("tests/deprecated_gallery/test_formats.py", "tests/deprecated_gallery/blobs"),
                        ("tests/deprecated_gallery/test_protocols.py", None)):
        try:
            src = open(os.path.join(REPO, tf)).read()
        except OSError:
            continue
        for m in re.finditer(r"commondump(?:deprecated)?\((\w+),\s*\"([^\"]+)\"\)", src):
            name, blob = m.group(1), m.group(2)
            path = os.path.join(REPO, "tests/deprecated_gallery/blobs" if "deprecated" in m.group(0) else "tests/gallery/blobs", blob)
            if name in ns and os.path.exists(path):
                out.append((name, ns[name], blob, path))
        for m in re.finditer(r"common(hex|bytes)\((\w+),\s*((?:b\"[^\"]*\"\s*\+?\s*)+)\)", src):
            kind, name, lit = m.group(1), m.group(2), m.group(3)
            if name not in ns:
                continue
            try:
                data = ast.literal_eval("(" + lit + ")")
                if kind == "hex":
                    data = bytes.fromhex(data.decode())
            except Exception:
                continue
            out.append((name, ns[name], "inline:" + data[:6].hex(), data))
    return out


def run_gallery(ctx, rng):
    import construct as C
    targets = gallery_targets()
    if ctx.index == 0:
        ctx.count("gallery_format_sample_pairs", len(targets))
        ctx.count("gallery_formats", len(set(t[0] for t in targets)))
    k = 0
    for name, con, label, src in targets:
        k += 1
        if not ctx.mine(k):
            continue
        data = open(src, "rb").read() if isinstance(src, str) else src
        if len(data) > 400000:
            continue
        base = {"gallery": name, "sample": label}
        res = chain(ctx, con, data, {}, dict(base, cls="blob"), False, "gallery:" + name)
        if res is None:
            continue
        ctx.count("gallery_samples_accepted")
        if res == "normalised":
            ctx.nontrivial("gallery", name, label)
        nflip = ctx.pick(8, 80) if len(data) > 2000 else ctx.pick(60, 400)
        for t in range(nflip):
            j = rng.randrange(len(data))
            x = 1 << rng.randrange(8)
            d2 = data[:j] + bytes([data[j] ^ x]) + data[j + 1:]
            res = chain(ctx, con, d2, {}, dict(base, cls="blob-flip", at=j, xor=x), False, "gallery:" + name)
            if res == "normalised":
                ctx.nontrivial("gallery", name, label, "flip")


DICT_METHODS = ("get", "items", "keys", "values", "update", "pop", "copy", "clear", "setdefault")


def shadowing_member(r):
    """the name of a member / label in the recipe that is also the name of a dict method (parsed containers expose members as
    attributes, which then hide the method of the same name from the library's own calls)"""
    if isinstance(r, list):
        if len(r) == 2 and isinstance(r[0], str) and r[0] in DICT_METHODS and isinstance(r[1], (list, int)):
            return r[0]
        for x in r:
            m = shadowing_member(x)
            if m:
                return m
    return None


def run(ctx):
    rng = ctx.rng
    n = ctx.pick(3000, 80000) // ctx.nworkers
    nin = ctx.pick(40, 120)
    for i in range(n):
        g = Gen(rng, maxdepth=rng.choice([1, 2, 2, 3] if ctx.quick else [2, 3, 3, 4]), fragment="full", reparse_safe=True)
        try:
            if i < 6 * ctx.pick(8, 40):
                r = [g.select_family, lambda: g.lazy_family(2), g.region_family, g.root_family, lambda: g.bitstream(True), g.index_family][i % 6]()
            else:
                r = g.recipe()
        except (M.ModelGap, M.MissingKey, M.Unsized):
            continue
        kw = dict(g.kw)
        run_recipe(ctx, rng, r, kw, nin)
        if i < 2 and ctx.index < 2:
            ctx.sample({"recipe": r, "kw": kw})
    # targeted classics
    classics = [
        (["name", "VarInt"], [b"\x80\x00", b"\x81\x80\x00", b"\xff\x80\x80\x00", b"\x85\x00xyz"]),
        (["name", "ZigZag"], [b"\x80\x00", b"\x83\x80\x00"]),
        (["name", "Flag"], [bytes([x]) for x in range(256)]),
        (["Struct", [["f", ["name", "Flag"]], ["v", ["name", "VarInt"]], [None, ["Padding", 2]], ["t", ["name", "Byte"]]]], [b"\x07\x80\x80\x00\x11\x22\x09", b"\xff\x81\x00\xaa\xbb\x01"]),
        (["Prefixed", ["name", "Byte"], ["name", "Int16ub"], False], [b"\x05\x00\x01zzz", b"\x02\x00\x01", b"\xff" + bytes(255)]),
        (["Prefixed", ["name", "VarInt"], ["CString", "ascii"], False], [b"\x85\x00abc\x00X", b"\x06ab\x00cd\x00"]),
        (["FixedSized", 6, ["CString", "utf8"]], [b"ab\x00xyz", b"\x00zzzzz"]),
        (["Padded", 4, ["name", "Byte"], tag(b"\x00")], [b"\x01\xff\xee\xdd", b"\x01\x00\x00\x00"]),
        (["Aligned", 4, ["name", "VarInt"], tag(b"\x00")], [b"\x80\x00\x99\x98", b"\x01\x07\x07\x07"]),
        (["PaddedString", 6, "utf8"], [b"ab\x00cd\x00", b"abc\x00\x00\x01"]),
        (["NullStripped", ["name", "GreedyBytes"], tag(b"\x00")], [b"ab\x00\x00", b"\x00\x00"]),
        (["FlagsEnum", ["name", "Byte"], [["r", 1], ["w", 2], ["rw", 3], ["x", 4]]], [bytes([x]) for x in range(256)]),
        (["Enum", ["name", "Byte"], [["one", 1], ["two", 2]]], [bytes([x]) for x in range(256)]),
        (["Optional", ["name", "Int16ub"]], [b"", b"\x01", b"\x01\x02", b"\x01\x02\x03"]),
        (["GreedyRange", ["name", "Int16ub"]], [b"\x00\x01\x00\x02\x03", b"\x01"]),
        # alternatives: an earlier one fails on build only after it has produced bytes
        (["Select", [["Struct", [["k", ["name", "Byte"]], ["v", ["name", "Int8ub"]], [None, ["name", "Terminated"]]]], ["Struct", [["k", ["name", "Byte"]], ["v", ["name", "Int16ub"]], [None, ["name", "Terminated"]]]]]],
         [b"\x01\x02", b"\x01\x02\x03", b"\x01\x00\x03", b"\x01", b"\x01\x02\x03\x04"]),
        (["Struct", [["h", ["name", "Byte"]], ["b", ["Prefixed", ["name", "Byte"], ["Select", [["Sequence", [[None, ["name", "Byte"]], [None, ["PascalString", ["name", "Byte"], "ascii"]], [None, ["name", "Terminated"]]]],
                                                                                      ["Sequence", [[None, ["name", "Byte"]], [None, ["name", "Int16ub"]]]]]], False]], ["t", ["name", "Byte"]]]],
         [b"\x09\x03\x01\x02\x03\x07", b"\x09\x03\x01\x01\x41\x07", b"\x09\x04\x01\x02\x03\x04\x07"]),
        (["BitStruct", [["a", ["name", "Flag"]], [None, ["Padding", 3]], ["b", ["name", "Nibble"]]]], [bytes([x]) for x in range(256)]),
        # multi-byte bit integers with every flag combination, on inputs whose bytes have different top bits
        # streamed bit regions: a repeated field whose width does not divide the data, alone and in front of a tail field
        (["Bitwise", ["GreedyRange", ["BitsInteger", 3, False, False]]], [b"\xff", b"\xff\x00", b"\xa5\x5a\xff", b"", b"\x01\x02\x03\x04"]),
        (["Bitwise", ["Struct", [["xs", ["GreedyRange", ["BitsInteger", 3, False, False]]], ["tail", ["BitsInteger", 2, False, False]]]]], [bytes([x]) for x in range(0, 256, 7)] + [b"\xff\xff", b"\x12\x34\x56"]),
        (["Bitwise", ["Struct", [["a", ["name", "Nibble"]], ["o", ["Optional", ["BitsInteger", 12, False, False]]], ["b", ["name", "Nibble"]]]]], [b"\x5a", b"\x5a\xbc", b"\x5a\xbc\xde", b"\x5a\xbc\xde\xf0"]),
    ]
    SIGNS = [b"\xff\x7f", b"\x00\x80", b"\x80\x00", b"\x7f\xff", b"\x80\x7f", b"\x01\x80", b"\xff\xff", b"\x00\x00"]
    for w in (16, 24, 32):
        for sg in (False, True):
            for sw in (False, True):
                pats = [p + bytes(w // 8 - 2) for p in SIGNS] + [bytes(w // 8 - 2) + p for p in SIGNS] + [bytes(rng.randrange(256) for _ in range(w // 8)) for _ in range(8)]
                classics.append((["Bitwise", ["BitsInteger", w, sg, sw]], pats))
                classics.append((["BitStruct", [["v", ["BitsInteger", w, sg, sw]], ["t", ["name", "Octet"]]]], [p + b"\x5a" for p in pats]))
    # display adapters around byte strings: the parsed value is a bytes subclass and is built again
    GBn = ["name", "GreedyBytes"]
    for disp in ("Hex", "HexDump"):
        classics.append(([disp, ["Bytes", 3]], [b"abc", b"\x00\xff\x80"]))
        classics.append(([disp, GBn], [b"", b"a", b"hello world"]))
        classics.append((["Struct", [["h", ["name", "Byte"]], ["p", [disp, ["Prefixed", ["name", "Byte"], GBn, False]]], ["t", [disp, ["name", "Int16ub"]]]]], [b"\x01\x02xy\x00\x07", b"\x01\x00\xff\xff"]))
        classics.append((["Array", 2, [disp, ["Bytes", 2]]], [b"abcd"]))
    # members and labels named like dict methods (a parsed container is built again)
    for nm in ("get", "items", "keys", "update", "values", "pop"):
        classics.append((["Struct", [[nm, ["name", "Byte"]], [None, ["Const", tag(b"x"), None]]]], [b"\x01x", b"\x00x"]))
        classics.append((["Struct", [[nm, ["name", "Byte"]], ["s", ["Struct", [["a", ["name", "Byte"]]]]]]], [b"\x01\x02"]))
        classics.append((["FlagsEnum", ["name", "Byte"], [[nm, 1], ["other", 2]]], [b"\x01", b"\x03", b"\x00"]))
        classics.append((["BitStruct", [[nm, ["name", "Nibble"]], [None, ["Padding", 4]]]], [b"\x50"]))
    # adapters that present part of a list (the value parsed is shorter than what was read; build fills in the rest)
    A4, B1 = ["Array", 4, ["name", "Byte"]], [b"\x01\x02\x03\x04", b"\x00\x00\x00\x00", b"\xff\xfe\xfd\xfc", b"\x01\x02\x03"]
    for start, stop, step in ((0, 2, 1), (1, 3, 1), (0, 4, 2), (1, 4, 2), (0, None, 1), (None, None, 1), (2, None, 1), (0, 3, 3), (0, 1, 1), (3, 4, 1)):
        classics.append((["Slicing", A4, 4, start, stop, step, 0], B1))
        classics.append((["Struct", [["h", ["name", "Byte"]], ["s", ["Slicing", A4, 4, start, stop, step, 9]], ["t", ["name", "Byte"]]]], [b"\x07" + b + b"\x08" for b in B1]))
    for idx in (0, 1, 3):
        classics.append((["Indexing", A4, 4, idx, 0], B1))
    for i, (r, ins) in enumerate(classics):
        if not ctx.mine(i):
            continue
        d = mk(r)
        for b in ins:
            res = chain(ctx, d, b, {}, {"recipe": r, "kw": {}, "input": tag(b), "cls": "classic"}, False, top_kind(r))
            if res == "normalised":
                ctx.nontrivial("classic", shape(r), b[:2])
        ctx.count("classic_constructs")
    run_gallery(ctx, rng)


def replay(ctx, case):
    if "gallery" in case:
        for name, con, label, src in gallery_targets():
            if name == case["gallery"] and label == case["sample"]:
                data = open(src, "rb").read() if isinstance(src, str) else src
                if "at" in case:
                    data = data[:case["at"]] + bytes([data[case["at"]] ^ case["xor"]]) + data[case["at"] + 1:]
                chain(ctx, con, data, {}, case, False, "gallery:" + name)
        return
    d = mk(case["recipe"])
    chain(ctx, d, untag(case["input"]), case.get("kw", {}), case, case.get("cls") == "canonical", top_kind(case["recipe"]))
