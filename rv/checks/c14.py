"""C14 - RawCopy reports the exact bytes processed; checksums built always verify; corruption is detected.

Oracles: the traced stream slice (RawCopy), the inner construct run in isolation (layout of the covered
region after a corruption), and the hash recomputed independently over that region.
Fault model: every single-bit corruption of every built message (covered region and digest).
"""
import os, tempfile, copy
from ..common import tag, untag
from ..recipes import mk, HASHES
from ..streams import TracedStream
from ..veq import veq

LEVEL = "fault_enumeration"
FOOT = 64
SLOT = 16
RULE = ("messages = {trailing, Pointer-placed, Prefixed-enclosed, nested-after-header, fixed-position footer written first} x digest {Byte/sum8, Int32ub/crc32, Bytes(16)/md5, Bytes(20)/sha1, "
        "Bytes(32)/sha256, Byte[4]/md5 prefix as list} x inner {fixed, length-dependent, terminated, nested, array} x generated values; every message is "
        "built, parsed back, edited and rebuilt from the parsed container (the documented workflow), and re-parsed under EVERY single-bit flip; RawCopy "
        "instances at stream offsets 0..9, inside Prefixed/FixedSized/NullTerminated(each option) substreams, parse/build/build-from-data/rebuild-after-edit/"
        "build into a stream that already extends beyond the region/file round trip. non-trivial = a flip inside a variable-length inner construct or inside a substream, "
        "or a RawCopy at a non-zero offset; distinct by (format, inner, digest, value, bit)")
ASSUMPTIONS = ["when a flip makes the inner construct itself reject the region (layout destroyed), any ConstructError counts as detection; "
               "ChecksumError is required exactly when the inner construct still parses the corrupted region",
               "an 8-bit sum that happens to verify after a layout-changing flip is accepted only if the independent recomputation agrees"]
REQUIRED_ANCHORS = ["core:RawCopy._parse", "core:RawCopy._build", "core:Checksum._parse", "core:Checksum._build", "core:Construct.build_file", "core:Construct.parse_file"]
ANCHORS = REQUIRED_ANCHORS

B = ["name", "Byte"]
INNERS = {
    "fixed": (["Struct", [["a", B], ["b", ["name", "Int16ub"]]]], lambda r: {"a": r.randrange(256), "b": r.randrange(65536)}),
    "var": (["Struct", [["n", B], ["d", ["Bytes", ["this", "n"]]]]], lambda r: (lambda n: {"n": n, "d": bytes(r.randrange(256) for _ in range(n))})(r.randrange(0, 6))),
    "term": (["NullTerminated", ["name", "GreedyBytes"]], lambda r: bytes(r.randrange(1, 256) for _ in range(r.randrange(0, 6)))),
    "nested": (["Struct", [["h", B], ["body", ["Prefixed", B, ["name", "GreedyBytes"]]], ["t", ["name", "Int16ul"]]]],
               lambda r: {"h": r.randrange(256), "body": bytes(r.randrange(256) for _ in range(r.randrange(0, 5))), "t": r.randrange(65536)}),
    "arr": (["Array", 3, B], lambda r: [r.randrange(256) for _ in range(3)]),
    "swapped-bytes": (["ByteSwapped", ["Bytes", 4]], lambda r: bytes(r.randrange(256) for _ in range(4))),     # value: bytes as long as the region, other content
    "xor-fixed": (["FixedSized", 4, ["ProcessXor", 0x5a, ["name", "GreedyBytes"]]], lambda r: bytes(r.randrange(256) for _ in range(4))),
    "bitsswapped": (["BitsSwapped", ["Bytes", 3]], lambda r: bytes(r.randrange(256) for _ in range(3))),
    # deferred members inside the covered region (skipped by their size while the region is parsed)
    "lazy-prefixed": (["Struct", [["blob", ["Lazy", ["Prefixed", ["name", "Int16ub"], ["name", "GreedyBytes"], True]]], ["t", B]]],
                      lambda r: {"blob": bytes(r.randrange(256) for _ in range(r.randrange(0, 5))), "t": r.randrange(256)}),
    "lazyarray-prefixed": (["Struct", [["xs", ["LazyArray", 2, ["Prefixed", B, ["name", "GreedyBytes"], True]]], ["t", ["name", "Int16ul"]]]],
                           lambda r: {"xs": [bytes(r.randrange(256) for _ in range(r.randrange(0, 4))) for _ in range(2)], "t": r.randrange(65536)}),
    "lazystruct": (["LazyStruct", [["a", B], ["b", ["Prefixed", B, ["name", "GreedyBytes"], False]], ["c", ["name", "Int16ub"]]]],
                   lambda r: {"a": r.randrange(256), "b": bytes(r.randrange(256) for _ in range(r.randrange(0, 4))), "c": r.randrange(65536)}),
    "empty-bytes": (["Bytes", 0], lambda r: b""),                       # regions of no bytes at all
    "empty-array": (["Array", 0, B], lambda r: []),
    "varint": (["name", "VarInt"], lambda r: r.choice([0, 1, 127, 128, 300, 2 ** 21, 2 ** 35])),
    "aligned": (["Aligned", 4, ["Struct", [["n", B], ["d", ["Bytes", ["this", "n"]]]]]], lambda r: (lambda n: {"n": n, "d": bytes(r.randrange(256) for _ in range(n))})(r.randrange(0, 5))),
}
DIGESTS = {
    "sum8": (B, 1), "crc32": (["name", "Int32ub"], 4), "md5": (["Bytes", 16], 16), "sha1": (["Bytes", 20], 20), "sha256": (["Bytes", 32], 32),
    "md5list": (["Array", 4, B], 4),
    # digest fields whose stream size is larger than the digest
    "sha1padded": (["Padded", 24, ["Bytes", 20]], 24), "crc32aligned": (["Aligned", 8, ["name", "Int32ub"]], 8),
    # digests stored as text (hex digits in lower / upper case): a changed character is a changed digest, whatever its case
    "crc32hex": (["PaddedString", 8, "ascii"], 8), "md5HEX": (["PaddedString", 12, "ascii"], 12),
}


def message(fmt, inner, digest):
    ir = INNERS[inner][0]
    dr, dn = DIGESTS[digest]
    ck = ["Checksum", dr, digest, ["this", "fields", "data"]]
    if fmt == "trailing":
        return ["Struct", [["fields", ["RawCopy", ir]], ["checksum", ck]]]
    if fmt == "pointer":
        return ["Struct", [["offset", ["name", "Tell"]], ["pad", ["Padding", dn]], ["fields", ["RawCopy", ir]],
                           ["checksum", ["Pointer", ["this", "offset"], ck]]]]
    if fmt == "prefixed":
        return ["Struct", [["hdr", B], ["msg", ["Prefixed", B, ["Struct", [["fields", ["RawCopy", ir]], ["checksum", ck]]]]], ["after", B]]]
    if fmt == "header":
        return ["Struct", [["magic", ["Const", tag(b"MG"), None]], ["fields", ["RawCopy", ir]], ["checksum", ck], ["trail", B]]]
    if fmt == "offsetted":
        # the covered region is delimited from the end (everything up to the digest), inside a length-prefixed record that does
        # not start at offset 0 of the stream
        return ["Struct", [["hdr", B], ["msg", ["Prefixed", B, ["Struct", [["fields", ["OffsettedEnd", -dn, ["RawCopy", ir]]], ["checksum", ck]]]]], ["after", B]]]
    if fmt == "fixedblock":
        # the whole record (covered region + digest) sits in a fixed-size block that does not start at offset 0
        return ["Struct", [["hdr", ["Bytes", 3]], ["blk", ["FixedSized", 48, ["Struct", [["fields", ["RawCopy", ir]], ["checksum", ck]]]]], ["after", B]]]
    if fmt == "fixedraw":
        # the covered region itself is a fixed-size slot (RawCopy directly inside FixedSized, padded with zeros), the digest follows the slot
        return ["Struct", [["hdr", B], ["fields", ["FixedSized", SLOT, ["RawCopy", ir]]], ["checksum", ck], ["after", B]]]
    if fmt == "focused":
        # the record written with FocusedSeq (the result is the RawCopy container itself)
        return ["Struct", [["hdr", B], ["rec", ["FocusedSeq", "fields", [["fields", ["RawCopy", ir]], ["checksum", ck]]]], ["after", B]]]
    if fmt == "footer":
        # a fixed-position footer is written first: while the covered region is built the stream already extends beyond it
        return ["Struct", [["foot", ["Pointer", FOOT, ["Const", tag(b"END"), None]]], ["fields", ["RawCopy", ir]], ["checksum", ck]]]
    raise ValueError(fmt)


def msg_value(fmt, v):
    if fmt in ("prefixed", "offsetted"):
        return {"hdr": 7, "msg": {"fields": {"value": v}}, "after": 9}
    if fmt == "focused":
        return {"hdr": 7, "rec": {"value": v}, "after": 9}
    if fmt == "fixedblock":
        return {"hdr": b"HDR", "blk": {"fields": {"value": v}}, "after": 9}
    if fmt == "header":
        return {"fields": {"value": v}, "trail": 3}
    if fmt == "fixedraw":
        return {"hdr": 7, "fields": {"value": v}, "after": 9}
    return {"fields": {"value": v}}


def region_start(fmt, digest):
    dn = DIGESTS[digest][1]
    return {"trailing": 0, "pointer": dn, "prefixed": 2, "header": 2, "footer": 0, "offsetted": 2, "focused": 1, "fixedblock": 3, "fixedraw": 1}[fmt]


def reference_verdict(fmt, inner, digest, msg):
    """-> ("accept",) | ("checksum",) | ("reject",)  for arbitrary message bytes (forward computation)"""
    ir = INNERS[inner][0]
    dr, dn = DIGESTS[digest]
    view = msg
    end_after = 0
    if fmt in ("prefixed", "offsetted"):
        if len(msg) < 2:
            return ("reject",)
        n = msg[1]
        if 2 + n > len(msg):
            return ("reject",)
        view = msg[:2 + n]
        if len(msg) < 2 + n + 1:
            return ("reject",)
    if fmt == "header" and msg[:2] != b"MG":
        return ("reject",)
    if fmt == "footer" and msg[FOOT:FOOT + 3] != b"END":
        return ("reject",)
    if fmt == "fixedblock":
        if len(msg) < 3 + 48 + 1:
            return ("reject",)
        view = msg[:3 + 48]
    start = region_start(fmt, digest)
    inner_view = view
    if fmt == "fixedraw":
        if len(view) < start + SLOT:
            return ("reject",)
        inner_view = view[:start + SLOT]              # the inner construct is confined to its slot
    if fmt == "offsetted":
        if len(view) - dn < start:
            return ("reject",)
        inner_view = view[:len(view) - dn]          # the inner construct is confined to everything before the digest
    s = TracedStream(inner_view, pos=start)
    try:
        mk(ir).parse_stream(s)
    except Exception:
        return ("reject",)
    region = view[start:s.pos]
    dpos = 0 if fmt == "pointer" else (len(view) - dn if fmt == "offsetted" else start + SLOT if fmt == "fixedraw" else s.pos)
    ds = TracedStream(view, pos=dpos)
    try:
        dv = mk(dr).parse_stream(ds)
    except Exception:
        return ("reject",)
    if fmt in ("header", "focused", "fixedraw") and len(view) < ds.pos + 1:
        return ("reject",)
    h = HASHES[digest](region)
    same = (list(dv) == h) if isinstance(h, list) else (dv == h)
    return ("accept",) if same else ("checksum",)


def run_message(ctx, case):
    import construct as C
    fmt, inner, digest = case["fmt"], case["inner"], case["digest"]
    v = untag(case["value"])
    d = mk(message(fmt, inner, digest))
    ir = INNERS[inner][0]
    ctx.ev()
    try:
        msg = d.build(msg_value(fmt, v))
    except Exception as e:
        ctx.violation("checksum-build-raises:%s:%s" % (fmt, type(e).__name__), "build raised %s: %s" % (type(e).__name__, e), case)
        return
    # independent check of what was built: digest over the covered region
    start = region_start(fmt, digest)
    enc = mk(ir).build(v)
    if msg[start:start + len(enc)] != enc:
        ctx.violation("checksum-build-region:" + fmt, "covered region in the built message is not the inner construct's encoding", case)
        return
    h = HASHES[digest](enc)
    hb = mk(DIGESTS[digest][0]).build(h)
    dpos = 0 if fmt == "pointer" else start + SLOT if fmt == "fixedraw" else start + len(enc)
    if msg[dpos:dpos + len(hb)] != hb:
        ctx.violation("checksum-build-digest:%s:%s" % (fmt, digest), "stored digest %s is not hash(covered region) %s" % (msg[dpos:dpos + len(hb)].hex(), hb.hex()), case)
        return
    try:
        back = d.parse(msg)
    except Exception as e:
        ctx.violation("built-checksum-does-not-verify:%s:%s" % (fmt, type(e).__name__), "parse(build(v)) raised %s: %s" % (type(e).__name__, e), case)
        return
    f = back.msg.fields if fmt in ("prefixed", "offsetted") else back.rec if fmt == "focused" else back.blk.fields if fmt == "fixedblock" else back.fields
    if not veq(f.value, mk(ir).parse(enc)) or f.data != enc:
        ctx.violation("checksum-roundtrip-value:" + fmt, "parsed fields differ from what was built", case)
    ctx.count("messages")
    # the documented way to modify a message: parse, edit fields.value, delete fields.data, build the same container (which
    # still carries the digest that was parsed) - what comes out must verify and carry the digest of the new region
    if case.get("value2") is not None:
        v2 = untag(case["value2"])
        ctx.ev()
        f.value = v2
        del f["data"]
        enc2 = mk(ir).build(v2)
        try:
            msg2 = d.build(back)
        except Exception as e:
            ctx.violation("checksum-edit-workflow-raises:%s:%s" % (fmt, type(e).__name__), "parse, edit value, delete data, build raised %s: %s" % (type(e).__name__, e), case)
            return
        hb2 = mk(DIGESTS[digest][0]).build(HASHES[digest](enc2))
        dpos2 = 0 if fmt == "pointer" else start + SLOT if fmt == "fixedraw" else start + len(enc2)
        if msg2[start:start + len(enc2)] != enc2 or msg2[dpos2:dpos2 + len(hb2)] != hb2:
            ctx.violation("checksum-stale-after-edit:%s:%s" % (fmt, digest), "rebuilt message %s: region/digest are not the new value's encoding %s and its hash %s" % (msg2.hex()[:160], enc2.hex(), hb2.hex()), case)
            return
        try:
            d.parse(msg2)
        except Exception as e:
            ctx.violation("checksum-stale-after-edit:%s:%s" % (fmt, digest), "the rebuilt message does not verify: %s" % type(e).__name__, case)
            return
        ctx.count("messages_rebuilt_after_edit")
    # every single-bit corruption
    variable = inner in ("var", "term", "nested", "varint", "aligned", "lazy-prefixed", "lazyarray-prefixed", "lazystruct")
    for bit in range(len(msg) * 8):
        bad = bytearray(msg)
        bad[bit // 8] ^= 0x80 >> (bit % 8)
        bad = bytes(bad)
        ctx.ev()
        want = reference_verdict(fmt, inner, digest, bad)
        try:
            d.parse(bad)
            got = ("accept",)
        except C.ChecksumError:
            got = ("checksum",)
        except C.ConstructError as e:
            got = ("reject", type(e).__name__)
        except Exception as e:
            ctx.violation("corruption-foreign-exception:%s:%s" % (type(e).__name__, digest), "bit %d flipped: parse raised %s: %s" % (bit, type(e).__name__, e), dict(case, bit=bit))
            break
        where = "digest" if dpos <= bit // 8 < dpos + len(hb) else "region" if start <= bit // 8 < start + len(enc) else "framing"
        if fmt == "footer" and where == "framing" and not (FOOT <= bit // 8 < FOOT + 3) and bit % 16:
            continue            # the unused gap before the footer: sample it
        if fmt == "fixedblock" and where == "framing" and bit // 8 >= dpos + len(hb) and bit % 16:
            continue            # the zero padding of the block: sample it
        if fmt == "fixedraw" and where == "framing" and start + len(enc) <= bit // 8 < dpos and bit % 8:
            continue            # the zero padding of the slot: sample it
        ctx.count("flips_in_" + where)
        if want[0] == "accept":
            ctx.count("flips_that_still_verify_per_reference")
            if got[0] != "accept":
                pass    # detecting more than necessary is not a violation of this property
            continue
        if got[0] == "accept":
            ctx.violation("corruption-undetected:%s:%s" % (where, digest), "bit %d (%s) flipped and parse succeeded; reference verdict %s" % (bit, where, want[0]), dict(case, bit=bit))
            break
        if want[0] == "checksum" and got[0] != "checksum" and not inner.startswith("lazy"):      # (a deferred member reads its bytes later than the reference run does: any rejection counts)
            ctx.violation("corruption-wrong-exception:%s:%s" % (got[1], digest), "bit %d (%s) flipped, layout intact: expected ChecksumError, got %s" % (bit, where, got[1]), dict(case, bit=bit))
            break
        if variable or fmt in ("prefixed", "offsetted"):
            ctx.nontrivial("flip", fmt, inner, digest, case["value"], bit)
    else:
        return
    return


def run_rawcopy(ctx, case):
    import construct as C
    inner, off, wrapk = case["inner"], case["offset"], case["wrap"]
    ir = INNERS[inner][0]
    v = untag(case["value"])
    x = mk(ir)
    enc = x.build(v)
    val = x.parse(enc)
    ctx.ev()
    rc = C.RawCopy(x)
    if wrapk == "plain":
        d, pre, post = rc, b"", b"\x55\x66"
        get = lambda r: r
        bv = lambda rv: rv
    elif wrapk == "struct":
        d, pre, post = C.Struct("h" / C.Int16ub, "r" / rc, "t" / C.Byte), b"\x01\x02", b"\x09"
        get = lambda r: r.r
        bv = lambda rv: {"h": 0x0102, "r": rv, "t": 9}
    elif wrapk == "prefixed":
        d, pre, post = C.Struct("p" / C.Prefixed(C.Byte, C.Struct("k" / C.Byte, "r" / rc, "rest" / C.GreedyBytes)), "t" / C.Byte), bytes([len(enc) + 3, 0x4b]), b"\xaa\xbb\x09"
        get = lambda r: r.p.r
        bv = None
    elif wrapk == "fixedsized":
        d, pre, post = C.FixedSized(len(enc) + 4, C.Struct("k" / C.Bytes(2), "r" / rc)), b"kk", b"\x00\x00"
        get = lambda r: r.r
        bv = None
    elif wrapk == "offsettedend":
        d, pre, post = C.Struct("k" / C.Bytes(2), "p" / C.Prefixed(C.Byte, C.Struct("r" / C.OffsettedEnd(-2, rc), "z" / C.Bytes(2))), "t" / C.Byte), b"kk" + bytes([len(enc) + 2]), b"\xaa\xbb\x09"
        get = lambda r: r.p.r
        bv = None
    elif wrapk.startswith("nt-"):
        # inside a terminator-delimited region, with each of NullTerminated's options; the terminator is a byte the encoding lacks
        T = bytes([[b for b in range(0xF0, 0x100) if b not in enc][0]])
        inc, cons, req = wrapk == "nt-include", wrapk != "nt-noconsume", wrapk != "nt-norequire-eof"
        nt = C.NullTerminated(C.Struct("r" / rc, "rest" / C.GreedyBytes), term=T, include=inc, consume=cons, require=req)
        if wrapk == "nt-norequire-eof":
            d, pre, post = C.Struct("k" / C.Bytes(2), "z" / nt), b"kk", b""
        else:
            d, pre, post = C.Struct("k" / C.Bytes(2), "z" / nt, "t" / C.Bytes(1 if cons else 2)), b"kk", T + b"\x09"
        get = lambda r: r.z.r
        bv = None
    data = bytes([0xEE]) * off + pre + enc + post
    s = TracedStream(data, pos=off)
    try:
        r = get(d.parse_stream(s))
    except Exception as e:
        ctx.violation("rawcopy-parse-raises:%s:%s" % (wrapk, type(e).__name__), repr(e), case)
        return
    o1 = off + len(pre)
    o2 = o1 + len(enc)
    bad = None
    if r.offset1 != o1 or r.offset2 != o2:
        bad = ("rawcopy-offsets:" + wrapk, "offsets (%r,%r), the inner construct occupies [%d,%d) of the outermost stream" % (r.offset1, r.offset2, o1, o2))
    elif r.data != data[r.offset1:r.offset2]:
        bad = ("rawcopy-data-not-slice:" + wrapk, "data %s != stream[offset1:offset2] %s" % (r.data.hex(), data[r.offset1:r.offset2].hex()))
    elif r.length != r.offset2 - r.offset1:
        bad = ("rawcopy-length", "length %r != offset2-offset1" % (r.length,))
    elif not veq(x.parse(r.data), r.value) or not veq(r.value, val):
        bad = ("rawcopy-value", "parsing data alone gives %r, value is %r" % (x.parse(r.data), r.value))
    if bad:
        ctx.violation(bad[0], bad[1], case)
        return
    if wrapk in ("plain", "struct") and s.pos != (o2 if wrapk == "plain" else o2 + 1):
        ctx.violation("rawcopy-position-after", "stream at %d after parse" % s.pos, case)
    if off or wrapk in ("prefixed", "fixedsized", "offsettedend") or wrapk.startswith("nt-"):
        ctx.nontrivial("rawcopy", inner, wrapk, off, case["value"])
    ctx.count("rawcopy_parses")
    if bv is None:
        return
    # building: from value, from data, from both (data wins), into a stream at an offset
    want = pre + enc + (post if wrapk == "struct" else b"")
    for how, rv in (("value", {"value": v}), ("data", {"data": enc}), ("parsed", r), ("both", {"data": enc, "value": v})):
        try:
            out = d.build(bv(rv))
        except Exception as e:
            ctx.violation("rawcopy-build-raises:%s:%s" % (how, type(e).__name__), repr(e), case)
            return
        if out != want:
            ctx.violation("rawcopy-build-from-" + how, "build from %s -> %s, expected %s" % (how, out.hex(), want.hex()), case)
            return
    s2 = TracedStream(bytes([0xEE]) * off, pos=off)
    try:
        d.build_stream(bv({"value": v}), s2)
        if s2.getvalue()[off:] != want:
            ctx.violation("rawcopy-build-stream", "build_stream at offset %d wrote %s" % (off, s2.getvalue()[off:].hex()), case)
    except Exception as e:
        ctx.violation("rawcopy-build-stream-raises:" + type(e).__name__, repr(e), case)
    # ... and into a buffer that already holds bytes beyond the region (a pre-sized image, a record rewritten in place)
    filler = bytes(range(0x30, 0x30 + 48))
    s3 = TracedStream(bytes([0xEE]) * off + filler, pos=off)
    try:
        d.build_stream(bv({"value": v}), s3)
        out = s3.getvalue()
        if out[off:off + len(want)] != want or out[off + len(want):] != filler[len(want):] or s3.pos != off + len(want):
            ctx.violation("rawcopy-build-into-prefilled-stream", "build_stream at offset %d of a stream that extends beyond the region: wrote %s (position %d), expected %s (position %d)"
                          % (off, out[off:off + len(want) + 4].hex(), s3.pos, want.hex(), off + len(want)), case)
    except Exception as e:
        ctx.violation("rawcopy-build-into-prefilled-stream-raises:" + type(e).__name__, repr(e), case)
    # a history on one caller-owned dict: build, edit the value, build again (the documented edit workflow)
    v2 = untag(case["value2"])
    if v2 is not None:
        obj = {"value": v}
        snapshot = dict(obj)
        d.build(bv(obj))
        if obj != snapshot:
            ctx.count("build_changed_callers_dict")    # observed, but not claimed by the property; what matters is the next build
        obj["value"] = v2
        out2 = d.build(bv(obj))
        want2 = pre + x.build(v2) + (post if wrapk == "struct" else b"")
        if out2 != want2:
            ctx.violation("rawcopy-rebuild-after-edit", "second build after editing value -> %s, expected %s" % (out2.hex(), want2.hex()), case)
        # parse -> drop data -> edit -> build
        p = get(d.parse(pre + enc + post))
        del p["data"]
        p["value"] = v2
        try:
            out3 = d.build(bv(p))
            if out3 != want2:
                ctx.violation("rawcopy-edit-workflow", "parse, delete data, edit value, build -> %s, expected %s" % (out3.hex(), want2.hex()), case)
        except Exception as e:
            ctx.violation("rawcopy-edit-workflow-raises:" + type(e).__name__, repr(e), case)
    # file entry points (build_file opens w+b so that RawCopy can read back)
    if case.get("file"):
        fd, path = tempfile.mkstemp(prefix="rv-c14-")
        os.close(fd)
        try:
            d.build_file(bv({"value": v}), path)
            on_disk = open(path, "rb").read()
            if on_disk != want:
                ctx.violation("rawcopy-build-file", "build_file wrote %s, expected %s" % (on_disk.hex(), want.hex()), case)
            with open(path, "wb") as f:
                f.write(pre + enc + post)
            rf = get(d.parse_file(path))
            if rf.data != enc or not veq(rf.value, val):
                ctx.violation("rawcopy-parse-file", "parse_file result differs", case)
            ctx.count("file_roundtrips")
        except Exception as e:
            ctx.violation("rawcopy-file-raises:" + type(e).__name__, repr(e), case)
        finally:
            os.unlink(path)


def run_ptrstream(ctx, case):
    """a covered region whose inner format, inside a length-prefixed substream, looks something up on the outermost stream
    (Pointer given stream=this._root._io): both streams keep their positions, so the region reported, the digest position and
    what follows are unaffected"""
    import construct as C, zlib
    hl, target, x, y, t = case["header"], case["target"], case["x"], case["y"], case["t"]
    d = C.Struct("h" / C.Bytes(hl),
                 "fields" / C.RawCopy(C.Prefixed(C.Byte, C.Struct("x" / C.Byte, "p" / C.Pointer(target, C.Byte, stream=C.this._root._io), "y" / C.Int16ub, "rest" / C.GreedyBytes))),
                 "checksum" / C.Checksum(C.Int32ub, lambda data: zlib.crc32(data) & 0xffffffff, C.this.fields.data), "t" / C.Byte)
    rest = bytes(case["rest"])
    h = bytes(0xA0 + i for i in range(hl))
    region = bytes([3 + len(rest), x]) + y.to_bytes(2, "big") + rest
    msg = h + region + (zlib.crc32(region) & 0xffffffff).to_bytes(4, "big") + bytes([t])
    absolute = target if target >= 0 else len(msg) + target
    ctx.ev()
    s = TracedStream(msg, pos=0)
    try:
        r = d.parse_stream(s)
    except Exception as e:
        ctx.violation("checksum-parse-rejects-valid-message:pointer-on-root-stream:" + type(e).__name__, "a correctly assembled message %s raised %s: %s" % (msg.hex(), type(e).__name__, str(e)[:120]), case)
        return
    f = r.fields
    if (f.offset1, f.offset2) != (hl, hl + len(region)) or f.data != region or f.length != len(region):
        ctx.violation("rawcopy-offsets:pointer-on-root-stream", "offsets (%r,%r) data %s; the region is [%d,%d) = %s" % (f.offset1, f.offset2, f.data.hex(), hl, hl + len(region), region.hex()), case)
        return
    if f.value.p != msg[absolute] or f.value.x != x or f.value.y != y or f.value.rest != rest or r.t != t or s.pos != len(msg):
        ctx.violation("rawcopy-value:pointer-on-root-stream", "parsed %r (position %d), expected x=%d p=%d y=%d t=%d position %d" % (r, s.pos, x, msg[absolute], y, t, len(msg)), case)
        return
    # every single-bit corruption of the region is detected
    for bit in range(8 * len(region)):
        m2 = bytearray(msg)
        m2[hl + bit // 8] ^= 1 << (bit % 8)
        ctx.ev()
        try:
            d.parse(bytes(m2))
            ctx.violation("corruption-undetected:pointer-on-root-stream", "bit %d of the covered region flipped, parse succeeded" % bit, dict(case, bit=bit))
            return
        except C.ConstructError:
            pass
        except Exception as e:
            ctx.violation("corruption-foreign-exception:" + type(e).__name__, repr(e)[:200], dict(case, bit=bit))
            return
    # building: the looked-up byte lies in the header already written (the same byte is written back)
    if 0 <= target < hl:
        ctx.ev()
        try:
            out = d.build({"h": h, "fields": {"value": {"x": x, "p": h[target], "y": y, "rest": rest}}, "t": t})
        except Exception as e:
            ctx.violation("checksum-build-raises:pointer-on-root-stream:" + type(e).__name__, repr(e)[:200], case)
            return
        if out != msg:
            ctx.violation("checksum-build-digest:pointer-on-root-stream", "built %s, expected %s" % (out.hex(), msg.hex()), case)
            return
    ctx.count("pointer_on_root_stream_messages")
    ctx.nontrivial("ptrstream", hl, target, len(rest))


def run_lazyrecords(ctx, case):
    """checksummed records with a deferred member, read one after the other from one stream, the deferred member looked at
    before the next record is read (and, in the second format, by a later member of the same region while it is being parsed):
    every record still reports its own region and verifies, and the stream ends where the records end"""
    import construct as C, zlib
    crc = lambda d: zlib.crc32(d) & 0xffffffff
    if case["variant"] == "touched-between":
        body = C.Struct("z" / C.Lazy(C.Int16ub), "n" / C.Byte, "d" / C.Bytes(C.this.n))
    else:
        body = C.Struct("z" / C.Lazy(C.Int16ub), "n" / C.Byte, "c" / C.Computed(lambda ctx: ctx.z() + 1), "d" / C.Bytes(C.this.n))
    rec = C.Struct("body" / C.RawCopy(body), "crc" / C.Checksum(C.Int32ub, crc, C.this.body.data), "t" / C.Byte)
    items = case["records"]
    regions = [z.to_bytes(2, "big") + bytes([len(d)]) + bytes(d) for z, d in items]
    blob = b"".join(rg + crc(rg).to_bytes(4, "big") + bytes([i]) for i, rg in enumerate(regions))
    s = TracedStream(bytes([0xEE]) * case["offset"] + blob, pos=case["offset"])
    pos = case["offset"]
    for i, ((z, d), rg) in enumerate(zip(items, regions)):
        ctx.ev()
        try:
            r = rec.parse_stream(s)
            zv = r.body.value.z()                 # the deferred member is evaluated now, while the stream is still in use
        except Exception as e:
            ctx.violation("checksum-parse-rejects-valid-message:lazy-records:" + type(e).__name__, "record %d of a correctly assembled stream raised %s: %s" % (i, type(e).__name__, str(e)[:120]), case)
            return
        f = r.body
        if zv != z or bytes(f.value.d) != bytes(d) or f.data != rg or (f.offset1, f.offset2) != (pos, pos + len(rg)) or r.t != i or s.pos != pos + len(rg) + 5:
            ctx.violation("rawcopy-offsets:lazy-records", "record %d: z=%r d=%r data=%s offsets=(%r,%r) t=%r stream at %d; expected z=%d d=%s data=%s offsets=(%d,%d) t=%d stream at %d"
                          % (i, zv, f.value.d, f.data.hex(), f.offset1, f.offset2, r.t, s.pos, z, bytes(d).hex(), rg.hex(), pos, pos + len(rg), i, pos + len(rg) + 5), case)
            return
        pos += len(rg) + 5
    ctx.count("lazy_record_streams")
    ctx.nontrivial("lazy-records", case["variant"], len(items), case["offset"])


def run_case(ctx, case):
    if case["kind"] == "lazyrecords":
        return run_lazyrecords(ctx, case)
    if case["kind"] == "ptrstream":
        run_ptrstream(ctx, case)
    elif case["kind"] == "message":
        run_message(ctx, case)
    else:
        run_rawcopy(ctx, case)


def run(ctx):
    rng = ctx.rng
    fmts = ["trailing", "pointer", "prefixed", "header", "footer", "offsetted", "focused", "fixedblock", "fixedraw"]
    combos = [(f, i, g) for f in fmts for i in INNERS for g in DIGESTS]
    per = ctx.pick(1, 12)
    if ctx.index == 0:
        ctx.count("format_inner_digest_combinations", len(combos))
    for k, (f, i, g) in enumerate(combos):
        if not ctx.mine(k):
            continue
        for j in range(per):
            v = INNERS[i][1](rng)
            case = {"kind": "message", "fmt": f, "inner": i, "digest": g, "value": tag(v), "value2": tag(INNERS[i][1](rng))}
            run_case(ctx, case)
            if k % 40 == 0 and j == 0:
                ctx.sample(case)
    k = 0
    for i in INNERS:
        for wrapk in ("plain", "struct", "prefixed", "fixedsized", "offsettedend", "nt-default", "nt-include", "nt-noconsume", "nt-norequire-eof"):
            for off in range(10):
                k += 1
                if not ctx.mine(k):
                    continue
                for j in range(ctx.pick(2, 10)):
                    v = INNERS[i][1](rng)
                    case = {"kind": "rawcopy", "inner": i, "wrap": wrapk, "offset": off, "value": tag(v), "value2": tag(INNERS[i][1](rng)), "file": (off % 5 == 0 and j == 0 and not i.startswith("lazy"))}    # (a lazy result needs its stream open: not through parse_file)
                    run_case(ctx, case)
                    if k % 60 == 0 and j == 0:
                        ctx.sample(case)


    for j in range(ctx.pick(12, 120)):
        if ctx.mine(j):
            for variant in ("touched-between", "touched-during"):
                run_case(ctx, {"kind": "lazyrecords", "variant": variant, "offset": rng.choice([0, 3]),
                               "records": [[rng.randrange(65536), [rng.randrange(256) for _ in range(rng.randrange(0, 5))]] for _ in range(rng.randint(2, 4))]})
    k = 0
    for hl in (1, 2, 5):
        for target in (0, 1, hl - 1, hl + 1, -1, -6):
            for nrest in (0, 1, 4):
                k += 1
                if not ctx.mine(k):
                    continue
                for j in range(ctx.pick(2, 8)):
                    run_case(ctx, {"kind": "ptrstream", "header": hl, "target": target, "x": rng.randrange(256), "y": rng.randrange(65536), "t": rng.randrange(256),
                                   "rest": [rng.randrange(256) for _ in range(nrest)]})


def replay(ctx, case):
    case = {k: v for k, v in case.items() if k != "bit"}
    run_case(ctx, case)
