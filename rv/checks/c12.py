"""C12 - documented construct equivalences hold extensionally.

The law list is extracted at run time from the `<-->` lines of the live docstrings (construct/core.py)
and docs/*.rst.  Both sides of every line are *evaluated from the documentation text itself* with the
doc's free names (n, subcon, E, lengthfield, condfunc, ...) bound to concrete instantiations, so an
edited or added law is picked up; a line the binder does not recognise makes the run inconclusive.
Laws the property names but the docs spell without the arrow (aliases defined as FormatField/
BytesInteger calls, Padding(n) or Padded(n, Pass), Hex/HexDump 'only difference is pretty-printing',
operator spellings) come from a fixed table.
Oracle: the two sides against each other (parse: equal values or both reject; build: identical bytes or both reject).
"""
import os, re, glob, enum, itertools
from ..common import tag, untag, REPO
from ..veq import norm


def veq(a, b):
    """equality for law comparison: structural, and bool == int as in Python (Hex(Flag) displays False as 0)"""
    return _b2i(norm(a)) == _b2i(norm(b))


def _b2i(n):
    if isinstance(n, tuple) and n:
        if n[0] == "bool":
            return ("int", int(n[1]))
        if n[0] == "dict":
            return ("dict", {k: _b2i(v) for k, v in n[1].items()})
        if n[0] == "list":
            return ("list", [_b2i(v) for v in n[1]])
    return n
from ..streams import TracedStream

LEVEL = "exploration"
RULE = ("law instances = every `<-->` line found in core.py docstrings and docs/*.rst (bound by evaluating the documentation text) x parameter "
        "instantiations (widths 1..16 bytes, signed, swapped, counts, moduli, conditions true/false, several sub-constructs and enum classes incl. classes with "
        "aliases and named multi-bit combinations) + fixed table of alias/operator/Hex laws (operators also with operands that have members but are not bare "
        "Sequences/Structs); inputs: all byte strings of the relevant length-1..length+1 exhaustively up to 2 bytes, boundary+random "
        "beyond; values incl. boundaries, out-of-range, wrong type, None. non-trivial = a case rejected by both sides or on a width boundary; "
        "distinct by (law instance, case)")
ASSUMPTIONS = ["exception *types* of the two sides may differ; only accept/reject and the value/bytes are compared",
               "the lower-case `byte` in docs/misc.rst is read as Byte (typo, not a law)",
               "for IntEnum/IntFlag classes with aliases or named multi-bit combinations the keyword side lists what iterating the class yields (its canonical members)"]
REQUIRED_ANCHORS = ["core:BytesInteger._parse", "core:BitsInteger._parse", "core:Bitwise", "core:Bytewise", "core:ByteSwapped", "core:Optional", "core:If",
                    "core:Padding", "core:PrefixedArray", "core:BitStruct", "core:Enum.__init__", "core:FlagsEnum.__init__", "core:Hex._decode",
                    "core:HexDump._decode", "core:Construct.__getitem__", "core:Construct.__add__", "core:Construct.__rshift__", "core:Construct.__rtruediv__",
                    "core:Construct.__mul__", "core:AlignedStruct"]
ANCHORS = REQUIRED_ANCHORS


def extract_laws():
    """-> list of (where, [side texts])"""
    laws = []
    files = [os.path.join(REPO, "construct", "core.py")] + sorted(glob.glob(os.path.join(REPO, "docs", "*.rst")))
    for fn in files:
        try:
            lines = open(fn, encoding="utf8").read().split("\n")
        except OSError:
            continue
        for i, line in enumerate(lines):
            if "<-->" not in line:
                continue
            text = line.strip()
            j = i + 1
            while text.count("(") > text.count(")") and j < len(lines):      # multi-line law (PrefixedArray)
                text += " " + lines[j].strip()
                j += 1
            sides = [s.strip() for s in text.split("<-->")]
            laws.append(("%s:%d" % (os.path.relpath(fn, REPO), i + 1), sides))
    return laws


def env_base():
    import construct as C
    import construct.lib as L
    env = {k: getattr(C, k) for k in dir(C) if not k.startswith("_")}
    env.update({k: getattr(L, k) for k in dir(L) if not k.startswith("_")})
    env["byte"] = C.Byte

    def HOOK(obj, ctx):
        """a parsed hook that matters: it refuses some values (a hook runs after the member it is attached to was parsed)"""
        v = obj if isinstance(obj, int) else obj.get("value", 0) if isinstance(obj, dict) else 0
        if isinstance(v, int) and v % 3 == 1:
            raise C.ValidationError("hook refuses %r" % (v,))
    env["HOOK"] = HOOK
    env["parsedhook"] = HOOK
    return env


def instantiations(sides):
    """Free-name bindings for a law, decided by which free names / bare macro names its text uses.
    -> list of (label, env additions, [transformed side sources]) or None if the law is not recognised."""
    import construct as C
    text = " <--> ".join(sides)
    names = set(re.findall(r"[A-Za-z_][A-Za-z_0-9]*", text))
    out = []

    def add(label, env, srcs=None):
        out.append((label, env, srcs or sides))

    if "n" in names and ("BytesInteger" in names or "BitsInteger" in names):
        for n in range(1, 17):
            add("n=%d" % n, {"n": n})
            # the same law with signed=True on both sides (the property quantifies over signed as well)
            s2 = [re.sub(r"(BytesInteger|BitsInteger)\(([^()]*)\)", lambda m: "%s(%s, signed=True)" % (m.group(1), m.group(2)), s) for s in sides]
            add("n=%d,signed" % n, {"n": n}, s2)
        return out
    if "E" in names and ("Enum" in names or "FlagsEnum" in names):
        for base in (enum.IntEnum, enum.IntFlag):
            for members in ([("one", 1), ("two", 2)], [("a", 1), ("b", 2), ("c", 4), ("d", 128)], [("only", 8)],
                            # aliases and named multi-bit combinations: the class's members are what iterating it yields
                            [("one", 1), ("uno", 1), ("two", 2)], [("r", 1), ("w", 2), ("rw", 3), ("x", 4), ("all", 7)], [("a", 2), ("b", 2), ("c", 2)]):
                E = base("E", members)
                kwsrc = ", ".join("%s=%d" % (m.name, m.value) for m in E)
                srcs = [re.sub(r"one=1, two=2", kwsrc, s) for s in sides]
                add("%s%r" % (base.__name__, [m for m, _ in members]), {"E": E}, srcs)
        return out
    if sides[0] == "PrefixedArray":
        for lf, lfn in ((C.Byte, "Byte"), (C.VarInt, "VarInt"), (C.Int16ul, "Int16ul")):
            for sc, scn in ((C.Byte, "Byte"), (C.Int16ub, "Int16ub"), (C.CString("ascii"), "CString"), (C.Struct("a" / C.Byte, "b" / C.Flag), "Struct")):
                add("%s,%s" % (lfn, scn), {"lengthfield": lf, "subcon": sc}, ["PrefixedArray(lengthfield, subcon)", sides[1]])
                # the same law where the array is skipped by its actual size (deferred parsing) instead of being parsed
                if scn in ("Byte", "Int16ub"):
                    for wn, w in (("LazyArray", "Struct('z' / LazyArray(2, %s), 't' / Byte)"), ("LazyStruct-unnamed", "LazyStruct('a' / Byte, %s, 't' / Byte)"),
                                  ("LazyStruct-named", "LazyStruct('a' / Byte, 'p' / %s, 't' / Byte)"), ("Lazy", "Struct('l' / Lazy(%s), 't' / Byte)")):
                        add("%s,%s,in %s" % (lfn, scn, wn), {"lengthfield": lf, "subcon": sc}, [w % "PrefixedArray(lengthfield, subcon)", w % ("(" + sides[1] + ")")])
        return out
    if sides[0] == "Optional":
        for sc, scn in ((C.Byte, "Byte"), (C.Int16ub, "Int16ub"), (C.Const(b"AB"), "Const"), (C.CString("ascii"), "CString"), (C.OneOf(C.Byte, [1, 2]), "OneOf"),
                        (C.Struct("a" / C.Byte, "b" / C.Const(b"\x01")), "Struct")):
            add(scn, {"subcon": sc}, ["Optional(subcon)", sides[1]])
        return out
    if sides[0] == "If":
        for cond, cn in ((True, "True"), (False, "False"), (C.this._params.c, "this._params.c"), (C.this._params.c > 1, "expr")):
            for sc, scn in ((C.Byte, "Byte"), (C.Int16ub, "Int16ub"), (C.CString("ascii"), "CString")):
                add("%s,%s" % (cn, scn), {"condfunc": cond, "subcon": sc}, ["If(condfunc, subcon)", sides[1]])
        return out
    if sides[0] == "BitStruct":
        sets = [
            ("flag-nibble-bits10-pad1", '"a" / Flag, "b" / Nibble, "c" / BitsInteger(10), "d" / Padding(1)'),
            ("signed", '"a" / BitsInteger(3, signed=True), "b" / BitsInteger(13, signed=True)'),
            ("swapped-bytewise", '"a" / BitsInteger(16, swapped=True), "b" / Bytewise(Int16ul), "c" / Octet'),
            ("anonymous", 'Padding(4), "x" / Nibble'),
            # members given as keywords, and positional and keyword members mixed (declaration order: positional first)
            ("keywords", 'a=BitsInteger(3), b=BitsInteger(5)'),
            ("mixed", '"a" / BitsInteger(3), b=BitsInteger(5)'),
            ("mixed-4", '"a" / Flag, "b" / BitsInteger(6, signed=True), c=Flag, d=Octet'),
            ("mixed-anonymous", 'Padding(2), "a" / BitsInteger(2), b=BitsInteger(12, signed=True)'),
        ]
        for label, members in sets:
            add(label, {}, ["BitStruct(%s)" % members, sides[1].replace("...", members)])
        return out
    if sides[0] in ("Bitwise", "Bytewise") and "Restreamed" in text:
        # both are macros over a sub-construct; Restreamed is the unsized implementation, so use sub-constructs of both kinds
        if sides[0] == "Bitwise":
            subs = [("Struct(Nibble,Nibble)", 'Struct("a" / Nibble, "b" / Nibble)'), ("BitsInteger(16)", "BitsInteger(16)"), ("GreedyRange(Bit)", "GreedyRange(Bit)"),
                    ("Bits(this._params.w)", "BitsInteger(this._params.w)"),
                    # inner constructs of less than one byte and of no width at all (the region takes nothing / is refused; what follows is untouched)
                    ("Nibble", "Nibble"), ("Bit", "Bit"), ("BitsInteger(7)", "BitsInteger(7)"), ("Struct()", "Struct()"), ("Array(0,Bit)", "Array(0, Bit)"), ("Pass", "Pass"), ("Padding(0)", "Padding(0)")]
            for label, src in subs:
                add(label, {}, ["Bitwise(%s)" % src, sides[1].replace("subcon", src)])
        else:
            subs = [("Int16ul", "Int16ul"), ("Bytes(2)", "Bytes(2)"), ("Bytes(this._params.nb)", "Bytes(this._params.nb)")]
            for label, src in subs:
                add(label, {}, ["Bitwise(Struct('h' / Octet, 'x' / Bytewise(%s)))" % src, "Bitwise(Struct('h' / Octet, 'x' / %s))" % sides[1].replace("subcon", src)])
        return out
    if "parsedhook" in names:
        add("hook refusing some values", {})          # both spellings attach the same hook: it must run (and refuse) in both
        return out
    # laws without free names: evaluate as they are (aliases, Int24ul chain, Bit/Nibble/Octet, "num"/Byte, Byte*"comment")
    free = names - set(env_base()) - {"newname", "newdocs", "newparsed", "num", "comment", "swapped", "True", "False"}
    if not free:
        add("", {})
        return out
    return None


def build_side(src, env):
    e = dict(env_base())
    e.update(env)
    return eval(src, {"__builtins__": {}}, e)


def outcome(f):
    try:
        return ("ok", f())
    except Exception as e:
        return ("exc", type(e).__name__)


def inputs_for(d, rng, kw, bitlevel):
    """byte strings for a pair, from the LHS size when it is known"""
    try:
        n = d.sizeof(**kw)
    except Exception:
        n = None
    ins = []
    alphabet = [0, 1] if bitlevel else None
    if n is not None and n <= 2 and not bitlevel:
        for L in range(0, n + 2):
            if L <= 2:
                ins += [bytes(t) for t in itertools.product(range(256), repeat=L)] if L < 2 else [i.to_bytes(2, "big") for i in range(65536)]
            else:
                ins += [bytes(rng.getrandbits(8) for _ in range(L)) for _ in range(64)]
        return ins
    lens = sorted(set([0, 1, 2, 3, 4, 8] + ([max(0, n - 1), n, n + 1] if n is not None else [5, 6, 7, 9, 12])))
    for L in lens:
        pats = [bytes([0] * L), bytes([255 if not bitlevel else 1] * L)]
        if L:
            pats += [bytes([0x80 if not bitlevel else 1]) + bytes(L - 1), bytes([0x7f if not bitlevel else 0]) + bytes([255 if not bitlevel else 1] * (L - 1)),
                     bytes(L - 1) + b"\x01", bytes(range(1, L + 1)) if not bitlevel else bytes(i & 1 for i in range(L))]
        for _ in range(24):
            pats.append(bytes((rng.getrandbits(1) if bitlevel else rng.choice([0, 1, 2, 0x7f, 0x80, 0xff, 0x41, rng.getrandbits(8)])) for _ in range(L)))
        ins += pats
    return ins


def values_from(d1, d2, inputs, kw, rng):
    """build values: everything either side parses from the inputs, plus hostile values"""
    vals = []
    seen = set()
    for data in inputs[:: max(1, len(inputs) // 400)]:
        for d in (d1, d2):
            r = outcome(lambda: d.parse(data, **kw))
            if r[0] == "ok":
                k = repr(r[1])[:200]
                if k not in seen:
                    seen.add(k)
                    vals.append(r[1])
    hostile = [None, 0, 1, -1, 2, 127, 128, 255, 256, -128, -129, 2 ** 15, 2 ** 15 - 1, -2 ** 15, -2 ** 15 - 1, 2 ** 16 - 1, 2 ** 16, 2 ** 31, 2 ** 32, 2 ** 63, 2 ** 64,
               2 ** 127, 2 ** 128 - 1, 2 ** 128, -2 ** 127, -2 ** 127 - 1, 1.5, "x", "one", "two", "one|two", b"", b"a", b"AB", [], [1], [1, 2, 3], [300], {}, {"a": 1}, {"one": True}, True, False,
               {"a": 1, "b": True}, [{"a": 1, "b": True}], "a", "only", [0, 1], {"x": 5}, {"a": 3, "b": 200, "c": 4, "d": None}, "hello", ["hi", "yo"]]
    return vals + hostile


def read_all(v, stream):
    """deferred (lazy) members are read inside the observed call, with the stream put back where the parse left it: a lazy
    parse has accepted the input only once all of it could be read"""
    pos = stream.pos
    try:
        norm(v)
    finally:
        stream.pos = pos
    return v


def compare_pair(ctx, where, label, srcs, i, j, env, rng):
    import construct as C
    try:
        d1 = build_side(srcs[i], env)
        d2 = build_side(srcs[j], env)
    except Exception as e:
        ctx.violation("law-side-not-constructible:%s" % (where.split(":")[0],), "%s [%s]: evaluating %r / %r raised %s: %s" % (where, label, srcs[i], srcs[j], type(e).__name__, e),
                      {"where": where, "label": label, "sides": [srcs[i], srcs[j]]})
        return
    # bit-level laws (BitsInteger vs Bytewise(BytesInteger)) operate on bit strings
    bitlevel = isinstance(d1, C.BitsInteger) or isinstance(d2, C.BitsInteger)
    kws = [{}]
    if "_params" in srcs[i] + srcs[j] or any(hasattr(v, "__call__") and not isinstance(v, C.Construct) and not isinstance(v, type) for v in env.values()):
        kws = [{"c": 0, "w": 8, "nb": 2}, {"c": 2, "w": 16, "nb": 1}, {"c": 1, "w": 3, "nb": 2}]
    casebase = {"where": where, "label": label, "sides": [srcs[i], srcs[j]]}
    key = "%s|%s" % (srcs[i], srcs[j])
    for kw in kws:
        inputs = inputs_for(d1, rng, kw, bitlevel)
        bad = False
        for data in inputs:
            ctx.ev()
            s1, s2 = TracedStream(data), TracedStream(data)
            r1 = outcome(lambda: read_all(d1.parse_stream(s1, **kw), s1))
            r2 = outcome(lambda: read_all(d2.parse_stream(s2, **kw), s2))
            if r1[0] != r2[0] or (r1[0] == "ok" and (not veq(r1[1], r2[1]) or s1.pos != s2.pos)):
                ctx.violation("law-parse-differs:" + lawkey(srcs, i, j), "%s [%s] parse(%s): %r -> %r (pos %d) ; %r -> %r (pos %d)" % (where, label, data.hex(), srcs[i], r1, s1.pos, srcs[j], r2, s2.pos),
                              dict(casebase, kw=kw, input=tag(data)))
                bad = True
                break
            if r1[0] == "exc":
                ctx.nontrivial("law", key, "rej", data[:3])
        if bad:
            continue
        for v in values_from(d1, d2, inputs, kw, rng):
            ctx.ev()
            b1 = outcome(lambda: d1.build(v, **kw))
            b2 = outcome(lambda: d2.build(v, **kw))
            if b1[0] != b2[0] or (b1[0] == "ok" and b1[1] != b2[1]):
                ctx.violation("law-build-differs:" + lawkey(srcs, i, j), "%s [%s] build(%r): %r -> %r ; %r -> %r" % (where, label, v, srcs[i], b1, srcs[j], b2),
                              dict(casebase, kw=kw, value=tag(v)))
                break
            if b1[0] == "exc":
                ctx.nontrivial("law", key, "brej", repr(v)[:20])
    ctx.count("law_instances_compared")


def lawkey(srcs, i, j):
    """mechanism key: the law's two side texts with digits abstracted"""
    f = lambda s: re.sub(r"\d+", "N", re.sub(r"\s+", "", s))[:60]
    return f(srcs[i]) + "~" + f(srcs[j])


FIXED = None


def fixed_table():
    """(where, label, [side sources], env) laws the property names that the docs state in prose or by definition"""
    t = []
    fmt = {8: "B", 16: "H", 32: "L", 64: "Q"}
    for bits in (8, 16, 32, 64):
        for sg in "us":
            for en, ec in (("b", ">"), ("l", "<"), ("n", "=")):
                name = "Int%d%s%s" % (bits, sg, en)
                f = fmt[bits] if sg == "u" else fmt[bits].lower()
                sides = [name, "FormatField(%r, %r)" % (ec, f)]
                if en != "n":
                    sides.append("BytesInteger(%d, signed=%s, swapped=%s)" % (bits // 8, sg == "s", en == "l"))
                t.append(("definition of %s" % name, "", sides, {}))
    for sg in "us":
        for en in "bln":
            name = "Int24%s%s" % (sg, en)
            sw = {"b": "False", "l": "True", "n": "native"}[en]
            t.append(("definition of %s" % name, "", [name, "BytesInteger(3, signed=%s, swapped=%s)" % (sg == "s", sw)], {}))
    for bits, f in ((16, "e"), (32, "f"), (64, "d")):
        for en, ec in (("b", ">"), ("l", "<"), ("n", "=")):
            t.append(("definition of Float%d%s" % (bits, en), "", ["Float%d%s" % (bits, en), "FormatField(%r, %r)" % (ec, f)], {}))
    for n in (0, 1, 4, 7):
        t.append(("Padding docstring: Padding(4) or Padded(4, Pass)", "n=%d" % n, ["Padding(%d)" % n, "Padded(%d, Pass)" % n], {}))
        t.append(("Padding docstring: Padding(4) or Padded(4, Pass)", "n=%d,pattern" % n, ["Padding(%d, pattern=b'*')" % n, "Padded(%d, Pass, pattern=b'*')" % n], {}))
    for x in ("Byte", "Int32ub", "Int16sl", "Int24ul", "Bytes(3)", "GreedyBytes", "VarInt", "Struct('a' / Byte)", "RawCopy(Int16ub)", "Flag", "CString('utf8')"):
        t.append(("Hex docstring: only difference is pretty-printing", x, ["Hex(%s)" % x, x], {}))
        t.append(("HexDump docstring: only difference is pretty-printing", x, ["HexDump(%s)" % x, x], {}))
    # ... also when the wrapped construct carries a parsed hook (the wrapper forwards to the construct as a whole, hooks included)
    for x in ("Int16ub * HOOK", "Byte * HOOK", "RawCopy(Int16ub) * HOOK", "Struct('a' / (Byte * HOOK), 'b' / Byte)", "Array(2, Byte * HOOK)"):
        t.append(("Hex docstring: only difference is pretty-printing", "hooked " + x, ["Hex(%s)" % x, x], {}))
        t.append(("HexDump docstring: only difference is pretty-printing", "hooked " + x, ["HexDump(%s)" % x, x], {}))
    for x, n in (("Byte", 3), ("Int16ub", 0), ("Byte", "this._params.c"), ("CString('ascii')", 2)):
        t.append(("operator x[n]", "%s[%s]" % (x, n), ["%s[%s]" % (x, n), "Array(%s, %s)" % (n, x)], {}))
    t.append(("operator a + b", "", ["'a' / Byte + 'b' / Int16ub", "Struct('a' / Byte, 'b' / Int16ub)"], {}))
    t.append(("operator a + b", "three", ["'a' / Byte + 'b' / Int16ub + 'c' / CString('ascii')", "Struct('a' / Byte, 'b' / Int16ub, 'c' / CString('ascii'))"], {}))
    t.append(("operator a + b", "struct-left-reused", ["HDR + 'x' / Byte", "Struct('k' / Byte, 'l' / Byte, 'x' / Byte)"], {"_hdr_reuse": True}))
    t.append(("operator a >> b", "", ["Byte >> Int16ub", "Sequence(Byte, Int16ub)"], {}))
    t.append(("operator a >> b", "three", ["Byte >> Int16ub >> VarInt", "Sequence(Byte, Int16ub, VarInt)"], {}))
    t.append(("operator a >> b", "seq-left-reused", ["SEQ >> Flag", "Sequence(Byte, Byte, Flag)"], {"_seq_reuse": True}))
    # only bare Sequences / Structs are merged: anything else that merely has members is nested as one element
    for x in ("Struct('x' / Byte, 'y' / Byte)", "Optional(Int16ub)", "Select(Const(b'AB'), Int16ub)", "Union(0, 'a' / Int16ub, 'b' / Bytes(2))", "FocusedSeq('v', Const(b'\\x01'), 'v' / Byte)",
              "('pair' / Sequence(Byte, Byte))", "Array(2, Byte)", "BitStruct('a' / Nibble, 'b' / Nibble)", "Sequence(Byte, Byte) * 'documented'"):
        t.append(("operator a >> b", "right=" + x, ["Byte >> %s" % x, "Sequence(Byte, %s)" % x], {}))
        t.append(("operator a >> b", "left=" + x, ["%s >> Byte" % x, "Sequence(%s, Byte)" % x], {}))
    for x in ("'s' / Struct('x' / Byte, 'y' / Byte)", "'q' / Sequence(Byte, Byte)", "'o' / Optional(Int16ub)", "'u' / Union(0, 'a' / Int16ub, 'b' / Bytes(2))",
              "'f' / FocusedSeq('v', Const(b'\\x01'), 'v' / Byte)"):
        t.append(("operator a + b", "right=" + x, ["'h' / Byte + %s" % x, "Struct('h' / Byte, %s)" % x], {}))
        t.append(("operator a + b", "left=" + x, ["%s + 't' / Byte" % x, "Struct(%s, 't' / Byte)" % x], {}))
    t.append(("AlignedStruct docstring", "", ["AlignedStruct(4, 'a' / Int8ub, 'b' / Int16ub)", "Struct('a' / Aligned(4, Int8ub), 'b' / Aligned(4, Int16ub))"], {}))
    # the Int24ul chain with the byte order taken from the context (documented: swapped may be a context lambda) and with signed integers
    for n in (2, 3, 5):
        for sg in (False, True):
            t.append(("ByteSwapped(BytesInteger) chain", "n=%d,signed=%s,order from the context" % (n, sg),
                      ["ByteSwapped(BytesInteger(%d, signed=%s, swapped=this._params.c))" % (n, sg), "BytesInteger(%d, signed=%s, swapped=lambda ctx: not ctx._params.c)" % (n, sg),
                       "Transformed(BytesInteger(%d, signed=%s, swapped=this._params.c), swapbytes, %d, swapbytes, %d)" % (n, sg, n, n)], {}))
            for le in (True, False):
                t.append(("ByteSwapped(BytesInteger) chain", "n=%d,signed=%s,le=%s" % (n, sg, le),
                          ["ByteSwapped(BytesInteger(%d, signed=%s, swapped=%s))" % (n, sg, le), "BytesInteger(%d, signed=%s, swapped=%s)" % (n, sg, not le)], {}))
    # the name operator with a bytes name (a legacy spelling the library accepts) against the Renamed constructor
    for nm in ("b'num'", "'num'", "u'num'"):
        t.append(("name / x <--> Renamed(x, newname=name)", "in-struct,%s" % nm, ["Struct(%s / Byte, 'w' / Byte)" % nm, "Struct(Renamed(Byte, newname=%s), 'w' / Byte)" % nm], {}))
        t.append(("name / x <--> Renamed(x, newname=name)", "focused,%s" % nm, ["FocusedSeq(%s, %s / Int16ub, 'w' / Byte)" % (nm, nm), "FocusedSeq(%s, Renamed(Int16ub, newname=%s), 'w' / Byte)" % (nm, nm)], {}))
        t.append(("name / x <--> Renamed(x, newname=name)", "union,%s" % nm, ["Union(0, %s / Int16ub, 'w' / Byte)" % nm, "Union(0, Renamed(Int16ub, newname=%s), 'w' / Byte)" % nm], {}))
    # If as a member of a structure: the wrapper is anonymous and does not build from nothing unless its branch does
    for cond in ("True", "False", "this._params.c", "this._params.c > 1"):
        t.append(("If <--> IfThenElse as a member", "named-branch,%s" % cond, ["Struct(If(%s, 'a' / Byte), 'w' / Byte)" % cond, "Struct(IfThenElse(%s, 'a' / Byte, Pass), 'w' / Byte)" % cond], {}))
        t.append(("If <--> IfThenElse as a member", "named-wrapper,%s" % cond, ["Struct('v' / If(%s, Int16ub), 'w' / Byte)" % cond, "Struct('v' / IfThenElse(%s, Int16ub, Pass), 'w' / Byte)" % cond], {}))
        t.append(("If <--> IfThenElse as a member", "sequence,%s" % cond, ["Sequence(If(%s, 'a' / Byte), Byte)" % cond, "Sequence(IfThenElse(%s, 'a' / Byte, Pass), Byte)" % cond], {}))
    t.append(("AlignedStruct docstring", "mixed", ["AlignedStruct(4, 'a' / Int8ub, b=Int16ub, c=Int8ub)", "Struct('a' / Aligned(4, Int8ub), b=Aligned(4, Int16ub), c=Aligned(4, Int8ub))"], {}))
    t.append(("AlignedStruct docstring", "keywords", ["AlignedStruct(2, a=Int8ub, b=Int24ub)", "Struct(a=Aligned(2, Int8ub), b=Aligned(2, Int24ub))"], {}))
    return t


def run(ctx):
    import construct as C
    rng = ctx.rng
    laws = extract_laws()
    if ctx.index == 0:
        ctx.count("law_lines_found_in_docs", len(laws))
    jobs = []
    seen_text = set()
    for where, sides in laws:
        text = " <--> ".join(sides)
        inst = instantiations(sides)
        if inst is None:
            from ..common import Inconclusive
            raise Inconclusive("unrecognised documented law at %s: %r" % (where, text))
        if text in seen_text:
            continue            # the same law text repeated in another docstring
        seen_text.add(text)
        for label, env, srcs in inst:
            for i in range(len(srcs) - 1):
                for j in range(i + 1, len(srcs)):
                    jobs.append((where, label, srcs, i, j, env))
    for where, label, srcs, env in fixed_table():
        for i in range(len(srcs) - 1):
            for j in range(i + 1, len(srcs)):
                jobs.append((where, label, srcs, i, j, env))
    if ctx.index == 0:
        ctx.count("law_instances_total", len(jobs))
        ctx.count("distinct_law_texts", len(seen_text))
    for k, (where, label, srcs, i, j, env) in enumerate(jobs):
        if not ctx.mine(k):
            continue
        env = dict(env)
        if env.pop("_hdr_reuse", False):
            # a Struct used as the left operand of + twice: the first use must not change what the second builds
            hdr = C.Struct("k" / C.Byte, "l" / C.Byte)
            _ = hdr + ("zz" / C.Int16ub)
            env["HDR"] = hdr
        if env.pop("_seq_reuse", False):
            sq = C.Sequence(C.Byte, C.Byte)
            _ = sq >> C.Int16ub
            env["SEQ"] = sq
        compare_pair(ctx, where, label, srcs, i, j, env, rng)
        if k % 37 == 0:
            ctx.sample({"where": where, "label": label, "lhs": srcs[i], "rhs": srcs[j]})


def replay(ctx, case):
    import random
    rng = random.Random(0)
    print("law instance: %s [%s] %s" % (case["where"], case["label"], case["sides"]))
    # re-run the whole instance (inputs are regenerated)
    for where, sides in extract_laws():
        if where == case["where"]:
            for label, env, srcs in instantiations(sides) or []:
                if label == case["label"]:
                    for i in range(len(srcs) - 1):
                        for j in range(i + 1, len(srcs)):
                            compare_pair(ctx, where, label, srcs, i, j, env, rng)
            return
    for where, label, srcs, env in fixed_table():
        if where == case["where"] and label == case["label"]:
            for i in range(len(srcs) - 1):
                for j in range(i + 1, len(srcs)):
                    compare_pair(ctx, where, label, srcs, i, j, {k: v for k, v in env.items() if not k.startswith("_")}, rng)
