"""C03 - encodings match an independent executable specification of each wire format.

Oracle: rv.refmodel (written from the format definitions).  For every case both directions are compared:
  build : same accept/reject verdict and identical bytes
  parse : same accept/reject verdict, equal value, same number of bytes consumed (parse_stream + tell)
"""
import itertools, struct, sys
from ..common import tag, untag
from ..recipes import mk, shape
from .. import refmodel as M
from ..gen import Gen, genval, INT_NAMES, FLOAT_NAMES, ENCODINGS
from ..libmodel import lib_build, lib_parse, model_build, model_parse, same_value, top_kind, kinds_in

LEVEL = "exploration"
RULE = ("(1) exhaustive sweeps: every 8- and 16-bit integer type through each public name, FormatField and BytesInteger constructor - all values built "
        "(plus out-of-range neighbours) and all byte strings of length 0..2 parsed; VarInt/ZigZag all values < 2^14 (quick) / 2^21 (thorough) and all byte "
        "strings of length <= 2 (quick) / 3 (thorough); every Float16 bit pattern parsed and rebuilt; Flag all bytes; (2) boundary/random: widths to 128 "
        "bits around every power-of-two boundary, VarInt/ZigZag around 2^63, 2^64, 2^70, 2^100, doubles on both sides of every binary16/32 rounding and "
        "overflow boundary, strings x encodings (empty, exactly filling, one too long, terminator aligned/unaligned, field lengths that are not multiples of the "
        "code unit), NullStripped with 1/2/3/4-byte pad units over every byte string of length <= 7 from a small alphabet, negative signed length/count "
        "fields, wrong types; (3) composite recipes from the typed grammar (core fragment) x generated + hostile values x canonical/mutated/random bytes. "
        "non-trivial = case on a boundary or rejected by the reference; distinct by (construct, case class)")
ASSUMPTIONS = ["NaN: all NaNs form one class (payload/sign not compared)", "native-endian names follow sys.byteorder",
               "cases the reference model does not describe (ModelGap/MissingKey) are skipped and counted, never judged",
               "any exception escaping build counts as 'rejected' here; exception *types* on malformed input are C06's subject"]
REQUIRED_ANCHORS = ["core:FormatField._parse", "core:FormatField._build", "core:BytesInteger._parse", "core:BytesInteger._build", "core:BitsInteger._parse",
                    "core:BitsInteger._build", "core:VarInt._parse", "core:VarInt._build", "core:ZigZag._parse", "core:ZigZag._build", "core:StringEncoded._decode",
                    "core:StringEncoded._encode", "core:PaddedString", "core:PascalString", "core:CString", "core:GreedyString", "core:Flag._parse", "core:Enum._decode",
                    "core:FlagsEnum._decode", "core:Mapping._decode", "core:Struct._parse", "core:Struct._build", "core:Sequence._parse", "core:Array._parse",
                    "core:FocusedSeq._parse", "core:Padded._parse", "core:Padded._build", "core:Aligned._parse", "core:Aligned._build", "core:Prefixed._parse",
                    "core:Prefixed._build", "core:FixedSized._parse", "core:NullTerminated._parse", "core:NullStripped._parse", "binary:integer2bytes",
                    "binary:bytes2integer", "binary:integer2bits", "binary:bits2integer"]
ANCHORS = REQUIRED_ANCHORS


class Runner:
    def __init__(self, ctx):
        self.ctx = ctx
        self.cache = {}

    def con(self, r):
        key = repr(r)
        d = self.cache.get(key)
        if d is None:
            d = mk(r)
            if len(self.cache) > 5000:
                self.cache.clear()
            self.cache[key] = d
        return d

    def build(self, r, v, kw, cls, label_from=None):
        """label_from = [recipe of another Enum, "attr" | "parsed"]: the library is given, wherever v holds a label string, the
        label object that other Enum hands out for it (a string as far as the receiving construct is concerned)"""
        ctx = self.ctx
        ctx.ev()
        mb = model_build(r, v, kw)
        libv = v
        if label_from is not None:
            libv = with_label_objects(v, self.con(label_from[0]), label_from[1])
        if mb[0] == "gap":
            ctx.count("model_gap")
            return None
        if mb[0] == "ok" and len(mb[1]) > (1 << 20):
            ctx.count("resource_gap_encoding_over_1MiB")      # e.g. a mutated count of 2^28 padding bytes: size, not semantics
            return None
        lb = lib_build(self.con(r), libv, kw)
        case = {"dir": "build", "recipe": r, "kw": kw, "value": tag(v), "cls": cls}
        if label_from is not None:
            case["label_from"] = label_from
        if lb[0] != "ok" and lb[1] in ("MemoryError", "OverflowError"):
            ctx.count("resource_gap_library_memory")
            return None
        if mb[0] == "ok":
            if lb[0] != "ok":
                ctx.violation("build-rejects-valid:%s" % top_kind(r), "reference builds %s, library raised %s" % (mb[1].hex(), lb[1:]), case)
                return None
            if lb[1] != mb[1]:
                if not self.nan_equiv(r, lb[1], mb[1], kw):
                    ctx.violation("build-bytes-differ:%s" % top_kind(r), "build(%r): library %s, reference %s" % (v, lb[1].hex(), mb[1].hex()), case)
                return None
            return lb[1]
        ctx.count("rejected_by_reference_build")
        ctx.nontrivial("b", shape(r), cls, mb[1])
        if lb[0] == "ok":
            ctx.violation("build-accepts-invalid:%s:%s" % (top_kind(r), mb[1]), "reference rejects build(%r) (%s), library emitted %s" % (v, mb[1], lb[1].hex()), case)
        return None

    def nan_equiv(self, r, b1, b2, kw):
        p1, p2 = model_parse(r, b1, kw), model_parse(r, b2, kw)
        return p1[0] == "ok" and p2[0] == "ok" and same_value(p1[1], p2[1]) and len(b1) == len(b2) and "nan" in repr(p1[1]).lower()

    def parse(self, r, data, kw, cls):
        ctx = self.ctx
        ctx.ev()
        mp = model_parse(r, data, kw)
        if mp[0] == "gap":
            ctx.count("model_gap")
            return
        lp = lib_parse(self.con(r), data, kw)
        case = {"dir": "parse", "recipe": r, "kw": kw, "data": tag(data), "cls": cls}
        if mp[0] == "ok":
            if lp[0] != "ok":
                ctx.violation("parse-rejects-valid:%s" % top_kind(r), "reference parses %s to %r, library raised %s" % (data.hex(), mp[1], lp[1:]), case)
            elif not same_value(lp[1], mp[1]):
                ctx.violation("parse-value-differs:%s" % top_kind(r), "parse(%s): library %r, reference %r" % (data.hex(), lp[1], mp[1]), case)
            elif lp[2] != mp[2]:
                ctx.violation("parse-consumed-differs:%s" % top_kind(r), "parse(%s): library consumed %d bytes, reference %d" % (data.hex(), lp[2], mp[2]), case)
            return
        ctx.count("rejected_by_reference_parse")
        ctx.nontrivial("p", shape(r), cls, mp[1])
        if lp[0] == "ok":
            ctx.violation("parse-accepts-invalid:%s:%s" % (top_kind(r), mp[1]), "reference rejects %s (%s), library returned %r" % (data.hex(), mp[1], lp[1]), case)


def with_label_objects(v, other, how):
    if isinstance(v, str):
        try:
            return getattr(other, v) if how == "attr" else other.parse(other.build(v))
        except Exception:
            return v
    if isinstance(v, dict):
        return {k: with_label_objects(x, other, how) for k, x in v.items()}
    if isinstance(v, list):
        return [with_label_objects(x, other, how) for x in v]
    return v


def sweep_foreign_labels(R, ctx):
    """label objects handed out by one Enum (attribute access, parse results) given to another construct with a label table:
    they are strings, so the receiving table alone decides the integer - or that the label is unknown"""
    tables = [[["a", 1], ["b", 2]], [["a", 16], ["c", 2]], [["b", 1], ["quit", 9]], [["a", 1], ["b", 2], ["quit", 255]], [["c", 1]]]
    subs = [["name", "Byte"], ["name", "Int16ul"], ["name", "VarInt"]]
    k = 0
    for t1 in tables:
        for t2 in tables:
            if t1 is t2:
                continue
            for sub in subs:
                for kind1 in ("Enum", "EnumClass"):
                    k += 1
                    if not ctx.mine(k):
                        continue
                    src = [kind1, ["name", "Byte"], t1]
                    for dst in (["Enum", sub, t2], ["EnumClass", sub, t2], ["Mapping", sub, t2], ["Struct", [["h", ["name", "Byte"]], ["e", ["Enum", sub, t2]]]],
                                ["Array", 2, ["Enum", sub, t2]]):
                        for lab, _ in t1:
                            v = lab if dst[0] not in ("Struct", "Array") else {"h": 7, "e": lab} if dst[0] == "Struct" else [lab, lab]
                            for how in ("attr", "parsed"):
                                R.build(dst, v, {}, "foreign-label", label_from=[src, how])
                    ctx.nontrivial("foreign-label", repr(t1), repr(t2), sub[1], kind1)


def sweep_declaration_forms(R, ctx):
    """structures declared with keyword members (alone and mixed with positional ones) are the same format as with positional
    members; label strings naming overlapping or repeated flags are the OR of the masks"""
    Bt, H = ["name", "Byte"], ["name", "Int16ub"]
    k = 0
    for mod in (2, 3, 4):
        for ms in ([["a", Bt], ["b", H]], [["a", Bt], ["b", H], ["c", ["Bytes", 3]]], [["x", ["Bytes", 5]], ["y", Bt]]):
            for npos in range(len(ms) + 1):
                k += 1
                if not ctx.mine(k):
                    continue
                r = ["AlignedStruct", mod, ms, npos]
                for _ in range(6):
                    v = {n: (R.ctx.rng.randrange(256) if m == Bt else R.ctx.rng.randrange(65536) if m == H else bytes(R.ctx.rng.randrange(256) for _ in range(m[1]))) for n, m in ms}
                    b = R.build(r, v, {}, "declaration-forms")
                    if b is not None:
                        R.parse(r, b + b"\x77", {}, "declaration-forms")
                        R.parse(r, b[:-1], {}, "declaration-forms")
                R.ctx.nontrivial("alignedstruct-keywords", mod, len(ms), npos)
    # lengths, counts and alignments written as <constant> <op> <field> (the constant on the left)
    N = ["this", "n"]
    for j, dep in enumerate((["Bytes", ["bin", "<<", 1, N]], ["Array", ["bin", "<<", 1, N], Bt], ["Aligned", ["bin", "<<", 2, N], Bt], ["Padding", ["bin", "-", 6, N]], ["Bytes", ["bin", ">>", 16, N]],
                             ["PaddedString", ["bin", "//", 12, ["bin", "+", N, 1]], "ascii"], ["Array", ["bin", "%", 7, ["bin", "+", N, 2]], H], ["Bytes", ["bin", "**", 2, N]])):
        if not ctx.mine(k + 2 + j):
            continue
        r = ["Struct", [["n", Bt], ["d", dep], ["t", Bt]]]
        for n in range(0, 5):
            try:
                v = {"n": n, "d": genval(dep, R.ctx.rng, M.top_scope({"n": n})), "t": 9}
            except Exception:
                continue
            b = R.build(r, v, {}, "declaration-forms")
            if b is not None:
                R.parse(r, b, {}, "declaration-forms")
        R.ctx.nontrivial("reflected-operator-length", repr(dep)[:60])
    fl = ["FlagsEnum", Bt, [["r", 4], ["rw", 6], ["x", 1], ["all", 7], ["hi", 0x80]]]
    if ctx.mine(k + 1):
        for sp in ("r|rw", "rw|r", "r|r", "x|rw|r", "all|x", "hi|all|hi", "r | rw", "rw", "all"):
            R.build(fl, sp, {}, "declaration-forms")
            R.build(["Struct", [["h", Bt], ["f", fl]]], {"h": 1, "f": sp}, {}, "declaration-forms")


def sweep_mapping_labels(R, ctx):
    """Mapping tables whose Python-side labels are falsy or unusual objects (False, 0, "", None, bytes, the empty tuple):
    a label is whatever the table says, in both directions, exhaustively over the byte domain"""
    Bt = ["name", "Byte"]
    tables = [[[True, 1], [False, 0]], [[0, 5], [7, 6]], [["", 0], ["x", 1]], [[None, 0], ["n", 1]], [[tag(b""), 2], [tag(b"k"), 3]], [[{"t": []}, 4], [{"t": [1, 2]}, 5]],
              [[0.0, 9], [1.5, 8]], [[False, 255], ["", 254], [None, 253]]]     # (not False and 0 together: they are the same dict key)
    for i, t in enumerate(tables):
        if not ctx.mine(i):
            continue
        for sub in (Bt, ["name", "Int16ul"], ["name", "VarInt"]):
            r = ["Mapping", sub, t]
            width = 1 if sub == Bt else 2
            for b in range(256):
                R.parse(r, bytes([b]) + bytes(width - 1) + b"\xee", {}, "mapping-labels")
            for key, val in t:
                k2 = untag(key) if isinstance(key, dict) else key
                R.build(r, k2, {}, "mapping-labels")
                R.build(["Struct", [["h", Bt], ["m", r]]], {"h": 1, "m": k2}, {}, "mapping-labels")
            for other in (True, False, 0, 1, "", None, b"", (), "zz", 2.5):
                R.build(r, other, {}, "mapping-labels")
        ctx.nontrivial("mapping-labels", repr(t))


HOSTILE = [None, 1.5, "x", b"x", True, [], {}, -1, 2 ** 200, float("inf")]


def int_recipes():
    out = [["name", n] for n in INT_NAMES + ["Byte", "Short", "Int", "Long"]]
    for e in "=<>":
        for f in "BHLQbhlq":
            out.append(["FormatField", e, f])
    for n in (1, 2, 3, 4, 5, 7, 8, 9, 12, 16):
        for s in (False, True):
            for sw in (False, True):
                out.append(["BytesInteger", n, s, sw])
    return out


def sweep_int(R, r, rng, ctx):
    kw = {}
    nb = M.size(r, M.top_scope({}))
    sg = r[2] if r[0] == "BytesInteger" else (M.INTNAMES[r[1]][1] if r[0] == "name" else M.FMT_INT[r[2]][1])
    bits = 8 * nb
    lo, hi = (-(1 << (bits - 1)), (1 << (bits - 1)) - 1) if sg else (0, (1 << bits) - 1)
    if nb <= 2:
        for v in range(lo - 2, hi + 3):
            R.build(r, v, kw, "exh")
        for L in range(0, nb + 1):
            for t in (itertools.product(range(256), repeat=L) if L < 2 else ((i >> 8, i & 255) for i in range(65536))):
                R.parse(r, bytes(t) + (b"\xAA" if L == nb else b""), kw, "exh")
        ctx.count("exhaustive_int_types")
    else:
        vals = set([lo, hi, lo - 1, hi + 1, 0, 1, -1, lo + 1, hi - 1])
        for k in range(0, bits + 2, 1):
            for d in (-1, 0, 1):
                vals.add((1 << k) + d)
                vals.add(-(1 << k) + d)
        for _ in range(40):
            vals.add(rng.randint(lo, hi))
        for v in sorted(vals):
            R.build(r, v, kw, "boundary")
        for L in (0, 1, nb - 1, nb, nb + 1):
            for _ in range(12):
                R.parse(r, bytes(rng.choice([0, 0x7f, 0x80, 0xff, rng.getrandbits(8)]) for _ in range(L)), kw, "boundary")
        for pat in (b"\x00", b"\xff", b"\x80", b"\x7f"):
            R.parse(r, pat * nb, kw, "boundary")
            R.parse(r, pat + b"\x00" * (nb - 1), kw, "boundary")
            R.parse(r, b"\x00" * (nb - 1) + pat, kw, "boundary")
    for v in HOSTILE:
        R.build(r, v, kw, "hostile")
    ctx.nontrivial("int", r)


def sweep_varint(R, ctx, rng, lo, hi):
    for name in ("VarInt", "ZigZag"):
        r = ["name", name]
        for v in range(lo, hi):
            b = R.build(r, v, {}, "exh")
            if b is not None:
                R.parse(r, b + b"\x80", {}, "exh")
            if name == "ZigZag":
                R.build(r, -v, {}, "exh")


def sweep_varint_bytes(R, ctx, maxlen):
    idx = 0
    for L in range(0, maxlen + 1):
        for t in itertools.product(range(256), repeat=L):
            idx += 1
            if not ctx.mine(idx):
                continue
            b = bytes(t)
            R.parse(["name", "VarInt"], b, {}, "exh")
            R.parse(["name", "ZigZag"], b, {}, "exh")


def float_recipes():
    out = [["name", n] for n in FLOAT_NAMES + ["Half", "Single", "Double"]]
    for e in "=<>":
        for f in "efd":
            out.append(["FormatField", e, f])
    return out


def float_boundaries():
    vals = [0.0, -0.0, 1.0, -1.0, 0.1, 1 / 3, float("inf"), float("-inf"), 1e-320, 5e-324, 1.7976931348623157e308]
    # binary16: max 65504, overflow threshold 65520, min normal 2^-14, min subnormal 2^-24, rounding ties at 11 bits
    for base in (65504.0, 65519.0, 65519.99, 65520.0, 65520.01, 65536.0, 2.0 ** -14, 2.0 ** -24, 2.0 ** -25, 1.5 * 2.0 ** -25, 2.0 ** -26, 2049.0, 2051.0, 2050.0, 1.0009765625, 1.00048828125, 1.000732421875):
        vals += [base, -base]
    # binary32: max, overflow threshold, ties at 24 bits, subnormals
    fmax = 3.4028234663852886e38
    thr = 3.4028235677973366e38      # fmax + half ulp: ties-to-even rounds up -> overflow
    for base in (fmax, thr, float.fromhex("0x1.fffffefffffffp+127"), 3.5e38, 1e39, 2.0 ** -126, 2.0 ** -149, 2.0 ** -150, 1.5 * 2.0 ** -150, 16777217.0, 16777219.0, 1.0000000596046448, 1.00000017881393433):
        vals += [base, -base]
    return vals


def sweep_floats(R, ctx, rng):
    recs = float_recipes()
    bvals = float_boundaries()
    for i, r in enumerate(recs):
        if not ctx.mine(i):
            continue
        nb = M.size(r, M.top_scope({}))
        bits = nb * 8
        for v in bvals + [rng.uniform(-1e5, 1e5) for _ in range(30)] + [3, -7, 2 ** 70, 10 ** 400, True]:
            R.build(r, v, {}, "boundary")
        for v in HOSTILE[:4] + [[], "1.0"]:
            R.build(r, v, {}, "hostile")
        if bits == 16:
            for u in range(65536):
                data = u.to_bytes(2, "big")
                R.parse(r, data + b"\x55", {}, "exh")
                mp = model_parse(r, data, {})
                if mp[0] == "ok" and mp[1] == mp[1]:
                    R.build(r, mp[1], {}, "exh")
            ctx.count("exhaustive_float16_types")
        else:
            for _ in range(3000 if ctx.quick else 40000):
                R.parse(r, bytes(rng.getrandbits(8) for _ in range(nb)), {}, "random")
            for L in (0, 1, nb - 1, nb + 1):
                R.parse(r, bytes(L), {}, "boundary")
            specials = [0, 1, (1 << (bits - 1)), (1 << bits) - 1]
            eb, mb_ = M.FPARAM[bits]
            for e in (0, 1, (1 << eb) - 2, (1 << eb) - 1):
                for m in (0, 1, (1 << mb_) - 1, 1 << (mb_ - 1)):
                    for s in (0, 1):
                        specials.append((s << (bits - 1)) | (e << mb_) | m)
            for u in specials:
                for order in ("big", "little"):
                    R.parse(r, u.to_bytes(nb, order), {}, "boundary")
        ctx.nontrivial("float", r)


def sweep_strings(R, ctx, rng):
    vals = ["", "a", "ab", "abc", "abcd", "hello world", "Аф", "é", "€", "a\x00b", "\x00", "z" * 9, "\U0001F600"]
    i = 0
    for enc in ENCODINGS:
        u = M.UNIT[enc]
        recs = [["CString", enc], ["GreedyString", enc], ["PascalString", ["name", "Byte"], enc], ["PascalString", ["name", "VarInt"], enc], ["PascalString", ["name", "Int16ul"], enc]]
        for n in (0, u, 2 * u, 4 * u, 6 * u, 10 * u) + ((u + 1, 2 * u + 1, 3 * u - 1) if u > 1 else ()):
            recs.append(["PaddedString", n, enc])
        for r in recs:
            i += 1
            if not ctx.mine(i):
                continue
            for v in vals + [5, b"raw", None]:
                R.build(r, v, {}, "string")
            # byte-level inputs: canonical encodings with / without terminator, at aligned and unaligned positions
            seeds = []
            for v in vals[:9]:
                try:
                    seeds.append(v.encode(enc))
                except Exception:
                    pass
            for s in seeds:
                for tail in (b"", bytes(u), bytes(u) + b"xy", bytes(1), b"\xff", bytes(u - 1) if u > 1 else b"\x01", bytes(2 * u)):
                    for pre in (b"", bytes([len(s) & 0xff]), bytes([len(s) + len(tail) & 0xff]), (len(s)).to_bytes(2, "little")):
                        R.parse(r, pre + s + tail, {}, "string")
                R.parse(r, s[:-1], {}, "string")
            for _ in range(20):
                R.parse(r, bytes(rng.choice([0, 0, 0x41, 0xd8, 0xdc, 0xff, 0xfe, 0x80, rng.getrandbits(8)]) for _ in range(rng.randint(0, 12))), {}, "string")
            ctx.nontrivial("string", r)
    ctx.count("string_constructs", i if ctx.index == 0 else 0)


def sweep_strip(R, ctx):
    """NullStripped with one-, two- and four-byte pad units over every byte string of length 0..7 from a small alphabet:
    whole pad units and an incomplete last unit are padding, any other ragged tail is payload"""
    i = 0
    for pad in (b"\x00", b"\x20", b"\x00\x00", b"\x20\x00", b"\x00\x00\x00\x00", b"\x00\x00\x01"):
        r = ["NullStripped", ["name", "GreedyBytes"], tag(pad)]
        alphabet = sorted(set(pad) | {0x41, 0})
        for n in range(0, 8 if len(alphabet) <= 3 else 6):
            for t in itertools.product(alphabet, repeat=n):
                i += 1
                if not ctx.mine(i):
                    continue
                data = bytes(t)
                R.parse(r, data, {}, "strip")
                R.parse(["Struct", [["h", ["name", "Byte"]], ["s", ["FixedSized", n, r]], ["t", ["name", "Byte"]]]], b"\x07" + data + b"\x09", {}, "strip")
        for v in (b"", b"A", b"AB", b"A" + pad, pad, b"ABC"):
            R.build(r, v, {}, "strip")
        ctx.nontrivial("strip", pad.hex())


def sweep_terminated(R, ctx):
    """NullTerminated with every combination of include / consume / require, one- and two-byte terminators, followed by a member that
    shows where the stream stands afterwards; every byte string of length 0..6 over {terminator bytes, 'A'}"""
    i = 0
    for term in (b"\x00", b"\xff\xfe"):
        alphabet = sorted(set(term) | {0x41})
        for include, consume, require in itertools.product((False, True), repeat=3):
            nt = ["NullTerminated", ["name", "GreedyBytes"], tag(term), include, consume, require]
            recs = [["Struct", [["h", ["name", "Byte"]], ["z", nt], ["t", ["name", "GreedyBytes"]]]],
                    ["Struct", [["p", ["Prefixed", ["name", "Byte"], ["Struct", [["z", nt], ["r", ["name", "GreedyBytes"]]]], False]], ["t", ["name", "Byte"]]]]]
            for n in range(0, 7 if len(alphabet) == 2 else 6):
                for tup in itertools.product(alphabet, repeat=n):
                    i += 1
                    if not ctx.mine(i):
                        continue
                    data = bytes(tup)
                    R.parse(recs[0], b"\x07" + data, {}, "terminated")
                    R.parse(recs[1], bytes([len(data)]) + data + b"\x09", {}, "terminated")
            for v in (b"", b"A", b"AA" + term, term, b"A" + term[:1]):
                R.build(recs[0], {"h": 1, "z": v, "t": b"xy"}, {}, "terminated")
            ctx.nontrivial("terminated", term.hex(), include, consume, require)


def sweep_streamed_bits(R, ctx):
    """bit regions whose size is discovered while streaming: a streamed region must end on a byte boundary in both directions"""
    B4 = ["name", "Nibble"]
    r1 = ["Bitwise", ["Struct", [["n", B4], ["v", ["BitsInteger", ["this", "n"], False, False]]]]]
    r2 = ["Bitwise", ["GreedyRange", ["BitsInteger", 3, False, False]]]
    r3 = ["Bitwise", ["Struct", [["xs", ["GreedyRange", ["BitsInteger", 3, False, False]]], ["tail", ["BitsInteger", 2, False, False]]]]]
    r4 = ["Bitwise", ["Struct", [["a", B4], ["o", ["Optional", ["BitsInteger", 12, False, False]]], ["b", B4]]]]
    k = 0
    for n in range(1, 16):
        for v in (0, 1, (1 << n) - 1):
            k += 1
            if ctx.mine(k):
                R.build(r1, {"n": n, "v": v}, {}, "streamed-bits")
    for L in range(0, 10):
        k += 1
        if ctx.mine(k):
            R.build(r2, [5] * L, {}, "streamed-bits")
            R.build(r3, {"xs": [5] * L, "tail": 2}, {}, "streamed-bits")
    for a in range(256):
        k += 1
        if not ctx.mine(k):
            continue
        for tail in (b"", b"\x5a", b"\xa5\xc3", b"\xff\x00\x81"):
            for r in (r1, r2, r3, r4):
                R.parse(r, bytes([a]) + tail, {}, "streamed-bits")
    ctx.nontrivial("streamed-bits", "regions", 4)


def sweep_zero_width(R, ctx):
    """wrappers around inner constructs of zero width (and of less than one byte): they take nothing from the stream, so a
    following member sees every byte"""
    B = ["name", "Byte"]
    zero = [["ByteSwapped", ["Bytes", 0]], ["Bitwise", ["Array", 0, ["name", "Bit"]]], ["BitStruct", []], ["Bitwise", ["Struct", []]], ["Bitwise", ["Padding", 0]], ["Bytes", 0], ["Array", 0, B],
            ["Padding", 0], ["BitsSwapped", ["Bytes", 0]], ["ByteSwapped", ["Struct", []]]]
    for i, z in enumerate(zero):
        if not ctx.mine(i):
            continue
        for r in (["Struct", [["z", z], ["t", ["name", "Int16ub"]]]], ["Sequence", [[None, B], [None, z], [None, ["name", "GreedyBytes"]]]], ["Struct", [["a", ["Prefixed", B, ["Struct", [["z", z], ["r", ["name", "GreedyBytes"]]]], False]], ["t", B]]]):
            for data in (b"", b"\x01", b"\x01\x02", b"\x02\x03\x04\x05", b"\x03abc\x09", b"\xff" * 6):
                R.parse(r, data, {}, "zero-width")
        ctx.nontrivial("zero-width", z)


def sweep_negative_lengths(R, ctx, rng):
    recs = [
        ["Prefixed", ["name", "Int8sb"], ["name", "GreedyBytes"], False], ["Prefixed", ["name", "Int8sb"], ["name", "GreedyBytes"], True],
        ["Prefixed", ["name", "Int16sl"], ["Bytes", 1], False], ["PrefixedArray", ["name", "Int8sb"], ["name", "Byte"]],
        ["Struct", [["n0", ["name", "Int8sb"]], ["a", ["Array", ["this", "n0"], ["name", "Byte"]]]]],
        ["Struct", [["n0", ["name", "Int8sb"]], ["d", ["Bytes", ["this", "n0"]]]]],
        ["Struct", [["n0", ["name", "Int8sb"]], ["d", ["Padding", ["this", "n0"]]]]],
        ["Struct", [["n0", ["name", "Int8sb"]], ["d", ["FixedSized", ["this", "n0"], ["name", "GreedyBytes"]]]]],
        ["Struct", [["n0", ["name", "Int8sb"]], ["d", ["PaddedString", ["this", "n0"], "ascii"]]]],
        ["Struct", [["n0", ["name", "Int8sb"]], ["d", ["Padded", ["this", "n0"], ["name", "Pass"]]]]],
        ["Struct", [["n0", ["name", "Int8sb"]], ["d", ["BytesInteger", ["this", "n0"], False, False]]]],
        ["PascalString", ["name", "Int8sb"], "ascii"],
    ]
    for i, r in enumerate(recs):
        if not ctx.mine(i):
            continue
        for first in range(256):
            for tail in (b"", b"ab", b"abcdefgh" * 20):
                R.parse(r, bytes([first]) + tail, {}, "neglen")
        ctx.nontrivial("neglen", r)
    ctx.count("negative_length_constructs", len(recs) if ctx.index == 0 else 0)


def sweep_bits(R, ctx, rng):
    """BitsInteger of every width 1..24 (and 32, 64) x signed x swapped inside a byte-aligned bit region"""
    i = 0
    for w in list(range(1, 25)) + [32, 64]:
        for sg in (False, True):
            for sw in ((False, True) if w % 8 == 0 else (False,)):
                i += 1
                if not ctx.mine(i):
                    continue
                pad = (8 - w % 8) % 8
                ms = [["v", ["BitsInteger", w, sg, sw]]] + ([[None, ["Padding", pad]]] if pad else [])
                r = ["Bitwise", ["Struct", ms]]
                lo, hi = (-(1 << (w - 1)), (1 << (w - 1)) - 1) if sg else (0, (1 << w) - 1)
                vals = {lo - 1, lo, lo + 1, -1, 0, 1, hi - 1, hi, hi + 1, hi + 2, (hi + 1) * 2}
                for _ in range(10):
                    vals.add(rng.randint(lo, hi))
                if w <= 10:
                    vals |= set(range(lo - 1, hi + 2))
                for v in sorted(vals):
                    R.build(r, {"v": v}, {}, "bits")
                nb = (w + pad) // 8
                pats = [bytes(nb), b"\xff" * nb, b"\x80" + bytes(nb - 1), b"\x7f" + b"\xff" * (nb - 1), bytes(nb - 1) + b"\x01"] + [bytes(rng.getrandbits(8) for _ in range(nb)) for _ in range(10)]
                if nb == 1:
                    pats = [bytes([x]) for x in range(256)]
                for pt in pats:
                    R.parse(r, pt, {}, "bits")
                for v in (None, 1.5, "x", True):
                    R.build(r, {"v": v}, {}, "hostile")
                ctx.nontrivial("bits", w, sg, sw)
    ctx.count("bitsinteger_parameterisations", i if ctx.index == 0 else 0)


def mutate_bytes(rng, b):
    c = rng.random()
    if not b or c < 0.15:
        return b + bytes([rng.getrandbits(8)])
    j = rng.randrange(len(b))
    if c < 0.5:
        return b[:j] + bytes([b[j] ^ (1 << rng.randrange(8))]) + b[j + 1:]
    if c < 0.65:
        return b[:j]
    if c < 0.8:
        return b[:j] + bytes([rng.choice([0, 0xff, 0x80, 0x7f])]) + b[j + 1:]
    if c < 0.9:
        return b[:j] + bytes([rng.getrandbits(8)]) + b[j:]
    return b[:j] + b[j + 1:]


def mutate_value(rng, v):
    """make a domain value hostile somewhere inside"""
    if isinstance(v, dict) and v:
        k = rng.choice(sorted(v, key=str))
        v2 = dict(v)
        if rng.random() < 0.2:
            del v2[k]
        else:
            v2[k] = mutate_value(rng, v[k])
        return v2
    if isinstance(v, list):
        if v and rng.random() < 0.6:
            j = rng.randrange(len(v))
            return v[:j] + [mutate_value(rng, v[j])] + v[j + 1:]
        return v + [rng.choice([0, None, b"", "x"])] if rng.random() < 0.5 else v[:-1]
    if isinstance(v, bool):
        return rng.choice([None, 2, "t"])
    if isinstance(v, int):
        return rng.choice([v + (1 << rng.choice([7, 8, 15, 16, 31, 32, 63, 64, 128])), -v - 1, None, 1.5, "x", v * 256 + 1, -(1 << rng.choice([7, 15, 31, 63])) - 1])
    if isinstance(v, float):
        return rng.choice([None, "x", 1e39, 70000.0, 10 ** 400])
    if isinstance(v, bytes):
        return rng.choice([v + b"\x00", v[:-1], v.decode("latin1"), None, 5])
    if isinstance(v, str):
        return rng.choice([v + "\x00", v + "é€", v.encode("utf8"), None, 7, v + "x" * 300])
    return rng.choice([0, "x", b"y", [1]])


def composites(R, ctx, rng):
    n = ctx.pick(2000, 50000) // ctx.nworkers
    ncases = ctx.pick(24, 80)
    for i in range(n):
        g = Gen(rng, maxdepth=rng.choice([1, 2, 2, 3]), fragment="core")
        try:
            # the first composites of every worker: references to the outermost scope from three levels down; regions delimited
            # from their end; tunnels; then the typed grammar
            r = [g.root_family, g.region_family][i % 2]() if i < ctx.pick(16, 80) else g.recipe()
            kw = dict(g.kw)
            mk(r)
        except Exception as e:
            ctx.count("recipe_not_constructible")
            continue
        canon = []
        for j in range(ncases // 3):
            try:
                v = genval(r, rng, M.top_scope(dict(kw)))
            except (M.ModelGap, M.MissingKey, M.Unsized, M.Reject):
                ctx.count("value_generation_gap")
                break
            b = R.build(r, v, kw, "domain")
            if b is not None:
                canon.append(b)
                R.parse(r, b, kw, "canonical")
                R.parse(r, b + bytes(rng.getrandbits(8) for _ in range(rng.randint(1, 3))), kw, "canonical+tail")
            R.build(r, mutate_value(rng, v), kw, "hostile-value")
        for b in canon[:6]:
            for _ in range(4):
                R.parse(r, mutate_bytes(rng, b), kw, "mutated")
            for t in range(len(b)):
                if t % max(1, len(b) // 6) == 0:
                    R.parse(r, b[:t], kw, "truncated")
        for _ in range(6):
            R.parse(r, bytes(rng.choice([0, 1, 2, 0x7f, 0x80, 0xff, rng.getrandbits(8)]) for _ in range(rng.randint(0, 24))), kw, "random")
        ctx.count("composite_recipes")
        for kd in kinds_in(r):
            ctx.count("kind_" + kd)
        if i < 2 and ctx.index < 3:
            ctx.sample({"recipe": r, "kw": kw, "canonical_encodings": [tag(b) for b in canon[:2]]})


def run(ctx):
    rng = ctx.rng
    R = Runner(ctx)
    recs = int_recipes()
    # the 16-bit sweeps are the expensive items: spread them first
    order = sorted(range(len(recs)), key=lambda i: -min(M.size(recs[i], M.top_scope({})), 3) if M.size(recs[i], M.top_scope({})) <= 2 else 0)
    for j, i in enumerate(order):
        if ctx.mine(j):
            sweep_int(R, recs[i], rng, ctx)
    if ctx.index == 0:
        ctx.count("integer_constructs", len(recs))
    # VarInt / ZigZag values: contiguous shards
    top = 1 << ctx.pick(14, 21)
    step = (top + ctx.nworkers - 1) // ctx.nworkers
    sweep_varint(R, ctx, rng, ctx.index * step, min(top, (ctx.index + 1) * step))
    for name in ("VarInt", "ZigZag"):
        for k in (7, 14, 21, 28, 35, 56, 63, 64, 70, 100, 128):
            for d in (-2, -1, 0, 1, 2):
                v = (1 << k) + d
                for vv in (v, -v):
                    b = R.build(["name", name], vv, {}, "boundary")
                    if b is not None:
                        R.parse(["name", name], b, {}, "boundary")
        for v in HOSTILE:
            R.build(["name", name], v, {}, "hostile")
    sweep_varint_bytes(R, ctx, ctx.pick(2, 3))
    sweep_floats(R, ctx, rng)
    sweep_strings(R, ctx, rng)
    sweep_strip(R, ctx)
    sweep_terminated(R, ctx)
    sweep_streamed_bits(R, ctx)
    sweep_zero_width(R, ctx)
    sweep_foreign_labels(R, ctx)
    sweep_mapping_labels(R, ctx)
    sweep_declaration_forms(R, ctx)
    sweep_negative_lengths(R, ctx, rng)
    sweep_bits(R, ctx, rng)
    if ctx.mine(3):
        for r in (["name", "Flag"], ["name", "Bit"], ["name", "Nibble"], ["name", "Octet"]):
            if r[1] == "Flag":
                for b in range(256):
                    R.parse(r, bytes([b]) + b"\x01", {}, "exh")
                for v in (True, False, 0, 1, 2, None, "x", [], b""):
                    R.build(r, v, {}, "exh")
            else:
                w = M.BITNAMES[r[1]]
                rr = ["Bitwise", ["Struct", [["v", r], [None, ["Padding", (8 - w) % 8]]]]] if w < 8 else ["Bitwise", r]
                for b in range(256):
                    R.parse(rr, bytes([b]), {}, "exh")
                for v in range(-1, (1 << w) + 1):
                    R.build(rr, {"v": v} if w < 8 else v, {}, "exh")
    composites(R, ctx, rng)
    if ctx.index == 0:
        ctx.sample({"sweep": "all values and all byte strings of every 8/16-bit integer type", "types": len(recs)})


def replay(ctx, case):
    R = Runner(ctx)
    r, kw = case["recipe"], case.get("kw", {})
    if case["dir"] == "build":
        R.build(r, untag(case["value"]), kw, case.get("cls", "replay"), label_from=case.get("label_from"))
    else:
        R.parse(r, untag(case["data"]), kw, case.get("cls", "replay"))
