"""C11 - context expressions mean what their Python spelling means, and print as it.

Monitors (all on the real construct.expr objects):
  call : expr(ctx)                      == native evaluation of the same operator tree
  repr : eval(repr(expr), bindings)     == expr(ctx)        (value or exception type)
  lib  : the same expression evaluated *by the library* inside nested Structs
         (Computed -> evaluate()) == native
Oracle: an independent recursive evaluator over raw Python values (`native`).
"""
import itertools, operator
from ..common import tag, untag

LEVEL = "exploration"
RULE = ("expression trees over + - * / // % ** ^ << >> & | (also reflected), six comparisons, unary - + ~, "
        "leaves this.a this['b'] this._.c obj_ obj_.f list_[i] len_/sum_/min_/max_/abs_ and int/bool/str/bytes constants; "
        "depth<=1 and every unary-in-binary / binary-in-unary shape enumerated exhaustively x all 216 contexts a,b,c in -2..3, "
        "deeper trees sampled; non-trivial = tree with a unary inside a binary (or vice versa), a reflected (constant-left) operand, "
        "or a non-integer constant; distinct by tree")
ASSUMPTIONS = ["'~' is logical not (docs/meta.rst)", "'in', 'and', 'or' and list_ inside operators are documented as unsupported and not generated",
               "trees whose native evaluation would build astronomically large integers/strings are skipped (counted)"]
REQUIRED_ANCHORS = ["expr:BinExpr.__call__", "expr:UniExpr.__call__", "expr:BinExpr.__repr__", "expr:UniExpr.__repr__",
                    "expr:Path.__call__", "expr:Path.__repr__", "expr:FuncPath.__call__", "expr:FuncPath.__repr__",
                    "expr:Path2.__call__", "expr:ExprMixin.__radd__", "expr:ExprMixin.__rsub__", "expr:ExprMixin.__rpow__",
                    "expr:ExprMixin.__invert__", "expr:ExprMixin.__neg__"]
ANCHORS = REQUIRED_ANCHORS + ["expr:ExprMixin.__%s__" % n for n in
                              "add sub mul floordiv truediv mod pow xor rshift lshift and or rmul rfloordiv rtruediv rmod rxor rrshift rlshift rand ror pos gt ge lt le eq ne".split()]

BINOPS = {"+": operator.add, "-": operator.sub, "*": operator.mul, "/": operator.truediv, "//": operator.floordiv,
          "%": operator.mod, "**": operator.pow, "^": operator.xor, "<<": operator.lshift, ">>": operator.rshift,
          "&": operator.and_, "|": operator.or_,
          "<": operator.lt, "<=": operator.le, ">": operator.gt, ">=": operator.ge, "==": operator.eq, "!=": operator.ne}
UNOPS = {"-": operator.neg, "+": operator.pos, "~": operator.not_}
FUNCS = {"len": len, "sum": sum, "min": min, "max": max, "abs": abs}


class Skip(Exception):
    pass


class Shadowed(Exception):
    """an attribute path did not yield an expression object: the member name is taken by an attribute of the path object itself"""


class Consumed(Exception):
    """Python itself evaluated an operator while the tree was being spelled (e.g. 's' % this.a: str.__mod__ takes the placeholder
    for a mapping and returns 's'): no expression object for that sub-tree exists, at any depth"""


def native(t, env):
    """Independent evaluator. env: dict with 'this' (nested dict) / 'obj' / 'list'."""
    k = t[0]
    if k == "lit":
        return untag(t[1])
    if k == "this":      # ["this", "a"] / ["this", "_", "c"]
        v = env["this"]
        for f in t[1:]:
            v = v[f]
        return v
    if k == "obj":       # ["obj"] or ["obj", "f"]
        v = env["obj"]
        for f in t[1:]:
            v = v[f]
        return v
    if k == "list":      # ["list", i, j, ...]  item path of any length
        v = env["list"]
        for f in t[1:]:
            v = v[f]
        return v
    if k == "fn":
        return FUNCS[t[1]](native(t[2], env))
    if k == "un":
        return UNOPS[t[1]](native(t[2], env))
    if k == "bin":
        a = native(t[2], env)
        b = native(t[3], env)
        op = t[1]
        if op == "**" and isinstance(a, (int, float)) and isinstance(b, (int, float)) and not isinstance(a, bool) | isinstance(b, bool) * 0:
            if abs(b) > 24 or (isinstance(a, int) and abs(a) > 2 ** 70) or (isinstance(a, float) and abs(a) > 1e30):
                raise Skip()
        if op == "<<" and isinstance(b, int) and b > 512:
            raise Skip()
        if op == "*" and (isinstance(a, (str, bytes, list)) and isinstance(b, int) and b > 4096 or
                          isinstance(b, (str, bytes, list)) and isinstance(a, int) and a > 4096):
            raise Skip()
        if isinstance(a, int) and isinstance(b, int) and op in ("*", "**", "<<") and (abs(a) > 2 ** 4096 or abs(b) > 2 ** 4096):
            raise Skip()
        return BINOPS[op](a, b)
    raise ValueError(t)


def placeholders():
    from construct import this, obj_, list_, len_, sum_, min_, max_, abs_
    return {"this": this, "obj_": obj_, "list_": list_, "len": len_, "sum": sum_, "min": min_, "max": max_, "abs": abs_}


def build(t, P):
    """Build the real expression object with the real Python operators.
    Returns (object, is_expr)."""
    k = t[0]
    if k == "lit":
        return untag(t[1]), False
    if k == "this":
        e = P["this"]
        for i, f in enumerate(t[1:]):
            # alternate attribute / item spelling: this.a  this["b"]  this._.c
            e = e[f] if (f == "b") else getattr(e, f)
            if not callable(e) or not hasattr(e, "__getattr__"):
                raise Shadowed("this.%s" % ".".join(map(str, t[1:i + 2])))
        return e, True
    if k == "obj":
        e = P["obj_"]
        for i, f in enumerate(t[1:]):
            e = getattr(e, f)
            if not callable(e) or not hasattr(e, "__getattr__"):
                raise Shadowed("obj_.%s" % ".".join(map(str, t[1:i + 2])))
        return e, True
    if k == "list":
        e = P["list_"]
        for f in t[1:]:
            e = e[f]
        return e, True
    if k == "fn":
        a, ae = build(t[2], P)
        if not ae:
            raise Skip()
        return P[t[1]](a), True
    if k == "un":
        a, ae = build(t[2], P)
        if not ae:
            raise Skip()
        return UNOPS_PY[t[1]](a), True
    if k == "bin":
        a, ae = build(t[2], P)
        b, be = build(t[3], P)
        if not (ae or be):
            raise Skip()
        res = BINOPS[t[1]](a, b)
        from construct.expr import ExprMixin
        if not isinstance(res, ExprMixin):
            raise Consumed()
        return res, True
    raise ValueError(t)


UNOPS_PY = {"-": operator.neg, "+": operator.pos, "~": operator.invert}


def outcome(f):
    try:
        return ("ok", f())
    except Skip:
        raise
    except RecursionError:
        raise Skip()
    except MemoryError:
        raise Skip()
    except Exception as e:
        return ("exc", type(e).__name__)


def same(o1, o2):
    if o1[0] != o2[0]:
        return False
    if o1[0] == "exc":
        return o1[1] == o2[1]
    a, b = o1[1], o2[1]
    if type(a) is not type(b):
        return False
    if isinstance(a, float) and a != a:
        return b != b
    if isinstance(a, complex):
        return repr(a) == repr(b)
    return a == b


def shape(t):
    k = t[0]
    if k == "lit":
        return "K:" + type(untag(t[1])).__name__
    if k in ("this", "obj", "list"):
        return "P"
    if k == "fn":
        return "%s_(%s)" % (t[1], shape(t[2]))
    if k == "un":
        return "un%s(%s)" % (t[1], shape(t[2]))
    return "bin%s(%s,%s)" % (t[1], shape(t[2]), shape(t[3]))


def features(t, inside=None):
    """-> set of feature names used for the non-trivial rule."""
    k = t[0]
    out = set()
    if k == "lit":
        v = untag(t[1])
        if not isinstance(v, int) or isinstance(v, bool):
            out.add("nonint-const")
    elif k == "un":
        if inside == "bin":
            out.add("unary-in-binary")
        if inside == "un":
            out.add("unary-in-unary")
        out |= features(t[2], "un")
    elif k == "bin":
        if inside == "un":
            out.add("binary-in-unary")
        if t[2][0] == "lit":
            out.add("reflected")
        out |= features(t[2], "bin") | features(t[3], "bin")
    elif k == "fn":
        out.add("func")
        out |= features(t[2], "fn")
    return out


def minimal_static(t):
    for s in subtrees(t):
        kids = [x for x in s[2:] if isinstance(x, list)] if s[0] in ("bin", "un", "fn") else []
        if s[0] in ("bin", "un") and any(k[0] == "un" for k in kids):
            return "unary-operand-not-parenthesised"
    return t[0] + (t[1] if t[0] in ("bin", "un", "fn") else "")


def subtrees(t):
    yield t
    if t[0] in ("un", "fn"):
        yield from subtrees(t[2])
    elif t[0] == "bin":
        yield from subtrees(t[2])
        yield from subtrees(t[3])


def mkenv(ctxd):
    """ctxd: {"a":..,"b":..,"c":..,"obj":..,"list":..} (tagged) -> (native env, library ctx, eval bindings)"""
    from construct import Container
    d = {k: untag(v) for k, v in ctxd.items()}
    inner = Container()
    outer = Container()
    for k in ("c",):
        if k in d:
            outer[k] = d[k]
    for k in ("a", "b", "items", "s") + ODD_NAMES:
        if k in d:
            inner[k] = d[k]
    for k in ODD_NAMES:
        if k in d:
            outer[k] = d[k] + 100
    inner["_"] = outer
    env = {"this": inner, "obj": d.get("obj"), "list": d.get("list")}
    return env, inner, d


def check_tree(ctx, t, ctxd, P, mode_lib=False, report=True):
    """Run all monitors for one (tree, context). Returns list of (mech,msg)."""
    env, libctx, d = mkenv(ctxd)
    try:
        want = outcome(lambda: native(t, env))
        try:
            e, ise = build(t, P)
        except Skip:
            raise
        except Consumed:
            ctx.count("python_consumed_operator")
            return []
        except Shadowed as sh:
            bad = [("path-member-shadowed-by-attribute", "%s does not give an expression object: the member name is taken by an attribute of the path object" % sh)]
            if report:
                ctx.violation(bad[0][0], bad[0][1], {"tree": t, "ctx": ctxd})
            return bad
        except Exception:
            # Python itself consumed an operator while the tree was being spelled
            # (e.g. -('s' % this.a)): no expression object exists
            ctx.count("python_consumed_operator")
            return []
        from construct.expr import ExprMixin
        if not isinstance(e, ExprMixin):
            # e.g. 's' % this.a : str.__mod__ treats the placeholder as a mapping and never
            # defers to the reflected overload - no expression object was built at all
            ctx.count("python_consumed_operator")
            return []
    except Skip:
        ctx.count("skipped_huge_or_constant")
        return []
    root = t[0]
    family = "this"
    for s in subtrees(t):
        if s[0] == "obj" and family != "list":
            family = "obj"
        if s[0] == "list":
            family = "list"
    if family == "this":
        args = (libctx,)
    elif family == "obj":
        args = (d.get("obj"), libctx)
    else:
        args = (d.get("obj"), d.get("list"), libctx)
    bad = []
    ctx.ev()
    try:
        got = outcome(lambda: e(*args))
    except Skip:
        return []
    ctx.count("call_compared")
    if not same(want, got):
        bad.append(("call-differs:" + minimal(t, ctxd, P, "call"), "expr(ctx) = %r but native evaluation = %r" % (got, want)))
    # repr monitor
    try:
        src = repr(e)
        code = compile(src, "<repr>", "eval")
    except Exception as ex:
        bad.append(("repr-not-python:" + minimal_static(t), "repr %r does not compile: %s" % (src if 'src' in dir() else None, ex)))
        code = None
    if code is not None:
        binds = {"this": libctx, "obj_": d.get("obj"), "list_": d.get("list"), "len_": len, "sum_": sum, "min_": min, "max_": max, "abs_": abs,
                 "__builtins__": {}}
        try:
            back = outcome(lambda: eval(code, binds))
            ctx.count("repr_compared")
            if not same(want, back):
                bad.append(("repr-differs:" + minimal(t, ctxd, P, "repr"), "eval(%r) = %r but the tree means %r" % (src, back, want)))
        except Skip:
            pass
    # str() monitor: generated code inlines several parameters through str(), so it must denote the same function too
    try:
        src2 = str(e)
        if src2 != (src if code is not None else None):
            code2 = compile(src2, "<str>", "eval")
            back2 = outcome(lambda: eval(code2, binds))
            ctx.count("str_compared")
            if not same(want, back2):
                bad.append(("str-differs:" + minimal_static(t), "eval(str(expr)=%r) = %r but the tree means %r" % (src2, back2, want)))
        else:
            ctx.count("str_equals_repr")
    except Skip:
        pass
    except Exception as ex:
        bad.append(("str-not-python:" + minimal_static(t), "str(expr) %r is not an evaluable expression: %s" % (str(e), ex)))
    if mode_lib and family == "this" and want[0] == "ok":
        from construct import Struct, Computed
        try:
            S = Struct("c" / Computed(d.get("c")), "inner" / Struct("a" / Computed(d.get("a")), "b" / Computed(d.get("b")), "r" / Computed(e)))
            got2 = outcome(lambda: S.parse(b"").inner.r)
            ctx.count("library_evaluate_compared")
            if not same(want, got2):
                bad.append(("lib-evaluate-differs:" + shape(t), "Computed(expr) parsed to %r, native %r" % (got2, want)))
            got3 = outcome(lambda: S.build(dict(inner=dict())) and None)
        except Skip:
            pass
    if report:
        for mech, msg in bad:
            ctx.violation(mech, msg + "  [tree=%s ctx=%s]" % (shape(t), ctxd), {"tree": t, "ctx": ctxd, "lib": mode_lib})
    return bad


def minimal(t, ctxd, P, which):
    """Mechanism key from the smallest failing sub-tree: which operator, and how its
    operands are shaped (unary operand, negative constant, reflected)."""
    class _C:
        def count(self, *a):
            pass

        def ev(self, *a):
            pass
    best = t
    for s in list(subtrees(t))[1:]:
        if s[0] in ("lit", "this", "obj", "list"):
            continue
        try:
            r = check_tree(_C(), s, ctxd, P, report=False)
        except Exception:
            continue
        if any(m.startswith(which) for m, _ in r):
            if len(shape(s)) < len(shape(best)):
                best = s
    s = best
    if which != "call":
        kids = [x for x in s[2:] if isinstance(x, list)]
        if s[0] in ("bin", "un") and any(k[0] == "un" for k in kids):
            return "unary-operand-not-parenthesised"
        if s[0] == "bin" and any(k[0] == "lit" and isinstance(untag(k[1]), (int, float)) and not isinstance(untag(k[1]), bool) and untag(k[1]) < 0 for k in kids):
            return "negative-constant-operand-not-parenthesised"
    key = s[0] + (s[1] if s[0] in ("bin", "un", "fn") else "")
    if s[0] == "bin" and s[2][0] == "lit":
        key += "/reflected"
    return key


# ---------------------------------------------------------------- generation
INTS = [-2, -1, 0, 1, 2, 3]
# member names that could collide with attributes of the expression objects themselves (a path resolves members through __getattr__)
ODD_NAMES = ("key", "field", "name", "parent", "index", "func", "op", "lhs", "rhs", "path", "args", "operand")
PLEAVES = [["this", "a"], ["this", "b"], ["this", "_", "c"]]
KLEAVES = [["lit", i] for i in INTS] + [["lit", True], ["lit", False], ["lit", "s"], ["lit", tag(b"s")]]
LEAVES = PLEAVES + KLEAVES


def has_p(t):
    return any(s[0] in ("this", "obj", "list") for s in subtrees(t))


def depth1():
    out = []
    for op in BINOPS:
        for l in LEAVES:
            for r in LEAVES:
                if l[0] == "lit" and r[0] == "lit":
                    continue
                out.append(["bin", op, l, r])
    for u in UNOPS:
        for p in PLEAVES:
            out.append(["un", u, p])
    return out


def mixed_shapes():
    out = []
    for op in BINOPS:
        for u in UNOPS:
            for p in PLEAVES:
                for l in LEAVES:
                    out.append(["bin", op, ["un", u, p], l])
                    out.append(["bin", op, l, ["un", u, p]])
    for u in UNOPS:
        for op in BINOPS:
            for p in PLEAVES:
                for l in LEAVES:
                    out.append(["un", u, ["bin", op, p, l]])
                    if l[0] == "lit":
                        out.append(["un", u, ["bin", op, l, p]])
        for u2 in UNOPS:
            for p in PLEAVES:
                out.append(["un", u, ["un", u2, p]])
    return out


def rand_tree(rng, depth, leaves):
    if depth == 0 or rng.random() < 0.15:
        return rng.choice(leaves)
    r = rng.random()
    if r < 0.22:
        return ["un", rng.choice(list(UNOPS)), rand_tree(rng, depth - 1, leaves)]
    return ["bin", rng.choice(list(BINOPS)), rand_tree(rng, depth - 1, leaves), rand_tree(rng, depth - 1, leaves)]


def all_ctx():
    return [{"a": a, "b": b, "c": c} for a in INTS for b in INTS for c in INTS]


def run(ctx):
    codegen_binding(ctx, ctx.rng)
    P = placeholders()
    contexts = all_ctx()
    trees = depth1() + mixed_shapes()
    ctx.count("enumerated_trees_total", len(trees) if ctx.index == 0 else 0)
    n = 0
    for i, t in enumerate(trees):
        if not ctx.mine(i):
            continue
        feats = features(t)
        ok = True
        lib = (i % 7 == 0)
        for j, c in enumerate(contexts):
            bad = check_tree(ctx, t, c, P, mode_lib=lib and j % 24 == 0)
            if bad:
                ok = False
                break
        if feats:
            ctx.nontrivial("tree", t)
        for f in feats:
            ctx.count("feature_" + f)
        if i % 1500 == 0:
            ctx.sample({"tree": t, "repr": repr(build(t, P)[0]), "contexts": len(contexts)})
    # deeper random trees
    rng = ctx.rng
    nrand = ctx.pick(6000, 120000) // ctx.nworkers
    for k in range(nrand):
        d = 3 if (ctx.tier == "thorough" and k % 2) else 2
        t = rand_tree(rng, d, LEAVES)
        if not has_p(t):
            continue
        cs = rng.sample(contexts, 12)
        feats = features(t)
        for c in cs:
            if check_tree(ctx, t, c, P, mode_lib=(k % 5 == 0)):
                break
        ctx.count("random_deep_trees")
        if feats:
            ctx.nontrivial("tree", t)
    # obj_ / list_ / function families and non-integer contexts
    if ctx.index == 0 or True:
        fam = []
        for op in BINOPS:
            for kk in KLEAVES[:8]:
                fam.append((["bin", op, ["obj"], kk], "obj"))
                fam.append((["bin", op, kk, ["obj"]], "obj"))
                fam.append((["bin", op, ["obj", "f"], kk], "objf"))
            fam.append((["bin", op, ["un", "-", ["obj"]], ["lit", 2]], "obj"))
            for fn in FUNCS:
                fam.append((["bin", op, ["fn", fn, ["this", "items"]], ["lit", 2]], "items" if fn != "abs" else "absa"))
                fam.append((["bin", op, ["lit", 3], ["fn", fn, ["this", "items"]]], "items" if fn != "abs" else "absa"))
                fam.append((["un", "-", ["fn", fn, ["this", "items"]]], "items" if fn != "abs" else "absa"))
        # a helper applied to an operator expression rather than to a bare path
        A, IT = ["this", "a"], ["this", "items"]
        for inner in (["bin", "-", A, ["lit", 2]], ["un", "-", A], ["bin", "-", A, ["this", "b"]], ["bin", "*", ["un", "-", A], ["lit", 3]], ["bin", "-", ["fn", "min", IT], A],
                      ["bin", "-", ["lit", 0], ["fn", "max", IT]]):
            fam.append((["fn", "abs", inner], "mix"))
            fam.append((["bin", "+", ["fn", "abs", inner], ["lit", 1]], "mix"))
            fam.append((["un", "-", ["fn", "abs", inner]], "mix"))
        for fn in ("len", "sum", "min", "max"):
            for inner in (["bin", "*", IT, ["lit", 2]], ["bin", "+", IT, IT], ["bin", "+", IT, ["lit", tag([9, -9])]] if False else ["bin", "*", ["lit", 2], IT]):
                fam.append((["fn", fn, inner], "mix"))
                fam.append((["bin", "-", ["fn", fn, inner], A], "mix"))
        for u in UNOPS:
            fam.append((["un", u, ["obj"]], "obj"))
        for i in (-1, 0, 1, 2):
            fam.append((["list", i], "list"))
        # list_ below operators and helpers (the arguments a predicate is called with must reach the placeholder)
        for op in BINOPS:
            fam.append((["bin", op, ["list", -1], ["lit", 2]], "list"))
            fam.append((["bin", op, ["lit", 3], ["list", 0]], "list"))
            fam.append((["bin", op, ["list", 1], ["obj"]], "list"))
        for fn in ("len", "sum", "min", "max"):
            fam.append((["fn", fn, ["list"]], "listall"))
            fam.append((["bin", "-", ["fn", fn, ["list"]], ["obj"]], "listall"))
        # item paths of depth two and three below list_ (and below this / obj_), alone and inside operators
        for pth in ([-1, "x"], [0, "x"], [1, 0], [-1, "y", 1], [0, "y", -1]):
            fam.append((["list"] + pth, "listdeep"))
            fam.append((["bin", "+", ["list"] + pth, ["lit", 1]], "listdeep"))
            fam.append((["bin", "==", ["lit", 2], ["list"] + pth], "listdeep"))
            fam.append((["un", "-", ["list"] + pth], "listdeep"))
        fam.append((["fn", "len", ["this", "s"]], "s"))
        fam.append((["bin", "+", ["this", "s"], ["lit", "s"]], "s"))
        fam.append((["bin", "%", ["lit", "%s!"], ["this", "s"]], "s"))
        fam.append((["bin", "*", ["this", "s"], ["this", "a"]], "s"))
        fam.append((["bin", "==", ["this", "s"], ["lit", "ab"]], "s"))
        # members whose names could collide with attributes of the expression objects, by attribute path at every position
        for nm in ODD_NAMES:
            fam.append((["this", nm], "names"))
            fam.append((["this", "_", nm], "names"))
            fam.append((["obj", nm], "names"))
            fam.append((["bin", "+", ["this", nm], ["lit", 1]], "names"))
            fam.append((["bin", "-", ["lit", 50], ["bin", "*", ["this", "_", nm], ["this", nm]]], "names"))
            fam.append((["un", "-", ["this", nm]], "names"))
        # float constants (negative zero, negative and positive values) on either side of every operator
        for op in BINOPS:
            for fl in (-0.0, -2.5, 0.5):
                fam.append((["bin", op, ["lit", tag(fl)], A], "floats"))
                fam.append((["bin", op, A, ["lit", tag(fl)]], "floats"))
                fam.append((["bin", op, ["lit", tag(fl)], ["bin", "+", A, ["this", "b"]]], "floats"))
        # sequence-valued operands, where + is not commutative: a str / bytes / list constant on either side of a sequence-valued
        # path or sub-expression (the reflected operators must keep the operand order)
        S = ["this", "s"]
        for lit in ("ab", "", tag(b"ab")):
            L = ["lit", lit]
            fam.append((["bin", "+", L, S], "s"))
            fam.append((["bin", "+", S, L], "s"))
            fam.append((["bin", "+", L, ["bin", "*", S, A]], "s"))
            fam.append((["bin", "+", L, ["bin", "*", ["lit", "cd"], A]], "s"))
            fam.append((["bin", "+", ["bin", "*", A, S], L], "s"))
            fam.append((["bin", "*", A, ["bin", "+", L, S]], "s"))
            fam.append((["bin", "+", L, ["bin", "+", S, ["lit", "z"]]], "s"))
            fam.append((["bin", "==", ["bin", "+", L, S], ["bin", "+", S, L]], "s"))
        for lit in ([9, 8], []):
            L = ["lit", lit]
            fam.append((["bin", "+", L, IT], "items"))
            fam.append((["bin", "+", IT, L], "items"))
            fam.append((["bin", "+", L, ["bin", "*", IT, ["lit", 2]]], "items"))
            fam.append((["fn", "len", ["bin", "+", L, IT]], "items"))
            fam.append((["bin", "==", ["bin", "+", L, IT], ["bin", "+", IT, L]], "items"))
        for i, (t, kind) in enumerate(fam):
            if not ctx.mine(i):
                continue
            if kind == "obj":
                cs = [{"obj": v, "a": 1, "b": 1, "c": 1} for v in INTS + [7, 255, 2.5]]
            elif kind == "objf":
                cs = [{"obj": tag({"f": v}), "a": 1, "b": 1, "c": 1} for v in INTS]
            elif kind == "list":
                cs = [{"obj": 0, "list": [x, y, z], "a": 1, "b": 1, "c": 1} for x in (-1, 0, 2) for y in (0, 3) for z in (1, -2)]
            elif kind == "items":
                cs = [{"items": it, "a": 1, "b": 2, "c": 3} for it in ([1], [1, 2, 3], [-2, 5], [0, 0, 0, 7], [3, 1, 2])]
            elif kind == "listall":
                cs = [{"obj": o, "list": l, "a": 1, "b": 1, "c": 1} for o in (0, 2) for l in ([1], [3, -1, 2], [0, 0, 5, 7])]
            elif kind == "listdeep":
                cs = [{"obj": 0, "list": [tag({"x": a, "y": [a, b, 7]}), [b, a], tag({"x": b, "y": [1, 2, a]})], "a": 1, "b": 1, "c": 1} for a in (-3, 0, 2) for b in (1, 5)]
            elif kind == "names":
                cs = [dict({nm: base + j for j, nm in enumerate(ODD_NAMES)}, obj=tag({nm: 2 * base + j for j, nm in enumerate(ODD_NAMES)}), a=1, b=1, c=1) for base in (1, 7, -20)]
            elif kind == "floats":
                cs = [{"a": a, "b": b, "c": 0} for a in (-2, -1, 0, 1, 2, 3) for b in (0, 1)]
            elif kind == "mix":
                cs = [{"items": it, "a": a, "b": b, "c": 3} for it in ([1], [1, 2, 3], [-2, 5], [3, 1, 2]) for a in (-7, 0, 1, 5) for b in (2, -3)]
            elif kind == "absa":
                cs = [{"items": v, "a": 1, "b": 2, "c": 3} for v in INTS + [-7]]
            else:
                cs = [{"s": s, "a": a, "b": 0, "c": 0} for s in ("", "ab", "s", "xyz") for a in (0, 1, 2)] + \
                     [{"s": tag(b"ab"), "a": 2, "b": 0, "c": 0}]
            for c in cs:
                if check_tree(ctx, t, c, P):
                    break
            ctx.count("family_" + kind)
            ctx.nontrivial("tree", t)
            if i % 150 == 0:
                ctx.sample({"tree": t, "repr": repr(build(t, P)[0]), "ctx": cs[0]})


def codegen_binding(ctx, rng):
    """the placeholders as generated code binds them: a RepeatUntil predicate over obj_ / list_ must stop parsing and building at
    the element at which the natively evaluated predicate first holds - in the interpreter and in the compiled construct"""
    import construct as C
    from ..recipes import mkexpr, evalexpr
    preds = [["bin", "==", ["obj"], 0], ["bin", "==", ["list", -1], 0], ["bin", "==", ["fn", "len", ["list"]], 3], ["bin", ">", ["fn", "sum", ["list"]], 5],
             ["bin", "&", ["bin", ">=", ["fn", "len", ["list"]], 2], ["bin", "==", ["list", -1], ["list", -2]]], ["bin", ">=", ["bin", "-", ["fn", "max", ["list"]], ["fn", "min", ["list"]]], 4],
             ["bin", "==", ["bin", "+", ["list", 0], ["obj"]], 6], ["un", "~", ["bin", "<", ["fn", "len", ["list"]], 2]]]
    for pi, pe in enumerate(preds):
        if not ctx.mine(pi):
            continue
        d = C.Struct("items" / C.RepeatUntil(mkexpr(pe), C.Byte), "t" / C.Byte)
        try:
            impls = [("interpreted", d), ("compiled", d.compile())]
        except Exception as e:
            ctx.count("codegen_binding_not_compilable")
            impls = [("interpreted", d)]
        for _ in range(ctx.pick(40, 400)):
            src = [rng.choice([0, 1, 2, 3, 3, 5, 6]) for _ in range(12)]
            stop = None
            for i in range(len(src)):
                try:
                    if evalexpr(pe, {}, src[i], src[:i + 1]):
                        stop = i
                        break
                except Exception:
                    break
            if stop is None:
                continue
            items = src[:stop + 1]
            data = bytes(items) + b"\x09" + bytes(src[stop + 1:])
            ok = True
            for name, x in impls:
                ctx.ev()
                case = {"codegen_binding": True, "predicate": pe, "items": src, "impl": name}
                try:
                    pv = x.parse(data)
                    p = ("ok", list(pv["items"]), pv["t"])
                except Exception as e:
                    p = ("exc", type(e).__name__, str(e)[:80])
                if p != ("ok", items, 9):
                    ctx.violation("bound-placeholder-differs:parse:%s" % name, "predicate %r: %s parse gives %r, native evaluation stops after %r" % (repr(mkexpr(pe)), name, p, items), case)
                    ok = False
                    break
                try:
                    b = ("ok", x.build({"items": src, "t": 9}))
                except Exception as e:
                    b = ("exc", type(e).__name__, str(e)[:80])
                if b != ("ok", bytes(items) + b"\x09"):
                    ctx.violation("bound-placeholder-differs:build:%s" % name, "predicate %r: %s build of %r -> %r, native evaluation stops after %r" % (repr(mkexpr(pe)), name, src, b, items), case)
                    ok = False
                    break
            if ok:
                ctx.nontrivial("codegen-binding", pi, len(items))
        ctx.count("codegen_binding_predicates")


def replay(ctx, case):
    if case.get("codegen_binding"):
        return codegen_binding(ctx, __import__("random").Random(1))
    P = placeholders()
    check_tree(ctx, case["tree"], case["ctx"], P, mode_lib=case.get("lib", False))
