"""C19 - KSY export describes the same byte layout the construct parses.

The real export_ksy runs end to end (a stub ruamel.yaml captures the exported structure as data - the YAML text
rendering is not part of the property).  Oracle: a small KSY interpreter (rv/ksy_interp.py) runs the exported schema
on canonical encodings; its field tree is compared with the construct's own parse: identifiers and order of every
sequence, byte extent of every named member (from the member trace of the real parse) and scalar values.
"""
import json
from ..common import tag, untag
from ..recipes import mk
from ..streams import TracedStream
from .. import refmodel as M
from .. import monitors
from ..gen import genval
from ..veq import norm
from .. import ksy_interp as K

LEVEL = "exploration"
RULE = ("exportable recipes (integers through names/FormatField/BytesInteger, floats, bytes, the four string macros, flags, enums (keyword, enum-class and mixed label sources), FlagsEnum, structs, "
        "sequences, arrays with constant and context counts, ranges, RepeatUntil, Prefixed/PrefixedArray/PascalString, Padded/Padding/FixedSized, "
        "NullTerminated/NullStripped (consume=False also where parse does not give back the built value), conditionals with negations inside operators, bit structs, "
        "pointers, constants behind wrapping sub-constructs, string fields under every spelling of the encoding, one Enum object shared by formats exported one after the other, repeat-until predicates over element fields whose names contain the placeholder's text; depth<=3) x canonical encodings of generated values. "
        "non-trivial = construct with a nested type or a dependent size/count/condition; distinct by (recipe shape)")
ASSUMPTIONS = ["ruamel.yaml is not installed: a stub serializer captures the exported dict (only the YAML rendering is out of reach)",
               "dialect leniencies of the KSY interpreter: Python-spelled expressions over lexically chained scopes; 'u1be'; seq attributes typed by an `instances` entry"]
REQUIRED_ANCHORS = ["core:Construct.export_ksy", "core:Construct._compileseq", "core:Construct._compilefulltype", "core:Construct._compileprimitivetype", "core:Struct._emitseq",
                    "core:FormatField._emitprimitivetype", "core:BytesInteger._emitprimitivetype", "core:BitsInteger._emitprimitivetype", "core:Bytes._emitfulltype",
                    "core:Array._emitfulltype", "core:GreedyRange._emitfulltype", "core:RepeatUntil._emitfulltype", "core:Renamed._emitfulltype", "core:Const._emitfulltype",
                    "core:Prefixed._emitseq", "core:Padded._emitfulltype", "core:FixedSized._emitfulltype", "core:NullTerminated._emitfulltype", "core:NullStripped._emitfulltype",
                    "core:IfThenElse._emitseq", "core:FlagsEnum._emitseq", "core:Enum._emitfulltype", "core:Pointer._emitprimitivetype", "core:hyphenatedict"]
ANCHORS = REQUIRED_ANCHORS
B = ["name", "Byte"]


class G:
    def __init__(self, rng):
        self.r = rng
        self.n = 0

    def nm(self):
        self.n += 1
        return "f%d" % self.n

    def intleaf(self):
        r = self.r
        c = r.random()
        if c < 0.55:
            return ["name", r.choice(["Byte", "Int8ub", "Int8sb", "Int16ub", "Int16ul", "Int16sb", "Int16sl", "Int32ub", "Int32ul", "Int32sl", "Int64ub", "Int64sl", "Int24ub", "Int24ul", "Int24sb",
                                      "Int16un", "Int32sn", "Short", "Long"])]
        if c < 0.75:
            return ["FormatField", r.choice("<>="), r.choice("BHLQbhlq")]
        return ["BytesInteger", r.choice([1, 2, 3, 5, 8]), r.random() < 0.5, r.random() < 0.5]

    def leaf(self, tail=False):
        r = self.r
        c = r.random()
        if c < 0.35:
            return self.intleaf()
        if c < 0.42:
            return ["name", r.choice(["Float32b", "Float32l", "Float64b", "Float64l", "Float32n", "Single", "Double", "Float16b", "Half"])]
        if c < 0.5:
            return ["Bytes", r.randint(0, 4)]
        if c < 0.56:
            return ["CString", r.choice(["utf8", "ascii"])]
        if c < 0.62:
            return ["PascalString", r.choice([B, ["name", "Int16ul"], ["name", "VarInt"]]), r.choice(["utf8", "ascii"])]
        if c < 0.67:
            return ["PaddedString", r.randint(1, 6), r.choice(["utf8", "ascii"])]
        if c < 0.71:
            return ["name", "Flag"]
        if c < 0.76:
            sub = r.choice([B, ["name", "Int16ul"]])
            return r.choice([["Enum", sub, [["one", 1], ["two", 2]]], ["EnumClass", sub, [["red", 1], ["green", 2], ["blue", 200]]], ["EnumMixed", sub, [["red", 1], ["green", 2]], [["blue", 3]]],
                             ["Enum", sub, [["zero", 0], ["max", 255]]]])
        if c < 0.81:
            return ["FlagsEnum", r.choice([B, ["name", "Int16ub"], ["name", "Int16ul"]]), [["a", 1], ["b", 2], ["h", 128]]]
        if c < 0.85:
            return ["name", "VarInt"]
        if c < 0.88:
            return ["Const", tag(bytes(r.randrange(256) for _ in range(r.randint(1, 3)))), None]
        if c < 0.90:
            return ["Const", r.randint(0, 60000), ["name", "Int16ul"]]
        if c < 0.93:
            return ["Padding", r.randint(0, 3)]
        if c < 0.95:
            return ["Hex", self.intleaf()]
        if tail and c < 0.98:
            return ["name", "GreedyBytes"] if r.random() < 0.6 else ["GreedyString", "utf8"]
        return ["Default", B, 7] if c < 0.99 else ["name", "Pass"]

    def bitstruct(self):
        r = self.r
        total = 8 * r.randint(1, 3)
        ms = []
        left = total
        while left:
            if (total - left) % 8 == 0 and left >= 16 and r.random() < 0.3:
                # a byte-oriented island inside the bit region
                ms.append([self.nm(), ["Bytewise", r.choice([["name", "Int16ub"], ["name", "Int16ul"], ["name", "Int16sb"], ["Bytes", 2], ["Padding", 2]])]])
                left -= 16
                continue
            w = r.randint(1, min(left, 12))
            c = r.random()
            if w == 1 and c < 0.3:
                ms.append([self.nm(), ["name", "Flag"]])
            elif c < 0.12:
                ms.append([None, ["Padding", w]])
            elif w in (1, 4, 8) and c < 0.5:
                ms.append([self.nm(), ["name", {1: "Bit", 4: "Nibble", 8: "Octet"}[w]]])
            else:
                ms.append([self.nm(), ["BitsInteger", w, False, False]])
            left -= w
        return ["BitStruct", ms]

    def node(self, depth, tail, ints):
        r = self.r
        c = r.random()
        if depth <= 0 or c < 0.3:
            return self.leaf(tail)
        if c < 0.48:
            return self.struct(depth - 1, tail)
        if c < 0.53:
            n = r.randint(1, 3)
            return ["Sequence", [[None, self.node(depth - 1, False, ints)] for _ in range(n)]]
        if c < 0.6:
            return ["Array", r.randint(0, 3), self.prim(depth - 1)]
        if c < 0.65 and ints:
            return ["Array", ["this", r.choice(ints)], self.prim(depth - 1)]
        if c < 0.69 and ints:
            return ["Bytes", ["this", r.choice(ints)]]
        if c < 0.73:
            return ["PrefixedArray", r.choice([B, ["name", "Int16ul"]]), self.prim(depth - 1)]
        if c < 0.79:
            return ["Prefixed", r.choice([B, ["name", "Int16ub"], ["name", "VarInt"]]), self.node(depth - 1, True, []), r.random() < 0.25]
        if c < 0.83:
            return ["Padded", r.randint(4, 6), self.intleaf()]
        if c < 0.86:
            return ["FixedSized", r.randint(4, 8), r.choice([self.intleaf(), ["CString", "ascii"], ["name", "GreedyBytes"]])]
        if c < 0.89:
            # consume=False leaves the terminator for the next member (a documented asymmetric option): only generated as the last member, below
            return ["NullTerminated", ["name", "GreedyBytes"], tag(r.choice([b"\x00", b"\xff"])), r.random() < 0.3, True, True]
        if c < 0.91 and tail:
            return ["NullStripped", ["name", "GreedyBytes"], tag(b"\x00")]
        if c < 0.93 and tail:
            return ["GreedyRange", self.elem(depth - 1)]
        if c < 0.95:
            return ["RepeatUntil", ["bin", "==", ["obj"], 0], B]
        if c < 0.97:
            return self.bitstruct()
        if c < 0.985 and ints:
            return ["If", ["bin", r.choice([">", "==", "<"]), ["this", r.choice(ints)], 1], self.intleaf()]
        if ints:
            return ["IfThenElse", ["bin", "==", ["this", r.choice(ints)], 1], self.intleaf(), self.intleaf()]
        return ["FocusedSeq", "v", [[None, ["Const", tag(b"\x01"), None]], ["v", self.intleaf()]]] if False else self.leaf(tail)

    def elem(self, depth):
        """element of a range: never zero-width (a repeater over an element that consumes nothing does not end - C06's subject)"""
        x = self.prim(depth)
        try:
            if M.size(x, M.top_scope({})) > 0:
                return x
        except Exception:
            pass
        if x[0] == "Struct":
            self.n += 1
            return ["Struct", [["k%d" % self.n, B]] + x[1]]
        return x

    def prim(self, depth):
        r = self.r
        c = r.random()
        if c < 0.6 or depth <= 0:
            return self.intleaf()
        if c < 0.8:
            return self.struct(depth - 1, False)
        return r.choice([["CString", "ascii"], ["name", "VarInt"], ["Bytes", 2], ["name", "Float32b"]])

    def struct(self, depth, tail):
        r = self.r
        n = r.randint(1, 4)
        ms = []
        ints = []
        for i in range(n):
            last = i == n - 1
            if r.random() < 0.2:
                self.n += 1
                nm = "n%d" % self.n           # small-integer member (used as count / length / selector by later members)
                ms.append([nm, B])
                ints.append(nm)
                continue
            node = self.node(depth, tail and last, ints)
            name = None if (node[0] in ("Const", "Padding") and r.random() < 0.6) else self.nm()
            if name and r.random() < 0.1:
                ms.append([None, ["Renamed", name, node, "docs"]])
            else:
                ms.append([name, node])
        return ["Struct", ms]

    def top(self, depth):
        """top-level struct; a Pointer member may look back into a raw two-byte header (so that building it does not overwrite structured members)"""
        st = self.struct(depth, True)
        if self.r.random() < 0.3:
            last = st[1][-1]
            tailgreedy = last[1][0] in ("GreedyRange", "NullStripped") or last[1] in (["name", "GreedyBytes"], ["GreedyString", "utf8"])
            ptr = [self.nm(), ["Pointer", self.r.randint(0, 1), self.r.choice([B, ["name", "Int8sb"]])]]
            st = ["Struct", [["hdr", ["Bytes", 2]]] + (st[1][:-1] + [ptr, last] if tailgreedy else st[1] + [ptr])]
        return st


def member_name(m):
    nm, node = m
    if nm is None and node[0] == "Renamed":
        return node[1], node[2]
    return nm, node


def loose(n):
    """comparable normal form: bool == int, named tuples/lists alike, enum labels as strings"""
    if isinstance(n, tuple) and n:
        if n[0] == "bool":
            return ("int", int(n[1]))
        if n[0] == "enum":
            return ("str", n[2])
        if n[0] == "dict":
            return ("dict", {k: loose(v) for k, v in n[1].items()})
        if n[0] == "list":
            return ("list", [loose(v) for v in n[1]])
        if n[0] == "ntuple":
            return ("list", [loose(v) for v in n[2]])
        if n[0] == "float":
            return n
    return n


class Differ(Exception):
    def __init__(self, kind, msg):
        Exception.__init__(self, msg)
        self.kind = kind


def unwrap(node):
    """exporter wraps non-primitive sub-constructs into a one-attribute type {x: ...}"""
    while node["kids"] and len(node["kids"]) == 1 and node["kids"][0]["id"] == "x" and isinstance(node["value"], dict):
        node = dict(node["kids"][0], id=node["id"], start=node["start"], end=node["end"])
    return node


def compare(r, node, cv, path):
    """recipe r, KSY node, construct value cv: raise Differ on the first disagreement"""
    node = unwrap(node)
    k = r[0]
    if k == "Renamed":
        return compare(r[2], node, cv, path)
    if k in ("Hex", "Default", "Rebuild", "Bytewise"):
        return compare(r[1], node, cv, path)
    if k == "Struct" or k == "BitStruct":
        ms = r[1]
        kids = node["kids"]
        ids = [kk["id"] for kk in kids]
        want = [member_name(m)[0] for m in ms]
        if ids != want:
            raise Differ("sequence-ids:" + k, "%s: schema sequence lists %r, the construct declares %r" % (path, ids, want))
        for m, kk in zip(ms, kids):
            nm, sub = member_name(m)
            if nm is None:
                continue
            if nm not in cv:
                continue
            compare(sub, kk, cv[nm], path + "." + nm)
        return
    if k == "Sequence":
        kids = node["kids"]
        if len(kids) != len(r[1]):
            raise Differ("sequence-length:Sequence", "%s: %d attributes for %d members" % (path, len(kids), len(r[1])))
        for i, (m, kk) in enumerate(zip(r[1], kids)):
            compare(m[1], kk, cv[i], path + "[%d]" % i)
        return
    if k in ("Array", "GreedyRange", "RepeatUntil"):
        sub = r[2] if k in ("Array", "RepeatUntil") else r[1]
        items = node["kids"]
        if len(items) != len(cv):
            raise Differ("repeat-count:" + k, "%s: schema repeats %d times, the construct parsed %d elements" % (path, len(items), len(cv)))
        for i, (kk, c) in enumerate(zip(items, cv)):
            compare(sub, kk, c, path + "[%d]" % i)
        return
    if k == "PrefixedArray":
        kids = {kk["id"]: kk for kk in node["kids"]}
        if "data" not in kids:
            raise Differ("structure:PrefixedArray", "%s: no data attribute" % path)
        return compare(["Array", 0, r[2]], kids["data"], cv, path)
    if k in ("Prefixed", "PascalString"):
        kids = {kk["id"]: kk for kk in node["kids"]}
        if "data" not in kids:
            raise Differ("structure:" + k, "%s: no data attribute" % path)
        if k == "PascalString":
            return leafcmp(k, kids["data"], cv, path)
        return compare(r[2], kids["data"], cv, path)
    if k in ("Padded", "FixedSized"):
        return compare(r[2], node, cv, path)
    if k in ("NullTerminated", "NullStripped"):
        return compare(r[1], node, cv, path)
    if k == "If":
        if node.get("skipped"):
            if cv is not None:
                raise Differ("condition:If", "%s: schema skips the field, the construct parsed %r" % (path, cv))
            return
        return compare(r[2], node, cv, path)
    if k == "IfThenElse":
        kids = [kk for kk in node["kids"] if not kk.get("skipped")]
        if len(kids) != 1:
            raise Differ("condition:IfThenElse", "%s: %d branches taken in the schema" % (path, len(kids)))
        taken = kids[0]["id"]
        sub = r[2] if taken == "thenvalue" else r[3]
        return compare(sub, kids[0], cv, path)
    if k == "FlagsEnum":
        got = {kk["id"]: kk["value"] for kk in node["kids"]}
        for n, v in r[2]:
            if bool(got.get(n)) != bool(cv[n]):
                raise Differ("flagsenum-bits", "%s: schema reads flag %s=%r, the construct %r (all: %r vs %r)" % (path, n, got.get(n), cv[n], got, dict(cv)))
        return
    if k == "FocusedSeq":
        got = {kk["id"]: kk for kk in node["kids"]}
        return compare(dict((n, m) for n, m in r[2])[r[1]], got[r[1]], cv, path)
    if k == "Pointer":
        return compare(r[2], dict(node, kids=[]), cv, path)
    if k in ("Const", "Padding") or (k == "name" and r[1] == "Pass"):
        return
    return leafcmp(k, node, cv, path)


def leafcmp(k, node, cv, path):
    kv = node["value"]
    if k == "name" and isinstance(cv, bool):
        if bool(kv) != cv:          # Flag: any non-zero byte is True
            raise Differ("value:Flag", "%s: schema value %r, construct value %r" % (path, kv, cv))
        return
    if isinstance(kv, dict) and set(kv) == {"x"}:
        kv = kv["x"]
    a, b = loose(norm(kv)), loose(norm(cv))
    if a != b:
        raise Differ("value:" + k, "%s: schema value %r, construct value %r" % (path, kv, cv))


def extents(r, node, events, path, out):
    """collect (path, ksy extent) for named members following the recipe; construct extents come from the trace"""
    node = unwrap(node)
    k = r[0]
    if k == "Renamed":
        return extents(r[2], node, events, path, out)
    if k == "Struct":
        for m, kk in zip(r[1], node["kids"]):
            nm, sub = member_name(m)
            if nm is not None:
                out.append((path + (nm,), kk["start"], kk["end"], kk))
                extents(sub, kk, events, path + (nm,), out)
    elif k in ("Array", "GreedyRange", "RepeatUntil"):
        sub = r[2] if k in ("Array", "RepeatUntil") else r[1]
        for kk in node["kids"][:1]:
            extents(sub, kk, events, path, out)
    elif k == "Prefixed":
        kids = {kk["id"]: kk for kk in node["kids"]}
        if "data" in kids:
            extents(r[2], kids["data"], events, path, out)


def run_recipe(ctx, rng, r, d=None, asymmetric_ok=False, pre=None, values=None):
    """d: a pre-built construct object for the recipe (shared sub-construct objects, export histories); asymmetric_ok: compare the
    schema with parse also where parse does not give back the value that was built (documented asymmetric options); pre: a
    callable run before the export (earlier exports in the same process)"""
    import construct as C
    try:
        d = mk(r) if d is None else d
    except Exception:
        ctx.count("recipe_not_constructible")
        return
    if pre is not None:
        pre()
    case = {"recipe": r}
    try:
        schema = json.loads(d.export_ksy())
    except C.ConstructError as e:
        # outside the exportable fragment (nothing claimed): classes without an exporter, and a self-inclusive length whose length
        # field has no fixed size (no construct can parse that either).  Any other failure to export is a failure of the exporter.
        if "does not implement KSY export" in str(e) or (isinstance(e, C.SizeofError) and unsized_inclusive_prefix(r)):
            ctx.count("not_exportable")
            return
        ctx.violation("export-raises:%s:%s" % (type(e).__name__, culprit_export(r)), "export_ksy raised %s: %s" % (type(e).__name__, str(e)[:200]), case)
        return
    except Exception as e:
        ctx.violation("export-raises:%s:%s" % (type(e).__name__, culprit_export(r)), "export_ksy raised %s: %s" % (type(e).__name__, str(e)[:200]), case)
        return
    ctx.count("schemas_exported")
    nested = bool(schema.get("types")) or "this[" in json.dumps(schema)
    okn = 0
    for j in range(ctx.pick(5, 15)):
        try:
            v = genval(r, rng, M.top_scope({})) if values is None else values[j % len(values)]
            if j % 3 == 2 and values is None:
                v = embed_nul(r, v)
            enc = d.build(v)
        except Exception:
            ctx.count("value_not_buildable")
            continue
        s = TracedStream(enc)
        try:
            with monitors.MEMBERS as tr:
                cv = d.parse_stream(s)
                events = [list(e) for e in tr.events]
        except monitors.TraceOverflow:
            ctx.count("skipped_more_than_400000_member_events")
            ctx.notes["member_trace_overflow_example"] = repr(r)[:600]
            break
        except Exception:
            ctx.count("canonical_not_parseable")
            continue
        # only canonical situations are compared: the construct itself must read back what was built
        from .c01 import covers
        from ..libmodel import loosen
        if not asymmetric_ok and not covers(loosen(norm(cv)), loosen(norm(v))):
            ctx.count("skipped_value_not_symmetric")
            continue
        ctx.ev()
        case = {"recipe": r, "encoding": tag(enc)}
        try:
            root = K.interpret(schema, enc)
        except K.KsyError as e:
            ctx.violation("schema-not-interpretable:%s:%s" % (classify_ksyerror(str(e), schema), attr_kind(r, e)), "the exported schema cannot be interpreted: %s (attribute %r)" % (e, getattr(e, "attr", None)), case)
            return
        except (K.KsyEOF, K.KsyMismatch) as e:
            ctx.violation("schema-rejects-canonical-encoding:" + attr_kind(r, e), "interpreting the schema on a canonical encoding %s fails at %r: %s: %s (attribute %r)" % (enc.hex(), getattr(e, "at", None), type(e).__name__, e, getattr(e, "attr", None)), case)
            return
        except Exception as e:
            ctx.inconclusive.append("ksy interpreter crashed: %s: %s" % (type(e).__name__, e))
            return
        try:
            compare(r, root, cv, "$")
            # extents of named members: schema vs. the real parse (first occurrence of each name path)
            ex = []
            extents(r, root, events, (), ex)
            seen = set()
            for pth, ks, ke, kk in ex:
                if pth in seen or kk.get("skipped") or "instance_at" in kk:
                    continue
                seen.add(pth)
                ev = find_event(events, pth)
                if ev is None or ev[3] is None or ev[4] is None:
                    continue
                if (ks, ke) != (ev[3], ev[4]) and not bit_member(kk):
                    raise Differ("extent:" + kind_at(r, pth), "member %s: schema extent [%d,%d), the construct parsed it at [%d,%d)" % (".".join(pth), ks, ke, ev[3], ev[4]))
            if root["end"] != s.pos:
                raise Differ("total-length", "schema consumes %d bytes, the construct %d" % (root["end"], s.pos))
        except Differ as e:
            ctx.violation("layout-differs:" + e.kind, str(e) + "  [encoding %s]" % enc.hex(), case)
            return
        except Exception as e:
            ctx.violation("comparison-failed:%s" % type(e).__name__, "schema tree does not have the construct's structure: %s: %s" % (type(e).__name__, str(e)[:200]), case)
            return
        okn += 1
    if okn and nested:
        from ..recipes import shape
        ctx.nontrivial("ksy", shape(r))
    ctx.count("recipes_compared")


def embed_nul(r, v):
    """give fixed-size string members a value with an embedded NUL (a legitimate PaddedString value: only trailing NULs are padding)"""
    k = r[0]
    if k == "Renamed":
        return embed_nul(r[2], v)
    if k == "PaddedString" and isinstance(r[1], int) and r[1] >= 3 and isinstance(v, str):
        return "a\x00b"
    if k == "Struct" and isinstance(v, dict):
        out = dict(v)
        for m in r[1]:
            nm, sub = member_name(m)
            if nm in out:
                out[nm] = embed_nul(sub, out[nm])
        return out
    if k in ("Array",) and isinstance(v, list):
        return [embed_nul(r[2], x) for x in v]
    return v


def bit_member(kk):
    return kk.get("bitstart", 0) % 8 != 0 or kk.get("bitend", 0) % 8 != 0 or (kk.get("bitend", 8) - kk.get("bitstart", 0)) < 8


def find_event(events, pth):
    """first trace event whose chain of enclosing names equals pth"""
    stack = []
    for ev in events:
        while stack and stack[-1][11] is not None and stack[-1][11] < ev[10]:
            stack.pop()
        names = [e[2] for e in stack] + [ev[2]]
        # collapse the doubled name of a member that also carries docs
        ded = []
        for n in names:
            if not ded or ded[-1] != n:
                ded.append(n)
        stack.append(ev)
        if tuple(ded) == tuple(pth):
            return ev
    return None


def kind_at(r, pth):
    node = r
    for nm in pth:
        while node[0] in ("Array", "GreedyRange", "RepeatUntil", "Prefixed", "Renamed"):
            node = node[2] if node[0] in ("Array", "RepeatUntil", "Prefixed", "Renamed") else node[1]
        if node[0] != "Struct":
            return node[0]
        for m in node[1]:
            n2, sub = member_name(m)
            if n2 == nm:
                node = sub
                break
    while node[0] == "Renamed":
        node = node[2]
    return node[1] if node[0] == "name" else node[0]


def attr_kind(r, e):
    """kind of the construct member in which the schema interpretation failed (ids of the failing attribute path -> recipe)"""
    at = [x for x in getattr(e, "at", ()) if x is not None and x not in ("x", "data", "lengthfield", "countfield", "thenvalue", "elsesubcon")]
    try:
        k = kind_at(r, tuple(at))
    except Exception:
        k = "?"
    a = getattr(e, "attr", {}) or {}
    extra = ""
    if "terminator" in a and a.get("size-eos"):
        extra = "/terminator+size-eos"
    if a.get("size") == "lengthfield":
        extra = "/size=lengthfield"
    return k + extra


def classify_ksyerror(msg, schema):
    if "names an enum" in msg:
        return "enum-integer-type-lost"
    if "unknown type None" in msg or "type None" in msg:
        return "type-null"
    if "expression" in msg:
        return "expression"
    if "size" in msg:
        return "size"
    return "other"


def unsized_inclusive_prefix(r):
    if isinstance(r, list):
        if r and r[0] == "Prefixed" and len(r) > 3 and r[3] and r[1] in (["name", "VarInt"], ["name", "ZigZag"]):
            return True
        return any(unsized_inclusive_prefix(x) for x in r)
    return False


def culprit_export(r):
    from ..libmodel import kinds_in
    ks = kinds_in(r)
    for k in ("BitsInteger", "BytesInteger", "BitStruct", "FlagsEnum", "Pointer", "FormatField"):
        if k in ks:
            return k
    return r[0]


def culprit_layout(r, schema, enc, d):
    from ..libmodel import kinds_in
    ks = kinds_in(r)
    for k in ("Prefixed", "PascalString", "PaddedString", "NullTerminated", "FixedSized", "Padded", "BytesInteger", "FlagsEnum", "BitStruct", "Const", "IfThenElse", "If"):
        if k in ks:
            return k
    return r[0]


def run(ctx):
    rng = ctx.rng
    monitors.install_ruamel_stub()
    monitors.MEMBERS.install()
    n = ctx.pick(5000, 80000) // ctx.nworkers
    for i in range(n):
        g = G(rng)
        r = g.top(rng.choice([1, 2, 2, 3]))
        run_recipe(ctx, rng, r)
        if i < 2 and ctx.index < 2:
            ctx.sample({"recipe": r})
    if ctx.index == 0:
        for term in (b"\x00", b"\xff"):
            for include in (False, True):
                for consume in (False, True):
                    run_recipe(ctx, rng, ["Struct", [["h", B], ["x", ["NullTerminated", ["name", "GreedyBytes"], tag(term), include, consume, True]]]])
                    run_recipe(ctx, rng, ["Struct", [["h", B], ["x", ["NullTerminated", ["name", "GreedyBytes"], tag(term), include, True, True]], ["t", ["name", "Int16ub"]]]])
        # padded / fixed-size slots around payloads that have a size or a repetition of their own; length prefixes of every kind
        for slot in ("Padded", "FixedSized"):
            for inner in (["Bytes", 3], ["Array", 3, B], ["Struct", [["a", B], ["b", ["name", "Int16ub"]]]], ["PaddedString", 3, "ascii"], ["Array", 2, ["name", "Int16ub"]], ["name", "Int32ub"],
                          ["Array", 2, ["Struct", [["x", B], ["y", B]]]], ["Padded", 4, ["Bytes", 2]], ["FixedSized", 5, ["Array", 2, B]]):
                run_recipe(ctx, rng, ["Struct", [["h", B], ["p", [slot, 8, inner]], ["t", ["name", "Int16ub"]]]])
                run_recipe(ctx, rng, ["Struct", [["ps", ["Array", 2, [slot, 9, inner]]], ["t", B]]])
        for lf in (["name", "VarInt"], B, ["name", "Int16ul"], ["name", "Int24ub"]):
            for inner in (["name", "GreedyBytes"], ["Array", 2, B], ["Struct", [["a", B], ["r", ["name", "GreedyBytes"]]]], ["GreedyString", "utf8"], ["GreedyRange", ["name", "Int16ub"]]):
                run_recipe(ctx, rng, ["Struct", [["h", B], ["p", ["Prefixed", lf, inner, False]], ["t", B]]])
            run_recipe(ctx, rng, ["Struct", [["xs", ["PrefixedArray", lf, ["name", "Int16ub"]]], ["t", B]]])
        # conditions that are constants (a module-level switch), true and false, in both conditional forms
        for cond in (False, True, 0, 1):
            run_recipe(ctx, rng, ["Struct", [["h", B], ["x", ["If", cond, ["name", "Int16ub"]]], ["t", B]]])
            run_recipe(ctx, rng, ["Struct", [["h", B], ["x", ["IfThenElse", cond, ["name", "Int16ub"], ["Bytes", 3]]], ["t", B]]])
            run_recipe(ctx, rng, ["Struct", [["x", ["If", cond, ["Struct", [["a", B], ["b", B]]]]], ["y", ["If", cond, ["Array", 2, B]]], ["t", ["name", "Int16ul"]]]])
        for lf in (B, ["name", "Int16ul"], ["name", "Int32ub"]):
            for incl in (False, True):
                run_recipe(ctx, rng, ["Struct", [["h", B], ["p", ["Prefixed", lf, ["name", "GreedyBytes"], incl]], ["t", B]]])
                run_recipe(ctx, rng, ["Struct", [["p", ["Prefixed", lf, ["Struct", [["a", B], ["b", ["name", "Int16ub"]]]], incl]], ["t", B]]])
        for sub in (B, ["name", "Int16ub"], ["name", "Int16ul"], ["name", "Int32ul"], ["name", "Int24ub"], ["BytesInteger", 3, False, True]):
            run_recipe(ctx, rng, ["Struct", [["h", B], ["f", ["FlagsEnum", sub, [["a", 1], ["b", 2], ["c", 0x40], ["d", 0x80], ["e", 0x100], ["z", 0x8000]] if sub != B else [["a", 1], ["b", 2], ["d", 0x80]]]], ["t", B]]])
            run_recipe(ctx, rng, ["Struct", [["e", ["Enum", sub, [["one", 1], ["two", 2]]]], ["arr", ["Array", 2, ["Enum", sub, [["one", 1]]]]]]])
            run_recipe(ctx, rng, ["Struct", [["c", ["EnumClass", sub, [["red", 1], ["green", 2]]]], ["m", ["EnumMixed", sub, [["red", 1], ["green", 2]], [["blue", 3]]]], ["arr", ["Array", 3, ["EnumMixed", sub, [["x", 0]], [["y", 1]]]]]]])
    if ctx.index == 1 % ctx.nworkers:
        # constants whose encoding is not the bare value (a wrapping sub-construct), followed by a member that shows the shift
        GB = ["name", "GreedyBytes"]
        for sub in (["NullTerminated", GB, tag(b"\x00"), False, True, True], ["Prefixed", B, GB, False], ["Prefixed", ["name", "Int16ul"], GB, True], ["Padded", 5, GB], ["FixedSized", 4, GB],
                    ["Aligned", 4, GB], None):
            for val in (b"abc", b"M", b"\x01\x02"):
                run_recipe(ctx, rng, ["Struct", [["h", B], ["sig", ["Const", tag(val), sub]], ["t", ["name", "Int16ub"]]]])
        for ival, sub in ((7, B), (300, ["name", "Int16ul"]), (5, ["name", "VarInt"]), (1, ["Padded", 3, B])):
            run_recipe(ctx, rng, ["Struct", [["h", B], ["sig", ["Const", ival, sub]], ["t", B]]])
        # conditions built from flags with negations inside binary operators (how an expression prints decides what the schema says)
        F = ["name", "Flag"]
        fa, fb, na = ["this", "fa"], ["this", "fb"], ["this", "n"]
        for cond in (["bin", "&", ["un", "~", fa], fb], ["bin", "|", ["un", "~", fa], fb], ["bin", "&", fa, ["un", "~", fb]], ["un", "~", ["bin", "&", fa, fb]], ["un", "~", ["bin", "|", fa, fb]],
                     ["bin", "&", ["un", "~", ["bin", ">", na, 1]], fb], ["bin", "==", ["un", "-", na], -1], ["bin", "|", ["bin", "==", na, 0], ["un", "~", fa]], ["bin", ">", ["bin", "-", 3, na], 1],
                     # every comparison against a threshold the field values hit exactly (n is 0..4)
                     ["bin", ">=", na, 2], ["bin", "<=", na, 2], ["bin", "<", na, 2], ["bin", ">", na, 2], ["bin", "!=", na, 2], ["bin", ">=", 2, na], ["bin", "<=", 2, na], ["bin", "<", 2, na],
                     ["bin", "&", ["bin", ">=", na, 1], ["bin", "<=", na, 3]], ["bin", "|", ["bin", "<", na, 1], ["bin", ">=", na, 3]],
                     ["bin", "==", ["bin", "-", ["bin", "-", na, 1], 1], 0], ["bin", "==", ["bin", "-", na, ["bin", "-", 1, 1]], 1], ["bin", "==", ["bin", "%", ["bin", "*", na, 3], 2], 1]):
            for _ in range(ctx.pick(3, 10)):
                run_recipe(ctx, rng, ["Struct", [["fa", F], ["fb", F], ["n", B], ["x", ["If", cond, ["name", "Int16ub"]]], ["t", B]]])
                run_recipe(ctx, rng, ["Struct", [["fa", F], ["fb", F], ["n", B], ["x", ["IfThenElse", cond, ["name", "Int16ub"], ["Bytes", 3]]], ["t", B]]])
        # the same construct object (the Flag singleton, which needs a wrapper type inside Array) in a byte-oriented place and inside a
        # bit-level structure of one schema: the byte-level occurrence is described with a byte type, the bit-level one with a bit type.
        # (How consecutive wrapper types inside a bit-level structure share a byte is not something the schema interpreter used here
        #  decides - it aligns at the end of every user type - so these schemas are inspected, not interpreted.)
        import construct as C
        Fl = C.Flag
        for order in (0, 1):
            ms = ["enabled" / C.Array(2, Fl), "packed" / C.BitStruct("options" / C.Array(3, Fl), "level" / C.BitsInteger(5))]
            d0 = C.Struct(*(ms if order == 0 else ms[::-1]), "t" / C.Byte)
            ctx.ev()
            try:
                sch = json.loads(d0.export_ksy())
                tp = sch["types"]
                by_id = {a["id"]: a for a in sch["seq"]}
                leaf_byte = tp[by_id["enabled"]["type"]]["seq"][0]["type"]
                packed = {a["id"]: a for a in tp[by_id["packed"]["type"]]["seq"]}
                leaf_bit = tp[packed["options"]["type"]]["seq"][0]["type"]
            except Exception as e:
                ctx.violation("export-raises:%s:shared-singleton" % type(e).__name__, "schema of a format using Flag at byte level and at bit level: %s" % str(e)[:160], {"recipe": "shared-singleton", "order": order})
                continue
            if not str(leaf_byte).startswith("u1") or str(leaf_bit) != "b1":
                ctx.violation("layout-differs:shared-object-in-both-contexts", "Flag inside Array at byte level is described as %r (expected u1), inside a BitStruct as %r (expected b1)" % (leaf_byte, leaf_bit),
                              {"recipe": "shared-singleton", "order": order})
            ctx.count("schemas_inspected_shared_singleton")
        for rr in (["Struct", [["f", ["name", "Flag"]], ["bs", ["BitStruct", [["f", ["name", "Flag"]], [None, ["Padding", 7]]]]], ["g", ["name", "Flag"]]]],
                   ["Struct", [["a", ["Array", 2, B]], ["bits", ["Bitwise", ["Struct", [["xs", ["Array", 2, ["name", "Nibble"]]], ["ys", ["Array", 2, ["name", "Nibble"]]]]]]], ["b", ["Array", 2, B]]]]):
            for _ in range(ctx.pick(4, 20)):
                run_recipe(ctx, rng, rr)
        # a member named twice (a named field object embedded under another name): the schema uses the name parse uses, the outer one
        for inner in (["Renamed", "inner", B, None], ["Renamed", "inner", ["name", "Int16ub"], "inner docs"], ["Renamed", "inner", ["Struct", [["a", B], ["b", B]]], None]):
            for _ in range(ctx.pick(2, 8)):
                run_recipe(ctx, rng, ["Struct", [["h", B], [None, ["Renamed", "outer", inner, None]], ["t", B]]])
                run_recipe(ctx, rng, ["Struct", [[None, ["Renamed", "outer", inner, "outer docs"]], ["xs", ["Array", 2, ["Struct", [[None, ["Renamed", "o2", inner, None]]]]]]]])
        # repeat-until predicates with every comparison, on data that hits the bound exactly
        for cmp_, bound in (("<=", 0x7f), ("<", 0x80), (">=", 0x80), (">", 0x7f), ("==", 0), ("!=", 0xff)):
            for _ in range(ctx.pick(3, 12)):
                run_recipe(ctx, rng, ["Struct", [["xs", ["RepeatUntil", ["bin", cmp_, ["obj"], bound], B]], ["t", B]]])
        # ... and predicates over a field of the element, whatever that field is called (obj_ is only the element's placeholder)
        for fname in ("stop", "obj_end", "myobj_", "obj_"):
            for cmp_ in ("==", ">="):
                for _ in range(ctx.pick(2, 6)):
                    stop = rng.randint(3, 250)
                    vals = [{"xs": [{fname: rng.randint(0, stop - 1), "v": rng.randint(0, 255)} for _ in range(n)] + [{fname: stop if cmp_ == "==" else rng.randint(stop, 255), "v": 1}], "t": rng.randint(0, 255)} for n in (0, 1, 3)]
                    run_recipe(ctx, rng, ["Struct", [["xs", ["RepeatUntil", ["bin", cmp_, ["obj", fname], stop], ["Struct", [[fname, B], ["v", B]]]]], ["t", B]]], values=vals)
        # a terminator left in the stream for the next member (consume=False: parse does not give back what was built, the schema
        # must still describe what parse does), at top level, in regions at offset 0 and behind headers
        GBs = ["name", "GreedyBytes"]
        for incl in (False, True):          # (the terminator kept in the value as well as left in the stream: include and consume are independent options)
            record = ["Struct", [["name", ["NullTerminated", GBs, tag(b"\x00"), incl, False, True]], ["sep", B], ["tail", GBs]]]
            short = ["Struct", [["name", ["NullTerminated", GBs, tag(b"\x00"), incl, False, True]], ["sep", B]]]
            for rr in (record, ["Struct", [["rec", ["FixedSized", 12, record]], ["after", B]]], ["Struct", [["hdr", ["name", "Int16ub"]], ["rec", ["Prefixed", B, record, False]], ["crc", B]]],
                       ["Struct", [["magic", ["Const", tag(b"RIFF"), None]], ["rec", ["FixedSized", 13, record]], ["end", B]]], ["Struct", [["h", B], ["a", ["Prefixed", B, short, False]], ["b", ["Prefixed", B, short, False]]]]):
                for _ in range(ctx.pick(4, 20)):
                    run_recipe(ctx, rng, rr, asymmetric_ok=True)
        # one Enum object shared by two formats that are exported one after the other (what the first export leaves behind in the
        # object must not change the second schema)
        import construct as C
        shared = C.Enum(C.Byte, text=1, binary=2)
        first = C.Struct("kind" / shared, "n" / C.Byte)
        second = C.Struct("state" / C.Enum(C.Byte, busy=1, idle=2), "kind" / shared, "n" / C.Byte)
        r1 = ["Struct", [["kind", ["Enum", B, [["text", 1], ["binary", 2]]]], ["n", B]]]
        r2 = ["Struct", [["state", ["Enum", B, [["busy", 1], ["idle", 2]]]], ["kind", ["Enum", B, [["text", 1], ["binary", 2]]]], ["n", B]]]
        for _ in range(3):
            run_recipe(ctx, rng, r1, d=first)
            run_recipe(ctx, rng, r2, d=second, pre=lambda: first.export_ksy())
            run_recipe(ctx, rng, r1, d=first, pre=lambda: second.export_ksy())
        # fixed-size strings under every spelling of the encoding name
        for enc in ("utf8", "utf-8", "UTF8", "Utf_8", "ascii", "ASCII", "us-ascii" if False else "Ascii", "latin1" if False else "utf_8"):
            for n in (3, 5):
                run_recipe(ctx, rng, ["Struct", [["h", B], ["s", ["PaddedString", n, enc]], ["t", B]]])
    # single-member structs for every leaf kind (so that one defect does not mask the others)
    g = G(rng)
    for i in range(ctx.pick(2000, 20000) // ctx.nworkers):
        leaf = g.node(rng.choice([0, 1]), True, [])
        run_recipe(ctx, rng, ["Struct", [["h", B], ["x", leaf]]])


def replay(ctx, case):
    import random
    monitors.install_ruamel_stub()
    monitors.MEMBERS.install()
    run_recipe(ctx, random.Random(0), case["recipe"])
