"""C10 - bit-level fields are packed MSB-first across byte boundaries on both code paths.

Oracle: big-integer arithmetic (no library helpers): the region's bytes are one big-endian integer; fields
are consecutive bit slices, two's complement when signed, byte-reversed per 8-bit group when swapped.
Each layout is run through both implementations of the region:
   sized     Bitwise(Struct(...))                        -> Transformed   (size known statically)
   ctxwidth  widths taken from this._params.wN            -> Restreamed    (size discovered while streaming)
   direct    Restreamed(Struct, bytes2bits, 1, bits2bytes, 8, n//8)
The monitor records which class was actually instantiated.
"""
import itertools, struct
from ..common import tag, untag

LEVEL = "exploration"
RULE = ("layouts = compositions of 8/16 bits (all compositions of 8 enumerated; 16 and 24..64 bits sampled) into widths 1..24 with "
        "signed/swapped flags, Flag, Padding, nested Struct/Array and Bytewise(Int16ul|Bytes(2)|Float32b) islands; regions <= 16 bits: "
        "ALL byte patterns parsed and the decoded tuple rebuilt (8-bit: all layouts; 16-bit: a rotating subset exhaustively, the rest on "
        "boundary+random patterns); larger regions on boundary+random patterns; every layout on both implementations. "
        "non-trivial = layout with a field crossing a byte boundary; distinct by (layout, implementation)")
ASSUMPTIONS = ["swapped is only generated on widths that are multiples of 8 (documented restriction)"]
REQUIRED_ANCHORS = ["core:Bitwise", "core:Bytewise", "core:BitsInteger._parse", "core:BitsInteger._build", "core:Transformed._parse",
                    "core:Transformed._build", "core:Restreamed._parse", "core:Restreamed._build", "binary:bytes2bits", "binary:bits2bytes",
                    "binary:integer2bits", "binary:bits2integer", "binary:swapbytesinbits", "bitstream:RestreamedBytesIO.read",
                    "bitstream:RestreamedBytesIO.write", "bitstream:RestreamedBytesIO.close"]
ANCHORS = REQUIRED_ANCHORS


# layout field forms:
#  ["int", w, signed, swapped] ["flag"] ["pad", w] ["bw16"] ["bwbytes"] ["bwf32"] ["struct", [fields]] ["array", n, field]
def width(f):
    k = f[0]
    if k == "int":
        return f[1]
    if k == "flag":
        return 1
    if k in ("pad", "pad1"):
        return f[1]
    if k in ("bw16", "bwbytes"):
        return 16
    if k == "bwf32":
        return 32
    if k == "bwint":
        return 8 * f[1]
    if k == "bwzero":
        return 0
    if k == "struct":
        return sum(width(x) for x in f[1])
    if k == "array":
        return f[1] * width(f[2])


class Namer:
    def __init__(self):
        self.n = 0
        self.kw = {}

    def w(self, width):
        k = "w%d" % self.n
        self.n += 1
        self.kw[k] = width
        return k


def mkfield(f, impl, nm):
    import construct as C
    k = f[0]
    if k == "int":
        w, s, sw = f[1], f[2], f[3]
        if impl == "ctxwidth":
            return C.BitsInteger(getattr(C.this._params, nm.w(w)), signed=s, swapped=sw)
        if not s and not sw and w in (1, 4, 8):
            return {1: C.Bit, 4: C.Nibble, 8: C.Octet}[w]
        return C.BitsInteger(w, signed=s, swapped=sw)
    if k == "flag":
        return C.Flag
    if k == "pad":
        return C.Padding(f[1])
    if k == "pad1":
        return C.Padding(f[1], pattern=b"\x01")     # reserved bits that are sent as ones
    if k == "bw16":
        return C.Bytewise(C.Int16ul)
    if k == "bwbytes":
        if impl == "ctxwidth":
            return C.Bytewise(C.Bytes(getattr(C.this._params, nm.w(2))))
        return C.Bytewise(C.Bytes(2))
    if k == "bwf32":
        return C.Bytewise(C.Float32b)
    if k == "bwzero":
        # a byte-oriented island of width 0 between bit fields: takes nothing, emits nothing
        if impl == "ctxwidth" and f[1] == 1:
            return C.Bytewise(C.Bytes(getattr(C.this._params, nm.w(0))))
        return C.Bytewise([C.Array(0, C.Byte), C.Bytes(0), C.Struct()][f[1]])
    if k == "bwint":
        # a byte-oriented integer island with every signed/swapped combination (through the public 24-bit names where they exist)
        n, sg, sw = f[1], f[2], f[3]
        if n == 3 and not (impl == "ctxwidth"):
            return C.Bytewise({(False, False): C.Int24ub, (False, True): C.Int24ul, (True, False): C.Int24sb, (True, True): C.Int24sl}[(sg, sw)])
        return C.Bytewise(C.BytesInteger(n, signed=sg, swapped=sw))
    if k == "struct":
        return C.Struct(*[("f%d" % i) / mkfield(x, impl, nm) for i, x in enumerate(f[1])])
    if k == "array":
        return C.Array(f[1], mkfield(f[2], impl, nm))


def mkregion(layout, impl):
    import construct as C
    from construct.lib import bytes2bits, bits2bytes
    nm = Namer()
    s = C.Struct(*[("f%d" % i) / mkfield(x, impl, nm) for i, x in enumerate(layout)])
    if impl == "direct":
        d = C.Restreamed(s, bytes2bits, 1, bits2bytes, 8, lambda n: n // 8)
    elif impl == "bitstruct-mixed":
        # the BitStruct macro with the first members given positionally and the rest as keywords (declaration order must hold)
        nm = Namer()
        ms = [("f%d" % i, mkfield(x, "sized", nm)) for i, x in enumerate(layout)]
        cut = (len(ms) + 1) // 2
        d = C.BitStruct(*[n / c for n, c in ms[:cut]], **{n: c for n, c in ms[cut:]})
    else:
        d = C.Bitwise(s)
    return d, nm.kw


# ---------------------------------------------------------------- oracle
def dec_field(f, bits, pos):
    """bits: python int holding the whole region, total width known by caller via closure"""
    raise NotImplementedError


class Oracle:
    def __init__(self, layout):
        self.layout = layout
        self.total = sum(width(f) for f in layout)

    def decode(self, data):
        n = int.from_bytes(data, "big")
        pos = [0]
        total = self.total

        def take(w):
            shift = total - pos[0] - w
            pos[0] += w
            return (n >> shift) & ((1 << w) - 1)

        def dec(f):
            k = f[0]
            if k == "int":
                w, s, sw = f[1], f[2], f[3]
                v = take(w)
                if sw:
                    v = int.from_bytes(v.to_bytes(w // 8, "big"), "little")
                if s and v >> (w - 1):
                    v -= 1 << w
                return v
            if k == "flag":
                return bool(take(1))
            if k in ("pad", "pad1"):
                take(f[1])
                return None
            if k == "bw16":
                v = take(16)
                return int.from_bytes(v.to_bytes(2, "big"), "little")
            if k == "bwbytes":
                return take(16).to_bytes(2, "big")
            if k == "bwf32":
                return struct.unpack(">f", take(32).to_bytes(4, "big"))[0]
            if k == "bwzero":
                return [[], b"", {}][f[1]]
            if k == "bwint":
                raw = take(8 * f[1]).to_bytes(f[1], "big")
                return int.from_bytes(raw, "little" if f[3] else "big", signed=f[2])
            if k == "struct":
                return {"f%d" % i: dec(x) for i, x in enumerate(f[1])}
            if k == "array":
                return [dec(f[2]) for _ in range(f[1])]
        return {"f%d" % i: dec(x) for i, x in enumerate(self.layout)}

    def encode(self, val):
        acc = [0]

        def put(v, w):
            acc[0] = (acc[0] << w) | (v & ((1 << w) - 1))

        def enc(f, v):
            k = f[0]
            if k == "int":
                w, s, sw = f[1], f[2], f[3]
                p = v & ((1 << w) - 1)
                if sw:
                    p = int.from_bytes(p.to_bytes(w // 8, "big"), "little")
                put(p, w)
            elif k == "flag":
                put(1 if v else 0, 1)
            elif k == "pad":
                put(0, f[1])
            elif k == "pad1":
                put((1 << f[1]) - 1, f[1])
            elif k == "bw16":
                put(int.from_bytes(v.to_bytes(2, "little"), "big"), 16)
            elif k == "bwbytes":
                put(int.from_bytes(v, "big"), 16)
            elif k == "bwf32":
                put(int.from_bytes(struct.pack(">f", v), "big"), 32)
            elif k == "bwint":
                put(int.from_bytes(v.to_bytes(f[1], "little" if f[3] else "big", signed=f[2]), "big"), 8 * f[1])
            elif k == "struct":
                for i, x in enumerate(f[1]):
                    enc(x, v["f%d" % i])
            elif k == "array":
                for e in v:
                    enc(f[2], e)
        for i, x in enumerate(self.layout):
            enc(x, val["f%d" % i])
        return acc[0].to_bytes(self.total // 8, "big")


def truthify(layout, val):
    """the value with every Flag field given as another truthy / falsy object (a masked integer, a string, None): a flag is one bit"""
    n = [0]

    def f(fld, v):
        k = fld[0]
        if k == "flag":
            n[0] += 1
            return [0x10, "yes", 7, [0]][n[0] % 4] if v else [0, "", None, []][n[0] % 4]
        if k == "struct":
            return {"f%d" % i: f(x, v["f%d" % i]) for i, x in enumerate(fld[1])}
        if k == "array":
            return [f(fld[2], e) for e in v]
        return v
    out = {"f%d" % i: f(x, val["f%d" % i]) for i, x in enumerate(layout)}
    return out, n[0]


def boolify(layout, val):
    """the value with every one-bit unsigned integer field given as a bool -> (value, number of fields replaced)"""
    n = [0]

    def f(fld, v):
        k = fld[0]
        if k == "int" and fld[1] == 1 and not fld[2] and v in (0, 1):
            n[0] += 1
            return bool(v)
        if k == "struct":
            return {"f%d" % i: f(x, v["f%d" % i]) for i, x in enumerate(fld[1])}
        if k == "array":
            return [f(fld[2], e) for e in v]
        return v
    out = {"f%d" % i: f(x, val["f%d" % i]) for i, x in enumerate(layout)}
    return out, n[0]


def eqval(a, b):
    """library value vs oracle value"""
    if isinstance(b, dict):
        if not isinstance(a, dict):
            return False
        return all(k in a and eqval(a[k], v) for k, v in b.items())
    if isinstance(b, list):
        return isinstance(a, list) and len(a) == len(b) and all(eqval(x, y) for x, y in zip(a, b))
    if isinstance(b, float):
        return isinstance(a, float) and (a == b or (a != a and b != b)) and (struct.pack(">d", a) == struct.pack(">d", b) or a != a)
    if isinstance(b, bool):
        return isinstance(a, bool) and a == b
    if b is None:
        return a is None
    return type(a) in (int, bytes) and a == b and not isinstance(a, bool)


def crosses(layout):
    pos = 0
    flat = []

    def fl(f):
        if f[0] == "struct":
            for x in f[1]:
                fl(x)
        elif f[0] == "array":
            for _ in range(f[1]):
                fl(f[2])
        else:
            flat.append(f)
    for f in layout:
        fl(f)
    for f in flat:
        w = width(f)
        if pos // 8 != (pos + w - 1) // 8 and f[0] in ("int",):
            return True
        pos += w
    return False


class LayoutRunner:
    def __init__(self, ctx, layout, impl):
        self.ctx, self.layout, self.impl = ctx, layout, impl
        self.oracle = Oracle(layout)
        self.d, self.kw = mkregion(layout, impl)
        self.cls = type(self.d).__name__
        ctx.count("region_class_" + self.cls)
        # a ctxwidth layout without any integer/bytes field has nothing context-dependent: statically sized
        want = "Transformed" if impl in ("sized", "bitstruct-mixed") or (impl == "ctxwidth" and not self.kw) else "Restreamed"
        self.failed = False
        if self.cls != want:
            ctx.violation("region-implementation-choice:" + impl, "layout built %s, expected %s" % (self.cls, want), self.case(b""))
            self.failed = True
        self.hasnan = any(f[0] == "bwf32" for f in self._flat())

    def _flat(self):
        out = []

        def fl(f):
            if f[0] == "struct":
                for x in f[1]:
                    fl(x)
            elif f[0] == "array":
                fl(f[2])
            else:
                out.append(f)
        for f in self.layout:
            fl(f)
        return out

    def case(self, data):
        return {"layout": self.layout, "impl": self.impl, "pattern": tag(bytes(data))}

    def run(self, data):
        ctx = self.ctx
        if self.failed:
            return
        ctx.ev()
        want = self.oracle.decode(data)
        self.k = getattr(self, "k", 0) + 1
        if self.cls == "Restreamed" and len(self.layout) >= 2 and self.k % 4 == 1:
            # calls that fail part-way on the same region object (input cut inside a field; a value whose last field cannot be
            # built after the first bits were emitted): whatever they leave behind must not show in the calls that follow
            for cut in (len(data) - 1, 1):
                if 0 < cut < len(data):
                    try:
                        self.d.parse(data[:cut], **self.kw)
                    except Exception:
                        pass
            try:
                self.d.build(dict(want, **{"f%d" % (len(self.layout) - 1): "not buildable"}), **self.kw)
            except Exception:
                pass
            ctx.count("failing_calls_interleaved")
        try:
            got = self.d.parse(data, **self.kw)
        except Exception as e:
            ctx.violation("parse-raises:%s:%s" % (self.impl, type(e).__name__), "parse(%s) raised %s: %s" % (data.hex(), type(e).__name__, e), self.case(data))
            self.failed = True
            return
        if not eqval(got, want):
            ctx.violation("parse-differs:%s:%s" % (self.impl, self.kind_of_diff(got, want)), "parse(%s) = %r, big-integer oracle = %r" % (data.hex(), got, want), self.case(data))
            self.failed = True
            return
        canon = self.oracle.encode(want)
        try:
            built = self.d.build(want, **self.kw)
        except Exception as e:
            ctx.violation("build-raises:%s:%s" % (self.impl, type(e).__name__), "build(%r) raised %s: %s" % (want, type(e).__name__, e), self.case(data))
            self.failed = True
            return
        if built != canon and not (self.hasnan and len(built) == len(canon)):
            ctx.violation("build-differs:%s" % self.impl, "build(%r) = %s, oracle = %s" % (want, built.hex(), canon.hex()), self.case(data))
            self.failed = True
            return
        # one-bit unsigned fields given as Python booleans (flags filled in from comparisons): True is 1, False is 0
        if self.k % 8 == 3:
            wb, n = boolify(self.layout, want)
            if n:
                try:
                    built2 = self.d.build(wb, **self.kw)
                except Exception as e:
                    ctx.violation("build-raises:%s:bool-for-bit:%s" % (self.impl, type(e).__name__), "build(%r) raised %s: %s" % (wb, type(e).__name__, e), self.case(data))
                    self.failed = True
                    return
                if built2 != canon and not (self.hasnan and len(built2) == len(canon)):
                    ctx.violation("build-differs:%s:bool-for-bit" % self.impl, "build(%r) = %s, oracle = %s" % (wb, built2.hex(), canon.hex()), self.case(data))
                    self.failed = True
                    return
                ctx.count("builds_with_booleans_for_bits")
        if self.k % 8 == 5:
            wt, n = truthify(self.layout, want)
            if n:
                try:
                    built3 = self.d.build(wt, **self.kw)
                except Exception as e:
                    ctx.violation("build-raises:%s:truthy-for-flag:%s" % (self.impl, type(e).__name__), "build(%r) raised %s: %s" % (wt, type(e).__name__, e), self.case(data))
                    self.failed = True
                    return
                if built3 != canon and not (self.hasnan and len(built3) == len(canon)):
                    ctx.violation("build-differs:%s:truthy-for-flag" % self.impl, "build(%r) = %s, oracle = %s" % (wt, built3.hex(), canon.hex()), self.case(data))
                    self.failed = True
                    return
                ctx.count("builds_with_truthy_objects_for_flags")

    def kind_of_diff(self, got, want):
        """which field kind differs first (mechanism key)"""
        def walk(f, g, w):
            k = f[0]
            if k == "struct":
                for i, x in enumerate(f[1]):
                    r = walk(x, g.get("f%d" % i) if isinstance(g, dict) else None, w["f%d" % i])
                    if r:
                        return r
                return None
            if k == "array":
                for i in range(f[1]):
                    r = walk(f[2], g[i] if isinstance(g, list) and i < len(g) else None, w[i])
                    if r:
                        return r
                return None
            if not eqval(g, w):
                if k == "int":
                    return "int%s%s" % ("-signed" if f[2] else "", "-swapped" if f[3] else "")
                return k
            return None
        for i, x in enumerate(self.layout):
            r = walk(x, got.get("f%d" % i) if isinstance(got, dict) else None, want["f%d" % i])
            if r:
                return r
        return "?"


def compositions(n, maxpart=24):
    if n == 0:
        yield []
        return
    for first in range(1, min(n, maxpart) + 1):
        for rest in compositions(n - first, maxpart):
            yield [first] + rest


def decorate(rng, parts, mode):
    """Turn a list of widths into a layout with flags according to mode."""
    out = []
    for w in parts:
        r = rng.random()
        if mode == "plain":
            out.append(["int", w, False, False])
        elif mode == "signed":
            out.append(["int", w, True, False])
        else:
            if w == 1 and r < 0.3:
                out.append(["flag"])
            elif r < 0.12:
                out.append(["pad" if rng.random() < 0.6 else "pad1", w])
            elif w % 8 == 0 and r < 0.5:
                out.append(["int", w, rng.random() < 0.5, True])
            elif w == 16 and r < 0.7:
                out.append(rng.choice([["bw16"], ["bwbytes"], ["bwint", 2, rng.random() < 0.5, rng.random() < 0.5]]))
            elif w == 24 and r < 0.8:
                out.append(["bwint", 3, rng.random() < 0.5, rng.random() < 0.5])
            elif w >= 4 and w % 2 == 0 and r < 0.8 and mode == "nest":
                out.append(["array", 2, ["int", w // 2, rng.random() < 0.5, False]])
            elif w >= 3 and r < 0.9 and mode == "nest":
                a = rng.randint(1, w - 1)
                out.append(["struct", [["int", a, rng.random() < 0.5, False], ["int", w - a, False, False]]])
            else:
                out.append(["int", w, rng.random() < 0.5, False])
    if mode not in ("plain", "signed") and rng.random() < 0.2:
        out.insert(rng.randint(0, len(out)), ["bwzero", rng.randint(0, 2)])
    return out


def boundary_patterns(rng, layout, nrand):
    total = sum(width(f) for f in layout) // 8
    pats = {bytes(total), b"\xff" * total, b"\x80" * total, b"\x7f" * total, b"\x01" * total, b"\xaa" * total, b"\x55" * total,
            b"\x80" + bytes(total - 1), bytes(total - 1) + b"\x01", b"\x7f" + b"\xff" * (total - 1)}
    # per-field boundary values through the oracle: 10..0, 01..1, 1..1, 0..01 in each field, others random
    flat_w = []

    def fl(f):
        if f[0] == "struct":
            for x in f[1]:
                fl(x)
        elif f[0] == "array":
            for _ in range(f[1]):
                fl(f[2])
        else:
            flat_w.append(width(f))
    for f in layout:
        fl(f)
    for i, w in enumerate(flat_w):
        if w == 0:
            continue
        for bv in (1 << (w - 1), (1 << (w - 1)) - 1, (1 << w) - 1, 1, 0, (1 << (w - 1)) + 1 if w > 1 else 0, 0xFF if w >= 16 else 0, 0xFF00 & ((1 << w) - 1)):
            for fill in (0, 1, 2):
                acc = 0
                for j, w2 in enumerate(flat_w):
                    v = bv if j == i else (0 if fill == 0 or w2 == 0 else (1 << w2) - 1 if fill == 1 else rng.getrandbits(w2))
                    acc = (acc << w2) | v
                pats.add(acc.to_bytes(total, "big"))
    for _ in range(nrand):
        pats.add(bytes(rng.getrandbits(8) for _ in range(total)))
    return sorted(pats)


def run(ctx):
    rng = ctx.rng
    impls = ["sized", "ctxwidth", "direct"]
    # ---- 8-bit regions: all 128 compositions x modes, all 256 patterns, all implementations
    jobs = []
    for parts in compositions(8):
        for mode in ("plain", "signed", "mixed"):
            jobs.append((parts, mode))
    if ctx.index == 0:
        ctx.count("layouts8_enumerated", len(jobs))
    lrng = __import__("random").Random(1234)   # layouts do not depend on the seed (enumerated part)
    n8 = 0
    for i, (parts, mode) in enumerate(jobs):
        layout = decorate(lrng, parts, mode)
        if not ctx.mine(i):
            continue
        for impl in impls + (["bitstruct-mixed"] if len(layout) >= 2 and i % 2 == 0 else []):
            if impl == "direct" and i % 4:
                continue
            lr = LayoutRunner(ctx, layout, impl)
            for p in range(256):
                lr.run(bytes([p]))
            n8 += 1
            if crosses(layout):
                ctx.nontrivial("layout", layout, impl)
        ctx.count("layouts8_exhaustive")
    # ---- byte-oriented integer islands: every width 2..3 x signed x swapped, at aligned and unaligned bit positions, every implementation
    k = 0
    for n in (2, 3):
        for sg, sw in itertools.product((False, True), repeat=2):
            for lead in ([], [["int", 3, False, False], ["int", 5, True, False]], [["flag"], ["pad", 7], ["int", 8, False, True]]):
                k += 1
                if not ctx.mine(k):
                    continue
                layout = lead + [["bwint", n, sg, sw], ["int", 4, False, False], ["int", 4, True, False]]
                for impl in impls + ["bitstruct-mixed"]:
                    lr = LayoutRunner(ctx, layout, impl)
                    for pat in boundary_patterns(lrng, layout, 60):
                        lr.run(pat)
                        if lr.failed:
                            break
                    ctx.nontrivial("island", layout, impl)
                ctx.count("integer_island_layouts")
    # ---- byte-oriented islands of width 0 (empty array / empty bytes / empty structure) before, between and after bit fields
    for zi in (0, 1, 2):
        for li, lead in enumerate(([], [["int", 3, False, False]], [["int", 8, True, False]], [["flag"], ["int", 12, False, False]])):
            k += 1
            if not ctx.mine(k):
                continue
            rest = {0: [["int", 4, False, False], ["int", 4, True, False]], 1: [["int", 5, True, False]], 2: [["int", 8, False, True]], 3: [["int", 3, False, False], ["bwzero", (zi + 1) % 3]]}[li]
            layout = lead + [["bwzero", zi]] + rest
            for impl in impls + ["bitstruct-mixed"]:
                lr = LayoutRunner(ctx, layout, impl)
                for pat in boundary_patterns(lrng, layout, 40):
                    lr.run(pat)
                    if lr.failed:
                        break
                ctx.nontrivial("zero-island", layout, impl)
            ctx.count("zero_width_island_layouts")
    # ---- probes inside streamed regions (repetition / optional parts / alternatives that run out of bits part-way): reference model
    from .c09 import bitprobe_recipes, case_bitprobe
    for bi, br in enumerate(bitprobe_recipes()):
        if not ctx.mine(bi):
            continue
        for data in [bytes([a]) for a in range(256)] + [bytes([a, b]) for a in range(0, 256, 5) for b in (0, 0x5a, 0xa5, 0xff)] + [bytes(rng.getrandbits(8) for _ in range(L)) for L in (3, 4, 5, 6) for _ in range(ctx.pick(10, 100))]:
            case_bitprobe(ctx, {"kind": "bitprobe", "recipe": br, "data": tag(data)})
        ctx.count("streamed_probe_recipes")
    # ---- 16-bit regions
    comps16 = list(compositions(16, 16))
    if ctx.index == 0:
        ctx.count("compositions16_total", len(comps16))
    nfull = ctx.pick(1, 6)          # per worker: layouts run on all 65536 patterns
    nsamp = ctx.pick(120, 2500)     # per worker: layouts run on boundary+random patterns
    srng = rng
    for j in range(nfull):
        parts = srng.choice(comps16)
        layout = decorate(srng, parts, srng.choice(["plain", "signed", "mixed", "nest"]))
        impl = impls[(ctx.index + j) % 2]
        lr = LayoutRunner(ctx, layout, impl)
        for p in range(65536):
            lr.run(p.to_bytes(2, "big"))
            if lr.failed:
                break
        ctx.count("layouts16_exhaustive")
        if crosses(layout):
            ctx.nontrivial("layout", layout, impl)
        if j == 0 and ctx.index < 3:
            ctx.sample({"layout": layout, "impl": impl, "class": lr.cls, "patterns": "all 65536"})
    for j in range(nsamp):
        bits = srng.choice([16, 16, 24, 32, 40, 48, 64])
        parts = []
        left = bits
        while left:
            w = srng.randint(1, min(24, left))
            parts.append(w)
            left -= w
        if bits >= 32 and srng.random() < 0.2:
            # replace a prefix by a float island when 32 bits are available at a boundary
            layout = decorate(srng, parts, srng.choice(["mixed", "nest"]))
            if bits >= 40:
                layout = [["int", 3, False, False], ["int", 5, True, False], ["bwf32"]] + decorate(srng, [bits - 40] if bits > 40 else [], "mixed")
        else:
            layout = decorate(srng, parts, srng.choice(["plain", "signed", "mixed", "nest"]))
        if sum(width(f) for f in layout) % 8:
            continue
        for impl in impls + (["bitstruct-mixed"] if len(layout) >= 2 and j % 3 == 0 else []):
            if impl == "direct" and j % 5:
                continue
            lr = LayoutRunner(ctx, layout, impl)
            for pat in boundary_patterns(srng, layout, 12):
                lr.run(pat)
                if lr.failed:
                    break
            if crosses(layout):
                ctx.nontrivial("layout", layout, impl)
        ctx.count("layouts_wide_sampled")
        if j == 1 and ctx.index < 2:
            ctx.sample({"layout": layout, "impls": impls, "patterns": "boundary+random"})


def replay(ctx, case):
    if case.get("kind") == "bitprobe":
        from .c09 import case_bitprobe
        return case_bitprobe(ctx, case)
    lr = LayoutRunner(ctx, case["layout"], case["impl"])
    lr.run(untag(case["pattern"]))
