"""C20 - result containers and display helpers are faithful.

Monitors:
  eq      : Container ==/!= against a reference equality (ignore '_' keys, order-insensitive, recursive
            through Containers and lists, plain == at the leaves), symmetry, reflexivity, vs plain dict
  history : a plain-dict model driven in lock-step through set/setattr/del/delattr/update/pop/popitem/
            setdefault/clear/copy/deepcopy/pickle; after every step the invariant walk
            (__dict__ is self; keys/values/items/iter/len/in/getattr coherent, insertion order)
            copies must be equal, usable, and independent at the promised depth (mutating the copy at
            every depth must not change the original)
  search  : search / search_all against a reference traversal
  list    : ListContainer == list of its elements
  hex     : hexundump(hexdump(d, n), n) == d
"""
import copy, pickle, re
from ..common import tag, jhash

LEVEL = "exploration"
RULE = ("nested key/value trees (public, private '_' keys, keys shadowing method names, int keys, nested Containers/ListContainers/"
        "plain lists/dicts, depth<=4) -> equality pairs/triples (mutations: reorder, private-key changes, nested edits, dropped keys, "
        "None values) ; operation histories of 1..30 steps with copy/deepcopy/pickle steps ; regex searches ; all byte strings of "
        "length 0..300 (+0xFFFF,0x10000) x line sizes 1..64 for the hex helpers.  non-trivial = history with a copy/deepcopy/pickle step "
        "followed by a nested mutation, or an equality pair differing only in order/private keys/nesting; distinct by case hash")
ASSUMPTIONS = ["NaN values are not generated (plain-dict equality itself is identity-based for NaN)",
               "methods are invoked through the class (Container.update(c, ...)) when an entry shadows the method name, as the library's own note prescribes"]
REQUIRED_ANCHORS = ["containers:Container.__eq__", "containers:Container.__ne__", "containers:Container.copy", "containers:Container.__copy__",
                    "containers:Container.__deepcopy__", "containers:Container.__getstate__", "containers:Container.__setstate__",
                    "containers:Container._search", "containers:Container.search", "containers:Container.search_all",
                    "containers:ListContainer._search", "containers:ListContainer.search", "containers:ListContainer.search_all",
                    "hex:hexdump", "hex:hexundump"]
ANCHORS = REQUIRED_ANCHORS

PUB = ["a", "b", "c", "x1", "data", "keys", "items", "update", "copy", "search", "pop", "clear", "values", "get", "search_all", "flags", "", " ", "__"]
PRIV = ["_p", "_io", "_", "_flagsenum"]


# ------------------------------------------------------------ plain model <-> library objects
# model tree: ("C", [(k, node), ...]) Container ; ("L", [node...]) ListContainer ; ("l", [...]) plain list ;
#             ("d", [(k,node)...]) plain dict ; ("v", value)
NAN = float("nan")        # one object: a value that is not equal to itself


def gen_tree(rng, depth, allow_plain=True):
    r = rng.random()
    if depth <= 0 or r < 0.35:
        return ("v", rng.choice([0, 1, 2, 7, -1, 255, None, True, False, b"", b"ab", "s", "", 1.5, 0.0, 2 ** 70, NAN]))
    if r < 0.75:
        n = rng.randint(0, 4)
        keys = []
        pool = PUB + PRIV + ([3, 0] if rng.random() < 0.15 else [])
        for _ in range(n):
            k = rng.choice(pool)
            if k not in keys:
                keys.append(k)
        return ("C", [(k, gen_tree(rng, depth - 1)) for k in keys])
    if r < 0.88:
        return ("L", [gen_tree(rng, depth - 1) for _ in range(rng.randint(0, 3))])
    if allow_plain and r < 0.94:
        return ("l", [gen_tree(rng, depth - 1) for _ in range(rng.randint(0, 3))])
    if allow_plain:
        return ("d", [(k, gen_tree(rng, depth - 1)) for k in rng.sample(["a", "b", "_p", "k"], rng.randint(0, 3))])
    return ("v", 5)


def realise(t):
    from construct import Container, ListContainer
    k = t[0]
    if k == "v":
        return t[1]
    if k == "C":
        c = Container()
        for key, sub in t[1]:
            c[key] = realise(sub)
        return c
    if k == "L":
        return ListContainer(realise(x) for x in t[1])
    if k == "l":
        return [realise(x) for x in t[1]]
    if k == "d":
        return {key: realise(sub) for key, sub in t[1]}


def plain(t):
    """The same tree with only plain dicts/lists."""
    k = t[0]
    if k == "v":
        return t[1]
    if k in ("C", "d"):
        return {key: plain(sub) for key, sub in t[1]}
    return [plain(x) for x in t[1]]


def show(t):
    k = t[0]
    if k == "v":
        return tag(t[1])
    if k in ("C", "d"):
        return {k: [[tag(key), show(sub)] for key, sub in t[1]]}
    return {k: [show(x) for x in t[1]]}


def ispriv(k):
    return isinstance(k, str) and k.startswith("_")


def ref_eq(t1, t2):
    """Reference equality on model trees, per the property statement."""
    k1, k2 = t1[0], t2[0]
    if k1 == "C" or k2 == "C":
        if k1 not in ("C", "d") or k2 not in ("C", "d"):
            return False
        d1 = {k: v for k, v in t1[1] if not ispriv(k)}
        d2 = {k: v for k, v in t2[1] if not ispriv(k)}
        if set(d1) != set(d2):
            return False
        return all(ref_eq(d1[k], d2[k]) for k in d1)
    if k1 == "d" and k2 == "d":
        d1, d2 = dict(t1[1]), dict(t2[1])
        return set(d1) == set(d2) and all(ref_eq(d1[k], d2[k]) for k in d1)
    if k1 in ("L", "l") and k2 in ("L", "l"):
        return len(t1[1]) == len(t2[1]) and all(ref_eq(a, b) for a, b in zip(t1[1], t2[1]))
    if k1 == "v" and k2 == "v":
        return t1[1] is t2[1] or t1[1] == t2[1]       # (as dict and list equality do: identical objects are equal, e.g. one NaN object)
    return False


def mutate(rng, t):
    """Return (kind, tree') : a variant of t."""
    kind = rng.choice(["same", "reorder", "privadd", "privchange", "nested", "drop", "addnone", "nonevalue", "leaf", "listappend", "listdroplast", "listdropfirst", "listswap"])
    t2 = copy.deepcopy(t)
    nodes = []

    def walk(n):
        nodes.append(n)
        if n[0] in ("C", "d"):
            for _, s in n[1]:
                walk(s)
        elif n[0] in ("L", "l"):
            for s in n[1]:
                walk(s)
    walk(t2)
    cs = [n for n in nodes if n[0] == "C"]
    if kind == "same" or not cs:
        return "same", t2
    if kind.startswith("list"):
        # lists that differ only in length (one a prefix / suffix of the other) or in element order
        ls = [n for n in nodes if n[0] in ("L", "l") and n is not t2]
        if not ls:
            return "same", t2
        n = rng.choice(ls)
        if kind == "listappend":
            n[1].append(("v", rng.choice([0, None, 7, b""])))
        elif kind == "listdroplast" and n[1]:
            n[1].pop()
        elif kind == "listdropfirst" and n[1]:
            n[1].pop(0)
        elif kind == "listswap" and len(n[1]) >= 2:
            n[1][0], n[1][-1] = n[1][-1], n[1][0]
        return kind, t2
    n = rng.choice(cs)
    if kind == "reorder":
        rng.shuffle(n[1])
    elif kind == "privadd":
        n[1].append(("_extra%d" % rng.randint(0, 9), ("v", rng.randint(0, 9))))
    elif kind == "privchange":
        for i, (k, s) in enumerate(n[1]):
            if ispriv(k):
                n[1][i] = (k, ("v", 12345))
    elif kind == "nested" or kind == "leaf":
        leaves = [x for x in nodes if x[0] == "v"]
        if leaves:
            # replace a leaf (in place: rebuild parent lists)
            target = rng.choice(leaves)
            _replace(t2, target, ("v", rng.choice([99, b"zz", "q", None, 0])))
    elif kind == "drop":
        if n[1]:
            n[1].pop(rng.randrange(len(n[1])))
    elif kind == "addnone":
        n[1].append(("znone", ("v", None)))
    elif kind == "nonevalue":
        if n[1]:
            i = rng.randrange(len(n[1]))
            n[1][i] = (n[1][i][0], ("v", None))
    return kind, t2


def _replace(root, target, new):
    if root[0] in ("C", "d"):
        for i, (k, s) in enumerate(root[1]):
            if s is target:
                root[1][i] = (k, new)
                return True
            if _replace(s, target, new):
                return True
    elif root[0] in ("L", "l"):
        for i, s in enumerate(root[1]):
            if s is target:
                root[1][i] = new
                return True
            if _replace(s, target, new):
                return True
    return False


# ------------------------------------------------------------ equality monitor
def check_eq_pair(ctx, t1, t2, kind):
    from construct import Container
    x, y = realise(t1), realise(t2)
    want = ref_eq(t1, t2)
    case = {"kind": "eq", "t1": show(t1), "t2": show(t2), "mutation": kind}
    ctx.ev()
    if not isinstance(x, Container) and not isinstance(y, Container):
        return
    try:
        r1, r2 = (x == y), (y == x)
        n1 = (x != y)
    except Exception as e:
        ctx.violation("eq-raises:" + type(e).__name__, "== raised %r" % (e,), case)
        return
    if r1 is not want and r1 != want:
        ctx.violation("eq-differs-from-reference:" + kind, "x == y is %r, reference says %r" % (r1, want), case)
    if bool(r1) != bool(r2):
        ctx.violation("eq-not-symmetric:" + kind, "x == y is %r but y == x is %r" % (r1, r2), case)
    if bool(n1) == bool(r1):
        ctx.violation("ne-not-negation", "x != y is %r while x == y is %r" % (n1, r1), case)
    if isinstance(x, Container):
        if not (x == x):
            ctx.violation("eq-not-reflexive", "x == x is False", case)
        # against the plain dict with the same public entries
        if t1[0] == "C":
            pd = {k: realise(s) for k, s in t1[1] if not ispriv(k)}
            if not (x == pd) or not (pd == x):
                ctx.violation("eq-vs-plain-dict", "container differs from the plain dict of its public entries", case)
    if kind in ("reorder", "privadd", "privchange", "nested", "nonevalue", "addnone", "drop"):
        ctx.nontrivial("eq", jhash(case))


def check_transitive(ctx, ts):
    xs = [realise(t) for t in ts]
    for i in range(3):
        for j in range(3):
            for k in range(3):
                try:
                    if xs[i] == xs[j] and xs[j] == xs[k] and not xs[i] == xs[k]:
                        ctx.violation("eq-not-transitive", "a==b, b==c but a!=c", {"kind": "trans", "ts": [show(t) for t in ts]})
                except Exception:
                    pass
    ctx.ev()


# ------------------------------------------------------------ history monitor
def walk_invariants(ctx, c, m, case, where):
    """c: Container, m: plain dict model (same insertion order)."""
    C = type(c)
    bad = None
    try:
        if c.__dict__ is not c:
            bad = "__dict__ is not the container itself"
        elif list(C.keys(c)) != list(m.keys()):
            bad = "keys() %r != model %r" % (list(C.keys(c)), list(m.keys()))
        elif list(iter(c)) != list(m.keys()):
            bad = "iteration order differs from insertion order"
        elif len(c) != len(m):
            bad = "len differs"
        else:
            vals = list(C.values(c))
            its = list(C.items(c))
            for i, (k, v) in enumerate(m.items()):
                if k not in c:
                    bad = "key %r not 'in' container" % (k,)
                    break
                if c[k] is not v or vals[i] is not v or its[i][0] != k or its[i][1] is not v:
                    bad = "entry %r: item/values/items views disagree with the model" % (k,)
                    break
                if isinstance(k, str) and k.isidentifier() and not (k.startswith("__") and k.endswith("__")):
                    try:
                        gv = getattr(c, k)
                    except AttributeError:
                        bad = "attribute access to %r raises AttributeError" % (k,)
                        break
                    if gv is not v:
                        bad = "getattr(c, %r) is not c[%r]" % (k, k)
                        break
    except Exception as e:
        bad = "invariant walk raised %s: %s" % (type(e).__name__, e)
    if bad:
        ctx.violation("views-incoherent:" + where, bad, case)
        return False
    return True


def deep_model(v):
    """Plain snapshot (structure + leaf reprs) of a library value, for independence checks."""
    if isinstance(v, dict):
        return ("d", [(repr(k), deep_model(x)) for k, x in dict.items(v)])
    if isinstance(v, list):
        return ("l", [deep_model(x) for x in v])
    return ("v", repr(v))


def mutate_everywhere(v, depth_limit, depth=0):
    """Mutate a library value at every depth (returns number of mutations)."""
    n = 0
    if isinstance(v, dict):
        for k, x in list(dict.items(v)):
            if depth + 1 <= depth_limit:
                n += mutate_everywhere(x, depth_limit, depth + 1)
        dict.__setitem__(v, "zz_mut%d" % depth, depth)
        n += 1
    elif isinstance(v, list):
        for x in list(v):
            if depth + 1 <= depth_limit:
                n += mutate_everywhere(x, depth_limit, depth + 1)
        list.append(v, ("mut", depth))
        n += 1
    return n


def nested_mutables(v, depth=0):
    out = []
    if isinstance(v, dict):
        for x in dict.values(v):
            if isinstance(x, (dict, list)):
                out.append((depth + 1, x))
                out.extend(nested_mutables(x, depth + 1))
    elif isinstance(v, list):
        for x in v:
            if isinstance(x, (dict, list)):
                out.append((depth + 1, x))
                out.extend(nested_mutables(x, depth + 1))
    return out


def check_copy(ctx, c, how, case):
    """Copy c by `how`, check equality/usability/independence. Returns the copy."""
    C = type(c)
    before = deep_model(c)
    try:
        if how == "copy":
            c2 = C.copy(c)
        elif how == "copy.copy":
            c2 = copy.copy(c)
        elif how == "deepcopy":
            c2 = copy.deepcopy(c)
        else:
            c2 = pickle.loads(pickle.dumps(c, protocol=int(how[-1])))
    except Exception as e:
        ctx.violation("copy-raises:" + how.rstrip("012345"), "%s raised %s: %s" % (how, type(e).__name__, e), case)
        return None
    hk = how.rstrip("012345")
    ctx.count("copies_" + hk)
    if type(c2) is not C:
        ctx.violation("copy-type:" + hk, "%s returned %s" % (how, type(c2).__name__), case)
        return None
    if c2 is c:
        ctx.violation("copy-is-original:" + hk, "%s returned the same object" % how, case)
        return None
    # (a pickle round trip makes a new object of a value that is not equal to itself: such a copy equals the original neither as a
    #  Container nor as a plain dict - the entries are then compared by their text)
    nan_apart = hk.startswith("pickle") and "nan" in repr(before)
    if nan_apart:
        ctx.count("pickle_copies_with_nan_compared_by_text")
    if ((not (c2 == c) or not (c == c2) or deep_model(c2) != before) and not nan_apart) or (nan_apart and repr(deep_model(c2)) != repr(before)):
        ctx.violation("copy-not-equal:" + hk, "%s result differs from the original" % how, case)
        return None
    if list(C.keys(c2)) != list(C.keys(c)):
        ctx.violation("copy-order:" + hk, "%s changed the insertion order" % how, case)
    if not walk_invariants(ctx, c2, dict(dict.items(c2)), case, "after-" + hk):
        return None
    deep = hk in ("deepcopy", "pickle")
    nm = nested_mutables(c2)
    if deep:
        nested_ok = True
        for d, sub in nested_mutables(c):
            for d2, sub2 in nm:
                if sub is sub2:
                    ctx.violation("copy-shares-nested:" + hk, "%s result shares a nested object with the original at depth %d" % (how, d), case)
                    nested_ok = False
                    break
            if not nested_ok:
                break
        mutate_everywhere(c2, 99)
        if nm:
            ctx.count("deep_copies_with_nested_mutation")
            ctx.nontrivial("hist", jhash(case), how)
    else:
        mutate_everywhere(c2, 0)
    if deep_model(c) != before:
        ctx.violation("copy-not-independent:" + hk, "mutating the %s result changed the original" % how, case)
    # undo top-level marker on shallow copies is not needed: c2 is discarded
    return c2


def run_history(ctx, rng, nsteps):
    from construct import Container, ListContainer
    t0 = gen_tree(rng, 3)
    if t0[0] != "C":
        t0 = ("C", [("a", t0)])
    c = realise(t0)
    m = dict(dict.items(c))
    C = Container
    steps = []
    case = {"kind": "history", "start": show(t0), "steps": steps}
    hadcopy = False
    for i in range(nsteps):
        op = rng.choice(["set", "setattr", "del", "delattr", "update", "pop", "popitem", "setdefault", "clear",
                         "copy", "copy.copy", "deepcopy", "pickle2", "pickle4", "pickle5", "set", "setattr", "nestedset"])
        k = rng.choice(PUB + PRIV)
        v = realise(gen_tree(rng, 2))
        steps.append([op, tag(k), tag(v) if not isinstance(v, (dict, list)) else "nested"])
        ctx.ev()
        try:
            if op == "set":
                c[k] = v
                m[k] = v
            elif op == "setattr":
                setattr(c, k, v)
                m[k] = v
            elif op == "del":
                if k in m:
                    del c[k]
                    del m[k]
            elif op == "delattr":
                if k in m:
                    delattr(c, k)
                    del m[k]
            elif op == "update":
                u = {k: v, rng.choice(PUB): 1}
                C.update(c, u)
                m.update(u)
            elif op == "pop":
                if k in m:
                    a, b = C.pop(c, k), m.pop(k)
                    if a is not b:
                        ctx.violation("pop-value", "pop returned a different object", case)
            elif op == "popitem":
                if m:
                    a, b = C.popitem(c), m.popitem()
                    if a[0] != b[0] or a[1] is not b[1]:
                        ctx.violation("popitem-value", "popitem %r vs model %r" % (a, b), case)
            elif op == "setdefault":
                a, b = C.setdefault(c, k, v), m.setdefault(k, v)
                if a is not b:
                    ctx.violation("setdefault-value", "setdefault result differs", case)
            elif op == "clear":
                if rng.random() < 0.3:
                    C.clear(c)
                    m.clear()
            elif op == "nestedset":
                subs = [x for x in dict.values(c) if isinstance(x, Container)]
                if subs:
                    s = rng.choice(subs)
                    s[k] = v          # same object is in the model
                    if hadcopy:
                        ctx.nontrivial("hist", jhash(case))
            else:
                hadcopy = True
                c2 = check_copy(ctx, c, op, case)
                if c2 is not None and rng.random() < 0.5 and op in ("copy", "copy.copy"):
                    pass
                if c2 is not None and op.startswith(("deepcopy", "pickle")) and rng.random() < 0.5:
                    # continue the history on a fresh deep copy
                    c = copy_for_continue(c, op)
                    m = dict(dict.items(c))
        except Exception as e:
            ctx.violation("history-op-raises:" + op.rstrip("012345"), "%s raised %s: %s" % (op, type(e).__name__, e), case)
            return
        if not walk_invariants(ctx, c, m, case, "after-" + op.rstrip("012345")):
            return
    ctx.count("histories")
    return case


def copy_for_continue(c, op):
    if op == "deepcopy":
        return copy.deepcopy(c)
    return pickle.loads(pickle.dumps(c, protocol=int(op[-1])))


# ------------------------------------------------------------ search monitor
def ref_search(t, pat, all_):
    """Reference traversal over the model tree -> list of matching leaf values (model nodes)."""
    out = []

    def visit(n):
        if n[0] == "C":
            for k, s in n[1]:
                if s[0] in ("C", "L"):
                    visit(s)
                else:
                    try:
                        if pat.match(k):
                            out.append(s)
                    except Exception:
                        pass
        elif n[0] == "L":
            for s in n[1]:
                if s[0] in ("C", "L"):
                    visit(s)
    visit(t)
    return out


def check_search(ctx, rng, t):
    x = realise(t)
    if t[0] not in ("C", "L"):
        return
    for p in rng.sample(["a", "b", "^a$", "x", ".*", "k", "_p", "s", "data|flags", "[a-c]", "^_", "search"], 4):
        pat = re.compile(p)
        want = ref_search(t, pat, True)
        case = {"kind": "search", "t": show(t), "pattern": p}
        ctx.ev()
        try:
            got_all = x.search_all(p) if t[0] == "L" else type(x).search_all(x, p)
            got_one = x.search(p) if t[0] == "L" else type(x).search(x, p)
        except Exception as e:
            ctx.violation("search-raises", "%s: %s" % (type(e).__name__, e), case)
            continue
        wv = [realise(w) for w in want]
        if len(got_all) != len(wv) or any(repr(a) != repr(b) for a, b in zip(got_all, wv)):
            ctx.violation("search_all-differs", "search_all(%r) = %r, reference traversal = %r" % (p, got_all, wv), case)
        # first-match: exactly the first entry of the traversal, also when its value is None (search() then returns None, as it does
        # when nothing matches; what it must not do is skip that entry and return a later one)
        first = wv[0] if wv else None
        if wv and wv[0] is None:
            ctx.count("search_first_match_is_None")
        if repr(got_one) != repr(first):
            ctx.violation("search-first-differs", "search(%r) = %r, first match in traversal order = %r" % (p, got_one, first), case)
        if wv:
            ctx.count("searches_with_matches")
            if any(w == 0 or w == b"" or w is False or w == "" for w in wv[:1]):
                ctx.count("search_first_match_falsy")
                ctx.nontrivial("search-falsy", jhash(case))
            if len(wv) > 1:
                ctx.nontrivial("search", jhash(case))


def check_listcontainer(ctx, rng):
    from construct import ListContainer
    t = ("L", [gen_tree(rng, 2) for _ in range(rng.randint(0, 4))])
    x = realise(t)
    elems = list(x)
    ctx.ev()
    case = {"kind": "list", "t": show(t)}
    if not (x == elems) or not (elems == x) or (x != elems):
        ctx.violation("listcontainer-ne-list", "ListContainer != list of its elements", case)
    if len(elems) > 0 and (x == elems[:-1]):
        ctx.violation("listcontainer-eq-shorter", "ListContainer equals a shorter list", case)
    for how in ("copy.copy", "deepcopy", "pickle2"):
        try:
            y = copy.copy(x) if how == "copy.copy" else copy.deepcopy(x) if how == "deepcopy" else pickle.loads(pickle.dumps(x, 2))
            if type(y) is not ListContainer or not ((y == x) or (how == "pickle2" and "nan" in repr(x) and repr(y) == repr(x))) or y is x:
                ctx.violation("listcontainer-copy:" + how, "copy of ListContainer not equal / wrong type", case)
        except Exception as e:
            ctx.violation("listcontainer-copy-raises:" + how, repr(e), case)


# ------------------------------------------------------------ hex helpers
def check_hex(ctx, data, n):
    from construct.lib import hexdump, hexundump
    ctx.ev()
    try:
        d = hexdump(data, n)
        back = hexundump(d, n)
    except Exception as e:
        ctx.violation("hex-raises", "%s: %s" % (type(e).__name__, e), {"kind": "hex", "len": len(data), "linesize": n, "data": tag(data[:64])})
        return
    if back != data:
        ctx.violation("hexundump-not-inverse", "hexundump(hexdump(d,%d),%d) != d (len %d)" % (n, n, len(data)),
                      {"kind": "hex", "len": len(data), "linesize": n, "data": tag(data[:400])})
    lines = d.split("\n")
    want_lines = (len(data) + n - 1) // n
    if len(lines) != want_lines + 3:
        ctx.violation("hexdump-line-count", "%d lines for %d bytes at %d per line" % (len(lines) - 3, len(data), n),
                      {"kind": "hex", "len": len(data), "linesize": n, "data": tag(data[:400])})


def run(ctx):
    rng = ctx.rng
    # equality
    npairs = ctx.pick(6000, 150000) // ctx.nworkers
    for i in range(npairs):
        t1 = gen_tree(rng, rng.choice([1, 2, 3, 4]))
        if t1[0] != "C" and rng.random() < 0.8:
            t1 = ("C", [("a", t1), ("_p", ("v", 1))])
        kind, t2 = mutate(rng, t1)
        check_eq_pair(ctx, t1, t2, kind)
        if i % 4 == 0:
            k3, t3 = mutate(rng, t2)
            check_eq_pair(ctx, t2, t3, k3)
            check_eq_pair(ctx, t1, t3, kind + "+" + k3 if False else k3)
            check_transitive(ctx, [t1, t2, t3])
        if i % 5 == 0:
            check_search(ctx, rng, t1)
        if i % 11 == 0:
            check_listcontainer(ctx, rng)
        if i == 3:
            ctx.sample({"kind": "eq", "t1": show(t1), "t2": show(t2), "mutation": kind})
    # deliberately constructed edge pairs
    edge = [
        (("C", [("a", ("v", 1)), ("b", ("v", None))]), ("C", [("a", ("v", 1))]), "none-vs-missing"),
        (("C", [("a", ("v", 1))]), ("C", [("a", ("v", 1)), ("b", ("v", None))]), "missing-vs-none"),
        (("C", [("a", ("C", [("x", ("v", None))]))]), ("C", [("a", ("C", []))]), "nested-none-vs-missing"),
        (("C", [("a", ("L", [("C", [("x", ("v", None))])]))]), ("C", [("a", ("L", [("C", [])]))]), "list-nested-none-vs-missing"),
        (("C", [("_a", ("v", 1))]), ("C", []), "only-private"),
        (("C", [(3, ("v", 1))]), ("C", [(3, ("v", 1)), ("_x", ("v", 0))]), "int-key"),
        (("C", [("a", ("v", 0))]), ("C", [("a", ("v", False))]), "zero-false"),
    ]
    if ctx.index == 0:
        for t1, t2, kind in edge:
            check_eq_pair(ctx, t1, t2, kind)
            check_eq_pair(ctx, t2, t1, kind)
            ctx.nontrivial("edge", kind)
    # histories
    nh = ctx.pick(5000, 120000) // ctx.nworkers
    for i in range(nh):
        case = run_history(ctx, rng, rng.randint(1, 30))
        if i == 1 and case:
            ctx.sample({"kind": "history", "start": case["start"], "steps": case["steps"][:12]})
    # hex helpers: lengths 0..300 (+2 big) x line sizes 1..64, sharded
    lengths = list(range(0, 301)) + [0xFFFF, 0x10000]
    reps = ctx.pick(2, 8)
    idx = 0
    for L in lengths:
        for n in range(1, 65):
            idx += 1
            if not ctx.mine(idx):
                continue
            if L > 1000 and n % 8 != 0 and ctx.quick:
                continue
            for r in range(reps if L <= 300 else 1):
                if r == 0:
                    data = bytes((i * 7 + L) & 0xFF for i in range(L))
                elif r == 1:
                    data = bytes([0x20, 0x22, 0x7f, 0x80, 0x0a, 0x41][i % 6] for i in range(L))
                else:
                    data = bytes(rng.getrandbits(8) for _ in range(L))
                check_hex(ctx, data, n)
            ctx.count("hex_cases")
            if L % n != 0 and L > n:
                ctx.nontrivial("hex", L, n)
    if ctx.index == 0:
        ctx.sample({"kind": "hex", "lengths": "0..300, 65535, 65536", "linesizes": "1..64"})


def replay(ctx, case):
    print("C20 cases are generated from the seed; re-run `./check C20 %s` with VERIF_SEED=%s to reproduce. case: %s" % (ctx.tier, ctx.seed, str(case)[:2000]))
    # deterministic edge / hex cases can be replayed directly
    if case.get("kind") == "hex" and "data" in case:
        from ..common import untag
        d = untag(case["data"])
        if len(d) == case["len"]:
            check_hex(ctx, d, case["linesize"])
