"""C15 - byte transforms invert exactly and match their definition.

Oracles (independent of the library): cycled XOR; rotation of each group as one big-endian integer by
amount mod 8*group (left on parse, right on build); byte reversal; per-byte bit reversal; stdlib codecs.
Monitors: build output == transform(inner bytes); inner construct sees inverse transform of the stream on parse;
parse(build(x)) == x; data whose length is not a multiple of the group is rejected (RotationError) both ways.
"""
import zlib, gzip, bz2, lzma, io
from ..common import tag, untag
from ..recipes import mk

LEVEL = "exploration"
EXHAUSTIVE = True
RULE = ("exhaustive parameter sets: every integer xor key 0..255 and its one-byte bytes form, byte keys of every length 1..80 "
        "(all-zero, zero-prefix/non-zero tail, random), rotation amounts -64..64 x groups 1..8 x lengths {0,g,3g}+every non-multiple, "
        "ByteSwapped/BitsSwapped sizes 1..16 sized and unsized, codecs zlib/gzip/bzip2/lzma x levels (output compared with the codec's own at that level); "
        "x data samples of length 0..300; plus per-process sequences of all byte-aligned rotations over all group sizes in ascending, descending and shuffled order. "
        "non-trivial = case on a fast path or boundary (zero key, key length 64/65, whole-byte rotation, table rotation, non-multiple length); "
        "distinct by (transform, parameters, data class)")
ASSUMPTIONS = ["gzip output is compared outside its 4-byte timestamp field"]
REQUIRED_ANCHORS = ["core:ProcessXor._parse", "core:ProcessXor._build", "core:ProcessRotateLeft._parse", "core:ProcessRotateLeft._build",
                    "core:ByteSwapped", "core:BitsSwapped", "core:Transformed._parse", "core:Transformed._build",
                    "core:Restreamed._parse", "core:Restreamed._build", "core:Tunnel._parse", "core:Tunnel._build",
                    "core:Compressed._decode", "core:Compressed._encode", "binary:swapbytes", "binary:swapbitsinbytes"]
ANCHORS = REQUIRED_ANCHORS


def ref_xor(data, key):
    if isinstance(key, int):
        key = bytes([key])
    return bytes(b ^ key[i % len(key)] for i, b in enumerate(data))


def ref_rotl(data, amount, group):
    out = bytearray()
    bits = 8 * group
    a = amount % bits
    for i in range(0, len(data), group):
        v = int.from_bytes(data[i:i + group], "big")
        v = ((v << a) | (v >> (bits - a))) & ((1 << bits) - 1) if a else v
        out += v.to_bytes(group, "big")
    return bytes(out)


def ref_bitrev(data):
    return bytes(int("{:08b}".format(b)[::-1], 2) for b in data)


def outcome(f):
    try:
        return ("ok", f())
    except Exception as e:
        return ("exc", type(e).__name__)


def run_case(ctx, case):
    import construct as C
    k = case["kind"]
    data = untag(case["data"])
    ctx.ev()

    def bad(mech, msg):
        ctx.violation(mech, msg, case)

    if k == "xor":
        key = untag(case["key"])
        via = case.get("via", "const")
        inner = ["name", "GreedyBytes"]
        if via == "const":
            d = mk(["ProcessXor", tag(key) if isinstance(key, bytes) else key, inner])
            kw = {}
        else:
            d = mk(["ProcessXor", ["this", "_params", "k"], inner])
            kw = {"k": key}
        want = ref_xor(data, key)
        b = outcome(lambda: d.build(data, **kw))
        p = outcome(lambda: d.parse(data, **kw))
        kl = 1 if isinstance(key, int) else len(key)
        tagk = "int" if isinstance(key, int) else ("len1" if kl == 1 else "len<=64" if kl <= 64 else "len>64")
        if b != ("ok", want):
            bad("xor-build:" + tagk, "ProcessXor build(%d bytes, key %s len %d) != data XOR key" % (len(data), tagk, kl))
        if p != ("ok", want):
            bad("xor-parse:" + tagk, "ProcessXor parse(%d bytes, key %s len %d) != stream XOR key" % (len(data), tagk, kl))
        if b[0] == "ok" and outcome(lambda: d.parse(b[1], **kw)) != ("ok", data):
            bad("xor-roundtrip:" + tagk, "parse(build(x)) != x")
        # structured inner sees the decoded stream; offsets stay those of the outer stream
        if len(data) >= 3:
            s = C.Struct("n" / C.Int16ub, "rest" / C.GreedyBytes)
            ds = C.ProcessXor(key if via == "const" else C.this._params.k, s)
            r = outcome(lambda: ds.parse(data, **kw))
            if r[0] != "ok" or r[1].n != int.from_bytes(want[:2], "big") or r[1].rest != want[2:]:
                bad("xor-structured:" + tagk, "structured inner construct did not see stream XOR key")
        return
    if k == "rot":
        amount, group = case["amount"], case["group"]
        via = case.get("via", "const")
        if via == "const":
            d = C.ProcessRotateLeft(amount, group, C.GreedyBytes)
            kw = {}
        else:
            d = C.ProcessRotateLeft(C.this._params.a, C.this._params.g, C.GreedyBytes)
            kw = {"a": amount, "g": group}
        a = amount % (8 * group)
        branch = "zero" if a == 0 else "table" if group == 1 else "bytes" if a % 8 == 0 else "bits"
        ctx.count("rot_branch_" + branch)
        p = outcome(lambda: d.parse(data, **kw))
        b = outcome(lambda: d.build(data, **kw))
        if len(data) % group != 0:
            if p != ("exc", "RotationError"):
                bad("rot-nonmultiple-parse", "parse of %d bytes with group %d -> %r, expected RotationError" % (len(data), group, p[:2] if p[0] == "exc" else "accepted"))
            if b != ("exc", "RotationError"):
                bad("rot-nonmultiple-build", "build of %d bytes with group %d -> %r, expected RotationError" % (len(data), group, b[:2] if b[0] == "exc" else "accepted"))
            return
        wantp = ref_rotl(data, amount, group)
        wantb = ref_rotl(data, -amount, group)
        if p != ("ok", wantp):
            bad("rot-parse:" + branch, "ProcessRotateLeft(%d,%d).parse != rotate-left of each group (got %r)" % (amount, group, p if p[0] == "exc" else p[1][:16]))
        if b != ("ok", wantb):
            bad("rot-build:" + branch, "ProcessRotateLeft(%d,%d).build != rotate-right of each group (got %r)" % (amount, group, b if b[0] == "exc" else b[1][:16]))
        if b[0] == "ok" and outcome(lambda: d.parse(b[1], **kw)) != ("ok", data):
            bad("rot-roundtrip:" + branch, "parse(build(x)) != x for amount %d group %d" % (amount, group))
        return
    if k == "swap":
        n = len(data)
        which = case["which"]
        if which == "bytes-sized":
            d = C.ByteSwapped(C.Bytes(n))
            want = data[::-1]
        elif which == "bytes-int":
            d = C.ByteSwapped(C.BytesInteger(n))
            want = None
        elif which == "bytes-int-signed":
            # signed integers (also through the public 24-bit names and with the inner integer itself swapped): reversing the bytes
            # of the two's-complement encoding
            ctx.count("swap_signed_integers")
            forms = [(C.ByteSwapped(C.BytesInteger(n, signed=True)), "little"), (C.ByteSwapped(C.BytesInteger(n, signed=True, swapped=True)), "big")]
            if n == 3:
                forms += [(C.ByteSwapped(C.Int24sb), "little"), (C.ByteSwapped(C.Int24sl), "big"), (C.ByteSwapped(C.Int24ub), "little-unsigned")]
            for d, order in forms:
                v = int.from_bytes(data, order.split("-")[0], signed=not order.endswith("unsigned"))
                if outcome(lambda: d.parse(data)) != ("ok", v):
                    bad("byteswapped-int-parse:signed", "ByteSwapped(<signed %d-byte integer>).parse(%s) -> %r, expected %d" % (n, data.hex(), outcome(lambda: d.parse(data)), v))
                if outcome(lambda: d.build(v)) != ("ok", data):
                    bad("byteswapped-int-build:signed", "ByteSwapped(<signed %d-byte integer>).build(%d) -> %r, expected %s" % (n, v, outcome(lambda: d.build(v)), data.hex()))
            return
        elif which == "bits-sized":
            d = C.BitsSwapped(C.Bytes(n))
            want = ref_bitrev(data)
        elif which == "bits-unsized":
            d = C.BitsSwapped(C.GreedyBytes)
            want = ref_bitrev(data)
        elif which == "bits-struct":
            d = C.BitsSwapped(C.Struct("a" / C.Bytes(1), "b" / C.GreedyBytes))
            want = ref_bitrev(data)
        elif which == "bits-positional":
            # streamed inner formats whose layout depends on the position inside the translated stream (alignment and padding are
            # computed from stream.tell()): the output is still the bit reversal of what the inner format builds on its own
            nn = min(n, 5)
            inner = C.Struct("n" / C.Byte, "d" / C.Aligned(4, C.Bytes(C.this.n)), "p" / C.Padded(3, C.Bytes(1)), "t" / C.GreedyBytes)
            v = dict(n=nn, d=data[:nn], p=b"\x81", t=data[nn:])
            plain = bytes([nn]) + data[:nn] + bytes(-nn % 4) + b"\x81\x00\x00" + data[nn:]
            ctx.count("swap_positional")
            if outcome(lambda: inner.build(v)) != ("ok", plain):
                ctx.count("positional_inner_reference_mismatch")
                return
            d = C.BitsSwapped(inner)
            if outcome(lambda: d.build(v)) != ("ok", ref_bitrev(plain)):
                bad("bitsswapped-positional-build", "BitsSwapped(Struct(n, Aligned(4, Bytes(n)), Padded(3, ..), GreedyBytes)).build -> %r, expected the bit reversal of %s" % (outcome(lambda: d.build(v)), plain.hex()))
            r = outcome(lambda: d.parse(ref_bitrev(plain)))
            if r[0] != "ok" or r[1].n != nn or r[1].d != data[:nn] or r[1].t != data[nn:]:
                bad("bitsswapped-positional-parse", "parse of the bit-reversed encoding -> %r" % (r,))
            d2 = C.BitsSwapped(C.Aligned(4, C.GreedyBytes))
            if outcome(lambda: d2.build(data)) != ("ok", ref_bitrev(data + bytes(-n % 4))):
                bad("bitsswapped-positional-build", "BitsSwapped(Aligned(4, GreedyBytes)).build(%d bytes) -> %r" % (n, outcome(lambda: d2.build(data))))
            # variable-size fields under a bit swap, FOLLOWED by further members: each takes exactly its own bytes
            txt = "".join(chr(0x41 + (b % 26)) for b in data[:5])
            vi = int.from_bytes(data[:3], "big")
            d4 = C.Struct("a" / C.BitsSwapped(C.PascalString(C.Byte, "ascii")), "b" / C.BitsSwapped(C.VarInt), "c" / C.BitsSwapped(C.CString("ascii")), "t" / C.Bytes(2))
            plain4 = [C.PascalString(C.Byte, "ascii").build(txt), C.VarInt.build(vi), C.CString("ascii").build(txt)]
            want4 = b"".join(ref_bitrev(x) for x in plain4) + b"\x5a\xa5"
            v4 = dict(a=txt, b=vi, c=txt, t=b"\x5a\xa5")
            if outcome(lambda: d4.build(v4)) != ("ok", want4):
                bad("bitsswapped-variable-build", "BitsSwapped around variable-size fields inside a Struct: build -> %r, expected %s" % (outcome(lambda: d4.build(v4)), want4.hex()))
            r4 = outcome(lambda: d4.parse(want4))
            if r4[0] != "ok" or r4[1].a != txt or r4[1].b != vi or r4[1].c != txt or r4[1].t != b"\x5a\xa5":
                bad("bitsswapped-variable-parse", "BitsSwapped around variable-size fields followed by further members: parse -> %r" % (r4,))
            # an XOR-ed region that does not start at offset 0 and whose inner format navigates from the region's end
            key = bytes([1 + n % 7, 0x5a])
            inner5 = C.Struct("payload" / C.OffsettedEnd(-2, C.GreedyBytes), "foot" / C.Bytes(2), "last" / C.Pointer(-1, C.Byte))
            d5 = C.Struct("h" / C.Bytes(3), "p" / C.Prefixed(C.Byte, C.ProcessXor(key, inner5)), "t" / C.Byte)
            region = data + b"FT"
            enc5 = b"hdr" + bytes([len(region)]) + bytes(b ^ key[i % 2] for i, b in enumerate(region)) + b"\x09"
            r5 = outcome(lambda: d5.parse(enc5))
            if r5[0] != "ok" or r5[1].p.payload != data or r5[1].p.foot != b"FT" or r5[1].p.last != region[-1] or r5[1].t != 9:
                bad("xor-region-end-relative", "an XOR-ed region behind a header whose inner format navigates from its end: parse -> %r, payload should be %s" % (r5, data.hex()))
            d3 = C.ByteSwapped(C.Struct("a" / C.Aligned(4, C.Bytes(1)), "b" / C.Padded(3, C.Byte))) if n >= 2 else None
            if d3 is not None and outcome(lambda: d3.build(dict(a=data[:1], b=data[1]))) != ("ok", (data[:1] + bytes(3) + data[1:2] + bytes(2))[::-1]):
                bad("byteswapped-positional-build", "ByteSwapped(Struct(Aligned, Padded)).build -> %r" % (outcome(lambda: d3.build(dict(a=data[:1], b=data[1]))),))
            return
        elif which == "bits-probe":
            # streamed: a repeated two-byte field that runs out of data part-way, then a read-to-end field - nothing may be lost
            d = C.BitsSwapped(C.Struct("xs" / C.GreedyRange(C.Int16ub), "rest" / C.GreedyBytes))
            want = ref_bitrev(data)
            ctx.count("swap_" + type(d).__name__)
            r = outcome(lambda: d.parse(data))
            xs = [int.from_bytes(want[i:i + 2], "big") for i in range(0, n - n % 2, 2)]
            if r[0] != "ok" or list(r[1].xs) != xs or r[1].rest != want[n - n % 2:]:
                bad("bitsswapped-probe-parse", "BitsSwapped(Struct(GreedyRange(Int16ub), GreedyBytes)) on %d bytes -> %r, expected xs=%r rest=%r" % (n, r[1] if r[0] == "ok" else r, xs, want[n - n % 2:]))
            r2 = outcome(lambda: d.build(dict(xs=xs, rest=want[n - n % 2:])))
            if r2 != ("ok", data):
                bad("bitsswapped-probe-build", "build of the parsed value does not reproduce the data")
            d2 = C.BitsSwapped(C.Struct("o" / C.Optional(C.Int32ub), "rest" / C.GreedyBytes))
            r3 = outcome(lambda: d2.parse(data))
            wo = int.from_bytes(want[:4], "big") if n >= 4 else None
            if r3[0] != "ok" or r3[1].o != wo or r3[1].rest != (want[4:] if n >= 4 else want):
                bad("bitsswapped-probe-parse", "BitsSwapped(Struct(Optional(Int32ub), GreedyBytes)) on %d bytes -> %r" % (n, r3[1] if r3[0] == "ok" else r3))
            return
        ctx.count("swap_" + type(d).__name__)
        if which == "bytes-int":
            v = int.from_bytes(data, "little")
            if outcome(lambda: d.parse(data)) != ("ok", v):
                bad("byteswapped-int-parse", "ByteSwapped(BytesInteger(%d)).parse != little-endian value" % n)
            if outcome(lambda: d.build(v)) != ("ok", data):
                bad("byteswapped-int-build", "ByteSwapped(BytesInteger(%d)).build != little-endian bytes" % n)
            return
        if which == "bits-struct":
            r = outcome(lambda: d.parse(data))
            if r[0] != "ok" or r[1].a != want[:1] or r[1].b != want[1:]:
                bad("bitsswapped-struct-parse", "BitsSwapped(Struct) inner did not see bit-reversed bytes")
            r2 = outcome(lambda: d.build(dict(a=data[:1], b=data[1:])))
            if r2 != ("ok", want):
                bad("bitsswapped-struct-build", "BitsSwapped(Struct) build != bit-reversed bytes")
            return
        if outcome(lambda: d.parse(data)) != ("ok", want):
            bad(which + "-parse", "%s parse != reference (n=%d)" % (which, n))
        if outcome(lambda: d.build(data)) != ("ok", want):
            bad(which + "-build", "%s build != reference (n=%d)" % (which, n))
        return
    if k == "codec":
        enc, level = case["codec"], case["level"]
        lib = {"zlib": zlib, "gzip": gzip, "bzip2": bz2, "lzma": lzma}[enc]
        d = C.Compressed(C.GreedyBytes, enc, level) if level is not None else C.Compressed(C.GreedyBytes, enc)
        b = outcome(lambda: d.build(data))
        if b[0] != "ok":
            bad("codec-build-raises:" + enc, "Compressed(%s,%r).build raised %s" % (enc, level, b[1]))
            return
        if outcome(lambda: lib.decompress(b[1])) != ("ok", data):
            bad("codec-build:" + enc, "stdlib decompress(build output) != inner bytes")
        # the documented transform: the codec's own output at the requested level (level 0 = stored); gzip's header carries a timestamp
        ref = lib.compress(data) if (level is None or enc == "lzma") else lib.compress(data, level)
        same = (b[1][:4] == ref[:4] and b[1][8:] == ref[8:]) if enc == "gzip" else b[1] == ref
        if not same:
            bad("codec-build-level:%s:%r" % (enc, level), "build output (%d bytes) is not %s.compress(data%s) (%d bytes)" % (len(b[1]), enc, "" if level is None else ", %d" % level, len(ref)))
        if outcome(lambda: d.parse(b[1])) != ("ok", data):
            bad("codec-roundtrip:" + enc, "parse(build(x)) != x")
        for lv in ([1, 6, 9] if enc != "lzma" else [None]):
            comp = lib.compress(data, lv) if lv is not None else lib.compress(data)
            if outcome(lambda: d.parse(comp)) != ("ok", data):
                bad("codec-parse:" + enc, "parse of stdlib-compressed data (level %r) != data" % (lv,))
        # inside a delimiter, with a structured inner construct
        s = C.Struct("p" / C.Prefixed(C.VarInt, C.Compressed(C.Struct("n" / C.Byte, "rest" / C.GreedyBytes), enc, level)), "tail" / C.Byte)
        if len(data) >= 1:
            v = dict(p=dict(n=data[0], rest=data[1:]), tail=7)
            bb = outcome(lambda: s.build(v))
            if bb[0] != "ok":
                bad("codec-structured-build:" + enc, "build raised %s" % bb[1])
            else:
                r = outcome(lambda: s.parse(bb[1]))
                if r[0] != "ok" or r[1].p.n != data[0] or r[1].p.rest != data[1:] or r[1].tail != 7:
                    bad("codec-structured:" + enc, "Prefixed(VarInt, Compressed(Struct)) did not round-trip")
        return
    raise ValueError(k)


def datas(rng, lengths):
    for L in lengths:
        yield bytes(rng.getrandbits(8) for _ in range(L))


def run(ctx):
    rng = ctx.rng
    nd = ctx.pick(3, 24)
    cases = []
    # --- xor: every integer key and one-byte form
    for kv in range(256):
        for via in ("const", "ctx"):
            cases.append(("xor", {"key": kv, "via": via}, "int0" if kv == 0 else "int"))
            cases.append(("xor", {"key": tag(bytes([kv])), "via": via}, "b1zero" if kv == 0 else "b1"))
    for L in range(1, 81):
        cases.append(("xor", {"key": tag(bytes(L)), "via": "const"}, "zero%d" % L))
        cases.append(("xor", {"key": tag(bytes(L - 1) + b"\x01"), "via": "const"}, "zerotail%d" % L))
        cases.append(("xor", {"key": tag(b"\x80" + bytes(L - 1)), "via": "ctx"}, "headnz%d" % L))
        cases.append(("xor", {"key": tag(bytes((i * 37 + L) & 0xFF for i in range(L))), "via": "const"}, "pat%d" % L))
        if L > 64:
            cases.append(("xor", {"key": tag(bytes(64) + bytes([L]) * (L - 64)), "via": "const"}, "zero64tail%d" % L))
            cases.append(("xor", {"key": tag(bytes(64) + bytes([L]) * (L - 64)), "via": "ctx"}, "zero64tailctx%d" % L))
    # --- rotations
    for group in range(1, 9):
        for amount in range(-64, 65):
            cases.append(("rot", {"amount": amount, "group": group, "via": "const" if amount % 2 == 0 else "ctx"}, "g%d" % group))
    # --- swaps
    for n in range(1, 17):
        for which in ("bytes-sized", "bytes-int", "bits-sized", "bits-unsized", "bits-struct", "bits-probe", "bits-positional", "bytes-int-signed"):
            cases.append(("swap", {"which": which, "n": n}, which))
    # --- codecs
    for enc in ("zlib", "gzip", "bzip2", "lzma"):
        for level in ([None, 0, 1, 5, 9] if enc in ("zlib", "gzip") else [None, 1, 5, 9] if enc == "bzip2" else [None, 3]):
            cases.append(("codec", {"codec": enc, "level": level}, enc))
    # one process, one sequence: every byte-aligned rotation for every group size, group sizes in ascending, descending and
    # shuffled order (a result must not depend on which rotations were performed before)
    if ctx.index < 3:
        seq = [(g, a) for g in range(1, 9) for a in range(-16 * 1, 8 * g + 17, 8)]
        if ctx.index == 1:
            seq.reverse()
        elif ctx.index == 2:
            rng.shuffle(seq)
        for g, a in seq:
            for via in ("const", "ctx"):
                data = bytes(rng.getrandbits(8) for _ in range(3 * g))
                run_case(ctx, {"kind": "rot", "amount": a, "group": g, "via": via, "data": tag(data), "history": "sequence %d" % ctx.index})
        ctx.count("rotation_history_sequences")
    if ctx.index == 0:
        ctx.count("parameter_sets", len(cases))
    for i, (kind, params, cls) in enumerate(cases):
        if not ctx.mine(i):
            continue
        if kind == "xor":
            kl = 1 if isinstance(params["key"], int) else len(untag(params["key"]))
            lens = [0, 1, kl, kl + 1, 3 * kl + 2, 150] + [rng.randint(0, 300) for _ in range(nd)]
        elif kind == "rot":
            g = params["group"]
            lens = [0, g, 3 * g] + [g * rng.randint(1, 30) for _ in range(nd)] + [x for x in range(1, 3 * g) if x % g != 0][:10]
        elif kind == "swap":
            lens = [params["n"]] * (nd + 2)
        else:
            lens = [0, 1, 2, 300] + [rng.randint(0, 300) for _ in range(nd)]
        for j, L in enumerate(lens):
            if j % 3 == 1 and L:
                data = bytes([rng.getrandbits(8)]) * L
            else:
                data = bytes(rng.getrandbits(8) for _ in range(L))
            case = dict(params)
            case["kind"] = kind
            case["data"] = tag(data)
            run_case(ctx, case)
            if (kind == "rot" and (L % params["group"] or params["amount"] % 8 == 0 or params["group"] == 1)) or \
               (kind == "xor" and (cls.startswith("zero") or cls in ("int0", "b1zero") or "64" in cls or cls.endswith(("64", "65")))) or \
               kind in ("codec",) or (kind == "swap" and params["n"] > 1):
                ctx.nontrivial(kind, params, "nonmult" if kind == "rot" and L % params["group"] else "len%d" % min(L, 3))
        ctx.count("class_" + kind)
        if i % 400 == 0:
            ctx.sample({k: v for k, v in case.items()})


def replay(ctx, case):
    run_case(ctx, case)
