"""Run one (recipe, kwargs) on the library and on the reference model and normalise both outcomes."""
from .common import tag, untag, raise_site
from .recipes import mk
from .streams import TracedStream
from .veq import norm
from . import refmodel as M


def loosen(n):
    """library value normal form -> model-comparable form: enum label == its string, containers -> dict/list"""
    if isinstance(n, tuple) and n:
        t = n[0]
        if t == "enum":
            return ("str", n[2])
        if t == "dict":
            return ("dict", {k: loosen(v) for k, v in n[1].items()})
        if t == "list":
            return ("list", [loosen(v) for v in n[1]])
        if t == "ntuple":
            return ("list", [loosen(v) for v in n[2]])
    return n


def same_value(libv, modelv):
    return loosen(norm(libv)) == loosen(norm(modelv))


def lib_build(d, v, kw):
    import construct as C
    try:
        return ("ok", d.build(v, **kw))
    except C.ConstructError as e:
        return ("reject", type(e).__name__, getattr(e, "path", None))
    except Exception as e:
        return ("foreign", type(e).__name__, raise_site(e))


def lib_parse(d, data, kw, offset=0):
    """-> ("ok", value, consumed) | ("reject", type, path) | ("foreign", type, site)"""
    import construct as C
    s = TracedStream(data, pos=offset, keeplog=False)
    try:
        v = d.parse_stream(s, **kw)
        consumed = s.pos - offset
        if "Lazy" in repr(type(v)) or "Lazy" in repr(v)[:2000]:
            # deferred members are read inside the observed call (a lazy parse has accepted the input only once they can all be
            # read); the position reported is the one the parse itself left
            norm(v)
            s.pos = offset + consumed
        return ("ok", v, consumed)
    except C.ConstructError as e:
        return ("reject", type(e).__name__, getattr(e, "path", None))
    except Exception as e:
        return ("foreign", type(e).__name__, raise_site(e))


def model_build(r, v, kw):
    try:
        return ("ok", M.enc(r, v, M.top_scope(dict(kw))))
    except M.Reject as e:
        return ("reject", e.kind)
    except (TypeError, AttributeError):
        # a hostile value of the wrong shape (None where a list is needed ...): not in the domain
        return ("reject", "type")
    except (M.ModelGap, M.MissingKey, M.Unsized) as e:
        return ("gap", type(e).__name__ + ":" + str(e)[:60])
    except (RecursionError, MemoryError, OverflowError):
        return ("gap", "resources")


def model_parse(r, data, kw):
    try:
        v, pos = M.dec(r, data, 0, len(data), M.top_scope(dict(kw)))
        return ("ok", v, pos)
    except M.Reject as e:
        return ("reject", e.kind)
    except (M.ModelGap, M.MissingKey, M.Unsized) as e:
        return ("gap", type(e).__name__ + ":" + str(e)[:60])
    except (RecursionError, MemoryError, OverflowError):
        return ("gap", "resources")


def model_size(r, kw):
    try:
        return ("ok", M.size(r, M.top_scope(dict(kw))))
    except M.Unsized:
        return ("unsized",)
    except M.MissingKey:
        return ("missing",)
    except M.ModelGap:
        return ("gap",)


def top_kind(r):
    k = r[0]
    if k == "name":
        return r[1]
    if k == "Renamed":
        return top_kind(r[2])
    return k


def kinds_in(r, acc=None):
    """all recipe kinds occurring in r (for mechanism keys / coverage counters)"""
    if acc is None:
        acc = set()
    if isinstance(r, list) and r and isinstance(r[0], str) and (r[0][:1].isupper() or r[0] == "name"):
        acc.add(r[1] if r[0] == "name" else r[0])
        for x in r[1:]:
            if isinstance(x, list):
                if x and isinstance(x[0], str):
                    kinds_in(x, acc)
                else:
                    for m in x:
                        if isinstance(m, list):
                            if len(m) == 2 and isinstance(m[1], list) and m[1] and isinstance(m[1][0], str):
                                kinds_in(m[1], acc)
                            elif m and isinstance(m[0], str):
                                kinds_in(m, acc)
    return acc


def subrecipes(r):
    """direct child recipes of r"""
    out = []
    if not (isinstance(r, list) and r and isinstance(r[0], str)):
        return out
    for x in r[1:]:
        if isinstance(x, list) and x:
            if isinstance(x[0], str) and (x[0][:1].isupper() or x[0] == "name"):
                out.append(x)
            elif isinstance(x[0], list):
                for m in x:
                    if isinstance(m, list) and len(m) == 2 and isinstance(m[1], list) and m[1] and isinstance(m[1][0], str) and (m[1][0][:1].isupper() or m[1][0] == "name"):
                        out.append(m[1])
    return out


def culprit_kind(r, test):
    """Smallest sub-recipe kind for which `test(sub)` (a self-contained re-check on that sub-recipe) still fails;
    falls back to the top kind.  test must be cheap and must not raise."""
    best = r
    frontier = [r]
    seen = 0
    while frontier and seen < 200:
        x = frontier.pop()
        for c in subrecipes(x):
            seen += 1
            try:
                if test(c):
                    best = c
                    frontier.append(c)
            except Exception:
                pass
    return top_kind(best)
