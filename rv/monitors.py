"""Instrumentation attached from the harness process (no repository edits)."""
import sys, os, threading, functools, types, json
from .common import REPO
from .streams import BudgetExceeded

mon = sys.monitoring
COV_TOOL = 3
STEP_TOOL = 4
LIBDIR = os.path.join(REPO, "construct") + os.sep


# --------------------------------------------------------------------------
# function coverage of construct/*.py: which functions did the workload enter?
# PY_START callback returns DISABLE after the first hit of each code object,
# so the steady-state cost is ~0.
# --------------------------------------------------------------------------
class Coverage:
    def __init__(self):
        self.hit = set()
        self.on = False

    def start(self):
        if self.on:
            return
        mon.use_tool_id(COV_TOOL, "rv-cov")
        mon.register_callback(COV_TOOL, mon.events.PY_START, self._cb)
        mon.set_events(COV_TOOL, mon.events.PY_START)
        self.on = True

    def _cb(self, code, off):
        fn = code.co_filename
        if fn.startswith(LIBDIR):
            self.hit.add(os.path.basename(fn)[:-3] + ":" + code.co_qualname)
        return mon.DISABLE

    def stop(self):
        if self.on:
            mon.set_events(COV_TOOL, 0)
            mon.free_tool_id(COV_TOOL)
            self.on = False


COVERAGE = Coverage()


# --------------------------------------------------------------------------
# logical step budget: count Python function entries while a case runs
# --------------------------------------------------------------------------
class StepBudget:
    def __init__(self):
        self.n = 0
        self.limit = None
        self.installed = False

    def install(self):
        if self.installed:
            return
        mon.use_tool_id(STEP_TOOL, "rv-steps")
        mon.register_callback(STEP_TOOL, mon.events.PY_START, self._cb)
        self.installed = True

    def _cb(self, code, off):
        self.n += 1
        if self.limit is not None and self.n > self.limit:
            # keep raising at every further entry into library code until the scope is left: a `finally: return` or a bare
            # `except BaseException` in the code under test must not be able to swallow the budget and loop on
            if self.n > self.limit + 1 and "/construct/" not in code.co_filename:
                return
            raise BudgetExceeded("call-step budget %d exceeded" % self.limit)

    def __call__(self, limit):
        return _BudgetScope(self, limit)


class _BudgetScope:
    def __init__(self, sb, limit):
        self.sb, self.limit = sb, limit

    def __enter__(self):
        self.sb.install()
        self.sb.n = 0
        self.sb.limit = self.limit
        mon.set_events(STEP_TOOL, mon.events.PY_START)
        return self.sb

    def __exit__(self, *a):
        self.sb.limit = None
        mon.set_events(STEP_TOOL, 0)
        return False


STEPS = StepBudget()


# --------------------------------------------------------------------------
# member trace: wrap Renamed._parse/_build/_sizeof
# --------------------------------------------------------------------------
class TraceOverflow(BaseException):
    """more member events in one call than the trace is willing to hold (a repetition of hundreds of thousands of named members)"""


class MemberTrace:
    """Records (op, path, name, tell_before, tell_after | exc) for every named member."""
    MAX_EVENTS = 400000

    def __init__(self):
        self.events = []
        self.active = False
        self._orig = None
        self.clock = None      # optional callable: logical time (e.g. length of the outer traced stream's log)
        self.tick = 0          # enter/exit counter: events carry (enter tick, exit tick) so that nesting can be read off

    def install(self):
        if self._orig is not None:
            return
        import construct.core as core
        R = core.Renamed
        self._orig = (R._parse, R._build, R._sizeof)
        trace = self
        op0, ob0, os0 = self._orig

        def _tell(stream):
            try:
                return stream.tell()
            except Exception:
                return None

        def _parse(self, stream, context, path):
            if not trace.active:
                return op0(self, stream, context, path)
            t0 = _tell(stream)
            idx = len(trace.events)
            if idx >= trace.MAX_EVENTS:
                raise TraceOverflow("%d member events in one call" % idx)
            trace.tick += 1
            trace.events.append(["parse", path, self.name, t0, None, None, id(stream), trace.clock() if trace.clock else None, None, self, trace.tick, None])
            try:
                r = op0(self, stream, context, path)
            except BaseException as e:
                trace.events[idx][5] = type(e).__name__
                raise
            finally:
                trace.events[idx][8] = trace.clock() if trace.clock else None
                trace.tick += 1
                trace.events[idx][11] = trace.tick
            trace.events[idx][4] = _tell(stream)
            return r

        def _build(self, obj, stream, context, path):
            if not trace.active:
                return ob0(self, obj, stream, context, path)
            t0 = _tell(stream)
            idx = len(trace.events)
            if idx >= trace.MAX_EVENTS:
                raise TraceOverflow("%d member events in one call" % idx)
            trace.events.append(["build", path, self.name, t0, None, None, id(stream)])
            try:
                r = ob0(self, obj, stream, context, path)
            except BaseException as e:
                trace.events[idx][5] = type(e).__name__
                raise
            trace.events[idx][4] = _tell(stream)
            return r

        R._parse, R._build = _parse, _build

    def __enter__(self):
        self.install()
        self.events = []
        self.active = True
        return self

    def __exit__(self, *a):
        self.active = False
        return False


MEMBERS = MemberTrace()


# --------------------------------------------------------------------------
# Error activations (C13)
# --------------------------------------------------------------------------
class ErrorCounter:
    def __init__(self):
        self.n = 0
        self._installed = False

    def install(self):
        if self._installed:
            return
        import construct.core as core
        E = type(core.Error)
        p0, b0 = E._parse, E._build
        me = self

        def _parse(self, stream, context, path):
            me.n += 1
            return p0(self, stream, context, path)

        def _build(self, obj, stream, context, path):
            me.n += 1
            return b0(self, obj, stream, context, path)

        E._parse, E._build = _parse, _build
        self._installed = True


ERRORS = ErrorCounter()


# --------------------------------------------------------------------------
# mutation guard (C17): attribute writes on Construct objects after construction
# --------------------------------------------------------------------------
class MutationGuard:
    def __init__(self):
        self.writes = []
        self.armed = False
        self._installed = False
        self.fresh = set()   # ids of constructs created while armed (e.g. Compiled)
        self.lock = threading.Lock()

    def install(self):
        if self._installed:
            return
        import construct.core as core
        C = core.Construct
        guard = self
        orig_init = C.__init__

        def __setattr__(self, name, value):
            if guard.armed and id(self) not in guard.fresh:
                with guard.lock:
                    guard.writes.append((type(self).__name__, name, threading.get_ident()))
            object.__setattr__(self, name, value)

        def __delattr__(self, name):
            if guard.armed and id(self) not in guard.fresh:
                with guard.lock:
                    guard.writes.append((type(self).__name__, "del " + name, threading.get_ident()))
            object.__delattr__(self, name)

        def __init__(self, *a, **k):
            if guard.armed:
                guard.fresh.add(id(self))
            orig_init(self, *a, **k)

        C.__setattr__ = __setattr__
        C.__delattr__ = __delattr__
        C.__init__ = __init__
        self._installed = True


GUARD = MutationGuard()


def fingerprint(con, seen=None, depth=0):
    """Structural fingerprint of a construct tree: vars() of every reachable construct,
    callables by identity, containers recursively."""
    import construct.core as core
    if seen is None:
        seen = {}
    if id(con) in seen:
        return ("ref", seen[id(con)])
    seen[id(con)] = len(seen)

    def fp(v, d):
        if d > 12:
            return "deep"
        if isinstance(v, core.Construct):
            return fingerprint(v, seen, d + 1)
        if isinstance(v, dict):
            return ("dict", tuple((repr(k), fp(x, d + 1)) for k, x in dict.items(v)))
        if isinstance(v, (list, tuple)):
            return ("seq", tuple(fp(x, d + 1) for x in v))
        if isinstance(v, (int, float, str, bytes, bool, type(None))):
            return ("v", type(v).__name__, repr(v))
        return ("id", type(v).__name__, id(v))

    try:
        d = object.__getattribute__(con, "__dict__")
    except AttributeError:
        d = {}
    return (type(con).__name__, tuple((k, fp(v, depth)) for k, v in sorted(d.items())))


# --------------------------------------------------------------------------
# KSY capture stub (ruamel.yaml is not installed; the serializer is not under test)
# --------------------------------------------------------------------------
def install_ruamel_stub():
    if "ruamel.yaml" in sys.modules and getattr(sys.modules["ruamel.yaml"], "_rv_stub", False):
        return
    pkg = types.ModuleType("ruamel")
    pkg.__path__ = []
    m = types.ModuleType("ruamel.yaml")
    m._rv_stub = True

    class YAML:
        default_flow_style = False

        def dump(self, data, stream):
            stream.write(json.dumps(data, default=repr))

    m.YAML = YAML
    pkg.yaml = m
    sys.modules["ruamel"] = pkg
    sys.modules["ruamel.yaml"] = m
