"""Independent executable reference semantics of the wire formats (oracle for C03; value/layout source
for C01, C02, C05, C06, C18).  Written from the format definitions, not from core.py: two's complement by
modular arithmetic, IEEE-754 by exact Fraction arithmetic, LEB128/ZigZag by definition, bit packing by
big integers.  It interprets the same JSON recipes as rv.recipes.mk.

    enc(r, v, sc)            -> bytes                      | raises Reject(kind)
    dec(r, buf, pos, end, sc)-> (value, newpos)            | raises Reject(kind)
    size(r, sc)              -> int                        | raises Unsized / MissingKey

`sc` is a Scope (dict with '_' parent links) - the model of the library's context.
Values are plain Python: dict for Struct (insertion ordered, no private keys), list, int, float, bytes, str,
bool, None; Enum labels are the label *string* when mapped and the int otherwise.
"""
import sys
from fractions import Fraction
from .common import untag
from .recipes import evalexpr, is_named_pair


class Reject(Exception):
    def __init__(self, kind, msg=""):
        Exception.__init__(self, "%s %s" % (kind, msg))
        self.kind = kind


class Unsized(Exception):
    pass


class MissingKey(Exception):
    pass


class ModelGap(Exception):
    """the recipe / value is outside what the reference model describes (never a verdict)"""


# ----------------------------------------------------------------------------- scope
def new_scope(parent, params=None):
    sc = {"_": parent} if parent is not None else {}
    if parent is None:
        sc["_params"] = sc if params is None else params
        if params is not None:
            sc.update(params)
            sc["_params"] = sc
    else:
        sc["_params"] = parent["_params"]
        sc["_root"] = parent.get("_root", sc)
        if "_index" in parent:
            sc["_index"] = parent["_index"]
    return sc


def top_scope(kw):
    sc = dict(kw)
    sc["_params"] = sc
    return sc


def ev(e, sc, obj=None, lst=None):
    """evaluate a recipe parameter (constant or expression) on the scope"""
    if isinstance(e, list):
        try:
            return evalexpr(e, sc, obj, lst)
        except (KeyError, AttributeError, TypeError) as x:
            raise MissingKey(str(x))
    return untag(e) if isinstance(e, dict) else e


# ----------------------------------------------------------------------------- integers
INTNAMES = {}
for _bits in (8, 16, 24, 32, 64):
    for _s in "us":
        for _e in "bln":
            INTNAMES["Int%d%s%s" % (_bits, _s, _e)] = (_bits // 8, _s == "s", (_e == "l") or (_e == "n" and sys.byteorder == "little"))
INTNAMES.update({"Byte": INTNAMES["Int8ub"], "Short": INTNAMES["Int16ub"], "Int": INTNAMES["Int32ub"], "Long": INTNAMES["Int64ub"]})
FLOATNAMES = {}
for _bits in (16, 32, 64):
    for _e in "bln":
        FLOATNAMES["Float%d%s" % (_bits, _e)] = (_bits, (_e == "l") or (_e == "n" and sys.byteorder == "little"))
FLOATNAMES.update({"Half": FLOATNAMES["Float16b"], "Single": FLOATNAMES["Float32b"], "Double": FLOATNAMES["Float64b"]})
FMT_INT = {"B": (1, False), "H": (2, False), "L": (4, False), "Q": (8, False), "b": (1, True), "h": (2, True), "l": (4, True), "q": (8, True)}
FMT_FLOAT = {"e": 16, "f": 32, "d": 64}
BITNAMES = {"Bit": 1, "Nibble": 4, "Octet": 8}


def int_enc(v, nbytes, signed, little, strict_int=True):
    if isinstance(v, bool) and strict_int == "struct":
        pass
    if not isinstance(v, int):
        raise Reject("type", "not an integer: %r" % (v,))
    if nbytes <= 0:
        raise Reject("range", "width")
    bits = 8 * nbytes
    lo, hi = (-(1 << (bits - 1)), (1 << (bits - 1)) - 1) if signed else (0, (1 << bits) - 1)
    if not lo <= v <= hi:
        raise Reject("range", "%d not in [%d,%d]" % (v, lo, hi))
    u = v % (1 << bits)
    out = bytearray()
    for _ in range(nbytes):
        u, r = divmod(u, 256)
        out.append(r)
    return bytes(out) if little else bytes(reversed(out))


def int_dec(b, signed, little):
    if little:
        b = bytes(reversed(b))
    u = 0
    for x in b:
        u = u * 256 + x
    if signed and b and b[0] & 0x80:
        u -= 1 << (8 * len(b))
    return u


def take(buf, pos, end, n):
    if n < 0:
        raise Reject("short", "negative length")
    if pos + n > end:
        raise Reject("short", "need %d bytes at %d, region ends at %d" % (n, pos, end))
    return bytes(buf[pos:pos + n]), pos + n


# ----------------------------------------------------------------------------- floats (IEEE-754 by Fraction)
FPARAM = {16: (5, 10), 32: (8, 23), 64: (11, 52)}


def float_dec_bits(u, bits):
    eb, mb = FPARAM[bits]
    sign = u >> (bits - 1)
    e = (u >> mb) & ((1 << eb) - 1)
    m = u & ((1 << mb) - 1)
    bias = (1 << (eb - 1)) - 1
    if e == (1 << eb) - 1:
        return float("nan") if m else (float("-inf") if sign else float("inf"))
    if e == 0:
        f = Fraction(m, 1 << mb) * Fraction(2) ** (1 - bias)
    else:
        f = (1 + Fraction(m, 1 << mb)) * Fraction(2) ** (e - bias)
    v = float(f)
    if sign:
        v = -v
        if f == 0:
            v = -0.0
    return v


def float_enc_bits(v, bits):
    """-> integer bit pattern, rounding half to even; finite values beyond the format's range are rejected"""
    import math
    if not isinstance(v, (int, float)):      # bool is an int in Python: struct packs True as 1.0
        raise Reject("type", "not a number: %r" % (v,))
    eb, mb = FPARAM[bits]
    bias = (1 << (eb - 1)) - 1
    if isinstance(v, int):
        try:
            v = float(v)
        except OverflowError:
            raise Reject("range", "int too large")
    if v != v:
        return (((1 << eb) - 1) << mb) | (1 << (mb - 1))
    sign = 1 if math.copysign(1.0, v) < 0 else 0
    if v in (float("inf"), float("-inf")):
        return (sign << (bits - 1)) | (((1 << eb) - 1) << mb)
    f = abs(Fraction(v))
    if f == 0:
        return sign << (bits - 1)
    # find exponent e with 2^e <= f < 2^(e+1)
    e = f.numerator.bit_length() - f.denominator.bit_length()
    if Fraction(2) ** e > f:
        e -= 1
    if Fraction(2) ** (e + 1) <= f:
        e += 1
    emin = 1 - bias
    if e < emin:
        e = emin
        scaled = f / Fraction(2) ** (emin - mb)        # subnormal: multiples of 2^(emin-mb)
        q = _round_half_even(scaled)
        if q >= (1 << mb):
            return (sign << (bits - 1)) | (1 << mb) | (q - (1 << mb))
        return (sign << (bits - 1)) | q
    scaled = f / Fraction(2) ** (e - mb)                # in [2^mb, 2^(mb+1))
    q = _round_half_even(scaled)
    if q >= (1 << (mb + 1)):
        q >>= 1
        e += 1
    if e > bias:
        raise Reject("range", "float too large for binary%d" % bits)
    return (sign << (bits - 1)) | ((e + bias) << mb) | (q - (1 << mb))


def _round_half_even(fr):
    fl = fr.numerator // fr.denominator
    rem = fr - fl
    if rem > Fraction(1, 2) or (rem == Fraction(1, 2) and fl % 2 == 1):
        return fl + 1
    return fl


def float_enc(v, bits, little):
    u = float_enc_bits(v, bits)
    b = bytearray()
    for _ in range(bits // 8):
        u, r = divmod(u, 256)
        b.append(r)
    return bytes(b) if little else bytes(reversed(b))


def float_dec(b, bits, little):
    if little:
        b = bytes(reversed(b))
    u = 0
    for x in b:
        u = u * 256 + x
    return float_dec_bits(u, bits)


# ----------------------------------------------------------------------------- varint / zigzag
def varint_enc(v):
    if isinstance(v, bool) or not isinstance(v, int):
        if not isinstance(v, int):
            raise Reject("type", "not an integer")
    if v < 0:
        raise Reject("range", "negative")
    out = bytearray()
    while True:
        g = v % 128
        v //= 128
        if v:
            out.append(g + 128)
        else:
            out.append(g)
            return bytes(out)


def varint_dec(buf, pos, end):
    v, sh = 0, 0
    while True:
        if pos >= end:
            raise Reject("short", "varint")
        b = buf[pos]
        pos += 1
        v += (b % 128) << sh
        sh += 7
        if b < 128:
            return v, pos


# ----------------------------------------------------------------------------- strings
UNIT = {"ascii": 1, "utf8": 1, "utf_8": 1, "u8": 1, "utf16": 2, "utf_16": 2, "u16": 2, "utf_16_be": 2, "utf_16_le": 2,
        "utf32": 4, "utf_32": 4, "u32": 4, "utf_32_be": 4, "utf_32_le": 4}


def str_encode(v, encoding):
    if not isinstance(v, str):
        raise Reject("type", "not a str")
    if v == "":
        return b""
    try:
        return v.encode(encoding)
    except Exception:
        raise Reject("codec", "cannot encode")


def str_decode(b, encoding):
    try:
        return bytes(b).decode(encoding)
    except Exception:
        raise Reject("codec", "cannot decode")


def unit_of(encoding):
    e = encoding.replace("-", "_").lower()
    if e not in UNIT:
        raise ModelGap("encoding")
    return UNIT[e]


def strip_units(data, pad):
    u = len(pad)
    if u == 1:
        return data.rstrip(pad)
    t = len(data) % u
    if t and data[len(data) - t:] == pad[:t]:
        # an incomplete last unit is padding only if it is the beginning of the pad unit; anything else is payload and stays
        data = data[:len(data) - t]
    elif t:
        if len(set(pad)) > 1:
            raise ModelGap("ragged non-padding tail with a pad unit of differing bytes: which offsets count as unit boundaries is not defined")
        return data
    while len(data) >= u and data[len(data) - u:] == pad:
        data = data[:len(data) - u]
    return data


# ----------------------------------------------------------------------------- the interpreter
def is_buildnone(r):
    """does the construct build from nothing? (flagbuildnone as the docs describe it)"""
    k = r[0]
    if k == "name":
        return r[1] in ("Pass", "Terminated", "Tell", "Index", "Error")
    if k in ("Const", "Computed", "Default", "Rebuild", "Check", "StopIf", "Padding", "Peek"):
        return True
    if k in ("Struct", "Sequence", "BitStruct", "AlignedStruct"):
        ms = r[1] if k != "AlignedStruct" else r[2]
        return all(is_buildnone(m[1]) for m in ms)
    if k in ("Renamed",):
        return is_buildnone(r[2])
    if k in ("Hex", "HexDump", "Bitwise", "Bytewise", "ByteSwapped", "BitsSwapped", "NullStripped", "Optional", "RawCopy", "Lazy"):
        if k == "Optional":
            return True
        return is_buildnone(r[1])
    if k == "ProcessRotateLeft":
        return is_buildnone(r[3])
    if k in ("Padded", "Aligned", "FixedSized", "Prefixed", "ProcessXor", "Array", "Pointer"):
        return is_buildnone(r[2])
    if k == "NullTerminated":
        return is_buildnone(r[1])
    if k == "IfThenElse":
        return is_buildnone(r[2]) and is_buildnone(r[3])
    if k == "If":
        return is_buildnone(r[2])
    if k == "Switch":
        return all(is_buildnone(c) for _, c in r[2]) and (len(r) < 4 or r[3] is None or is_buildnone(r[3]))
    if k == "Select":
        return any(is_buildnone(x[1] if is_named_pair(x) else x) for x in r[1])
    if k in ("Enum", "FlagsEnum", "Mapping", "OneOf", "NoneOf", "ExprValidator", "GreedyRange", "RepeatUntil"):
        return is_buildnone(r[1]) if k not in ("RepeatUntil",) else is_buildnone(r[2])
    return False


def size(r, sc):
    k = r[0]
    a = r[1:]
    if k == "name":
        n = a[0]
        if n in INTNAMES:
            return INTNAMES[n][0]
        if n in FLOATNAMES:
            return FLOATNAMES[n][0] // 8
        if n in BITNAMES:
            return BITNAMES[n]
        if n == "Flag":
            return 1
        if n in ("Pass", "Tell", "Index"):
            return 0
        raise Unsized(n)
    if k == "FormatField":
        return FMT_INT[a[1]][0] if a[1] in FMT_INT else (FMT_FLOAT[a[1]] // 8 if a[1] in FMT_FLOAT else 1)
    if k in ("BytesInteger", "BitsInteger", "Bytes", "Padding", "PaddedString"):
        n = ev(a[0], sc)
        if k in ("Padding", "PaddedString") and n < 0:
            raise ModelGap("negative length")
        return n
    if k in ("Enum", "EnumClass", "EnumMixed", "FlagsEnum", "FlagsEnumClass", "Mapping", "Hex", "HexDump", "OneOf", "NoneOf", "ExprValidator", "RawCopy", "Lazy"):
        return size(a[0], sc)
    if k in ("Default", "Rebuild"):
        return size(a[0], sc)
    if k == "Const":
        return len(untag(a[0])) if a[1] is None else size(a[1], sc)
    if k in ("Computed", "Check"):
        return 0
    if k == "Renamed":
        return size(a[1], sc)
    if k in ("Struct", "Sequence", "FocusedSeq", "LazyStruct"):
        ms = a[0] if k != "FocusedSeq" else a[1]
        s2 = new_scope(sc)
        return sum(size(m[1], s2) for m in ms)
    if k == "AlignedStruct":
        s2 = new_scope(sc)
        return sum(size(["Aligned", a[0], m[1]], s2) for m in a[1])
    if k == "BitStruct":
        return size(["Bitwise", ["Struct", a[0]]], sc)
    if k in ("Array", "LazyArray"):
        c = ev(a[0], sc)
        return c * size(a[1], sc)
    if k == "IfThenElse":
        return size(a[1] if ev(a[0], sc) else a[2], sc)
    if k == "If":
        return size(a[1], sc) if ev(a[0], sc) else 0
    if k == "Switch":
        key = ev(a[0], sc)
        for ck, c in a[1]:
            if (untag(ck) if isinstance(ck, dict) else ck) == key:
                return size(c, sc)
        return size(a[2], sc) if len(a) > 2 and a[2] is not None else 0
    if k == "Prefixed":
        return size(a[0], sc) + size(a[1], sc)
    if k in ("FixedSized", "Padded"):
        n = ev(a[0], sc)
        if n < 0:
            raise ModelGap("negative length")
        return n
    if k == "Aligned":
        m = ev(a[0], sc)
        if m < 2:
            raise ModelGap("modulus")
        s = size(a[1], sc)
        return s + (-s % m)
    if k == "Bitwise":
        s = size(a[0], sc)
        if s % 8:
            raise ModelGap("unaligned bit region")
        return s // 8
    if k == "Bytewise":
        return size(a[0], sc) * 8
    if k in ("ByteSwapped", "BitsSwapped", "ProcessXor", "ProcessRotateLeft"):
        return size(a[-1], sc)
    if k in ("Pointer", "Peek"):
        return 0
    if k == "Checksum":
        return size(a[0], sc)
    raise Unsized(k)


def members_of(r):
    return r[2] if r[0] in ("FocusedSeq", "AlignedStruct") else r[1]


def enc(r, v, sc):
    k = r[0]
    a = r[1:]
    if k == "name":
        n = a[0]
        if n in INTNAMES:
            nb, sg, le = INTNAMES[n]
            if nb != 3 and isinstance(v, bool):
                pass   # struct accepts bools as ints
            return int_enc(v, nb, sg, le)
        if n in FLOATNAMES:
            bits, le = FLOATNAMES[n]
            return float_enc(v, bits, le)
        if n in BITNAMES:
            return bits_enc(v, BITNAMES[n], False, False)
        if n == "VarInt":
            return varint_enc(v)
        if n == "ZigZag":
            if not isinstance(v, int):
                raise Reject("type", "not an integer")
            return varint_enc(2 * v if v >= 0 else -2 * v - 1)
        if n == "Flag":
            return b"\x01" if v else b"\x00"
        if n in ("Pass", "Terminated"):
            return b""
        if n == "GreedyBytes":
            if isinstance(v, bytearray):
                v = bytes(v)
            if not isinstance(v, bytes):
                raise Reject("type", "not bytes")
            return v
        raise ModelGap(n)
    if k == "FormatField":
        le = a[0] == "<" or (a[0] == "=" and sys.byteorder == "little")
        if a[1] in FMT_INT:
            nb, sg = FMT_INT[a[1]]
            return int_enc(v, nb, sg, le)
        if a[1] in FMT_FLOAT:
            return float_enc(v, FMT_FLOAT[a[1]], le)
        if a[1] == "?":
            return b"\x01" if v else b"\x00"
        raise ModelGap(a[1])
    if k == "BytesInteger":
        n = ev(a[0], sc)
        if isinstance(v, bool):
            pass
        return int_enc(v, n, a[1], bool(ev(a[2], sc)))
    if k == "BitsInteger":
        return bits_enc(v, ev(a[0], sc), a[1], bool(ev(a[2], sc)))
    if k == "Bytes":
        n = ev(a[0], sc)
        if isinstance(v, int) and not isinstance(v, bool):
            return int_enc(v, n, False, False)
        if isinstance(v, int):
            return int_enc(int(v), n, False, False)
        if isinstance(v, bytearray):
            v = bytes(v)
        if not isinstance(v, bytes):
            raise Reject("type", "not bytes")
        if len(v) != n:
            raise Reject("length", "%d != %d" % (len(v), n))
        return v
    if k == "PaddedString":
        n = ev(a[0], sc)
        b = str_encode(v, a[1])
        if len(b) > n:
            raise Reject("pad", "too long")
        unit_of(a[1])
        return b + bytes(n - len(b))
    if k == "PascalString":
        b = str_encode(v, a[1])
        return enc(a[0], len(b), sc) + b
    if k == "CString":
        return str_encode(v, a[0]) + bytes(unit_of(a[0]))
    if k == "GreedyString":
        return str_encode(v, a[0])
    if k in ("Enum", "EnumClass", "EnumMixed"):
        labels = enum_labels(r)
        if isinstance(v, int):
            return enc(a[0], int(v), sc)
        if isinstance(v, str) and v in labels:
            return enc(a[0], labels[v], sc)
        raise Reject("label", repr(v))
    if k in ("FlagsEnum", "FlagsEnumClass"):
        labels = enum_labels(r)
        if isinstance(v, int):
            return enc(a[0], int(v), sc)
        if isinstance(v, str):
            acc = 0
            for part in v.split("|"):
                part = part.strip()
                if part:
                    if part not in labels:
                        raise Reject("label", part)
                    acc |= labels[part]
            return enc(a[0], acc, sc)
        if isinstance(v, dict):
            acc = 0
            for name, val in v.items():
                if isinstance(name, str) and name.startswith("_"):
                    continue
                if val:
                    if name not in labels:
                        raise Reject("label", name)
                    acc |= labels[name]
            return enc(a[0], acc, sc)
        raise Reject("label", repr(v))
    if k == "Mapping":
        table = {}
        for key, val in a[1]:
            table[untag(key) if isinstance(key, dict) else key] = val
        try:
            if v in table:
                return enc(a[0], table[v], sc)
        except TypeError:
            pass
        raise Reject("label", repr(v))
    if k == "Const":
        c = untag(a[0]) if isinstance(a[0], (dict, list)) else a[0]
        if v is not None and v != c:
            raise Reject("const", "%r != %r" % (v, c))
        return enc(["Bytes", len(c)], c, sc) if a[1] is None else enc(a[1], c, sc)
    if k in ("Computed", "Check"):
        if k == "Check" and not ev(a[0], sc):
            raise Reject("check")
        return b""
    if k == "Default":
        return enc(a[0], ev(a[1], sc) if v is None else v, sc)
    if k == "Rebuild":
        return enc(a[0], ev(a[1], sc), sc)
    if k == "Padding":
        n = ev(a[0], sc)
        if n < 0:
            raise Reject("pad", "negative")
        pat = untag(a[1]) if len(a) > 1 else b"\x00"
        return pat * n
    if k == "Renamed":
        return enc(a[1], v, sc)
    if k == "Lazy":
        return enc(a[0], v, sc)
    if k in ("Hex", "HexDump"):
        return enc(a[0], v, sc)
    if k in ("OneOf", "NoneOf"):
        vals = [untag(x) if isinstance(x, dict) else x for x in a[1]]
        if (v in vals) != (k == "OneOf"):
            raise Reject("validate")
        return enc(a[0], v, sc)
    if k in ("Struct", "LazyStruct", "BitStruct", "AlignedStruct"):
        if k == "BitStruct":
            return enc(["Bitwise", ["Struct", a[0]]], v, sc)
        ms = members_of(r)
        if k == "AlignedStruct":
            ms = [[m[0], ["Aligned", a[0], m[1]]] for m in ms]
        return enc_struct(ms, v, sc)[0]
    if k == "Sequence":
        return enc_sequence(a[0], v, sc)
    if k == "FocusedSeq":
        s2 = new_scope(sc)
        s2[a[0]] = v
        out = b""
        for name, m in a[1]:
            b, bv = enc_v(m, v if name == a[0] else None, s2)
            out += b
            if name:
                s2[name] = bv
        return out
    if k in ("Array", "LazyArray"):
        c = ev(a[0], sc)
        if c < 0:
            raise Reject("count", "negative")
        try:
            n = len(v)
        except TypeError:
            raise Reject("type", "not a sequence")
        if n != c:
            raise Reject("count", "%d != %d" % (n, c))
        out = b""
        for i, e in enumerate(v):
            sc["_index"] = i
            out += enc(a[1], e, sc)
        return out
    if k == "PrefixedArray":
        try:
            n = len(v)
        except TypeError:
            raise Reject("type", "not a sequence")
        s2 = new_scope(sc)
        out = enc(a[0], n, s2)
        for i, e in enumerate(v):
            s2["_index"] = i
            out += enc(a[1], e, s2)
        return out
    if k == "GreedyRange":
        out = b""
        for i, e in enumerate(v):
            sc["_index"] = i
            out += enc(a[0], e, sc)
        return out
    if k == "RepeatUntil":
        out = b""
        done = []
        for i, e in enumerate(v):
            sc["_index"] = i
            b, bv = enc_v(a[1], e, sc)
            out += b
            done.append(bv)
            if pred(a[0], e, done, sc):
                return out
        raise Reject("repeat", "no element satisfied the predicate")
    if k == "IfThenElse":
        return enc(a[1] if ev(a[0], sc) else a[2], v, sc)
    if k == "If":
        return enc(a[1], v, sc) if ev(a[0], sc) else b""
    if k == "Switch":
        key = ev(a[0], sc)
        for ck, c in a[1]:
            if (untag(ck) if isinstance(ck, dict) else ck) == key:
                return enc(c, v, sc)
        return enc(a[2], v, sc) if len(a) > 2 and a[2] is not None else b""
    if k == "Optional":
        try:
            return enc(a[0], v, top_scope(dict_public(sc)))
        except Reject:
            return b""
    if k == "Select":
        # alternatives in order; each is built on its own and contributes nothing unless it succeeds as a whole
        for alt in a[0]:
            alt = alt[1] if is_named_pair(alt) else alt
            try:
                return enc(alt, v, top_scope(dict_public(sc)))
            except Reject:
                continue
        raise Reject("select", "no alternative builds the value")
    if k == "Prefixed":
        body = enc(a[1], v, sc)
        n = len(body)
        if len(a) > 2 and a[2]:
            n += size_or_gap(a[0], sc)
        return enc(a[0], n, sc) + body
    if k == "FixedSized":
        n = ev(a[0], sc)
        if n < 0:
            raise Reject("pad", "negative")
        body = enc(a[1], v, sc)
        if len(body) > n:
            raise Reject("pad", "too long")
        return body + bytes(n - len(body))
    if k == "NullTerminated":
        term = untag(a[1]) if len(a) > 1 else b"\x00"
        return enc(a[0], v, sc) + term          # building always writes the terminator (also with include=True: documented asymmetry)
    if k == "NullStripped":
        return enc(a[0], v, sc)
    if k == "Padded":
        n = ev(a[0], sc)
        if n < 0:
            raise Reject("pad", "negative")
        body = enc(a[1], v, sc)
        if len(body) > n:
            raise Reject("pad", "too long")
        pat = untag(a[2]) if len(a) > 2 else b"\x00"
        return body + pat * (n - len(body))
    if k == "Aligned":
        m = ev(a[0], sc)
        if m < 2:
            raise Reject("pad", "modulus")
        body = enc(a[1], v, sc)
        pat = untag(a[2]) if len(a) > 2 else b"\x00"
        return body + pat * (-len(body) % m)
    if k == "Bitwise":
        bits = enc(a[0], v, sc)
        if any(b > 1 for b in bits):
            raise ModelGap("non-bit content in bit region")
        if len(bits) % 8:
            if statically_sized(a[0], sc):
                raise ModelGap("unaligned bit region")       # a mis-declared fixed-size region: a construction error, not a data error
            raise Reject("stream", "a streamed bit region must end on a byte boundary")
        out = bytearray()
        for i in range(0, len(bits), 8):
            x = 0
            for b in bits[i:i + 8]:
                x = x * 2 + b
            out.append(x)
        return bytes(out)
    if k == "Bytewise":
        body = enc(a[0], v, sc)
        out = bytearray()
        for x in body:
            for j in range(7, -1, -1):
                out.append((x >> j) & 1)
        return bytes(out)
    if k == "ByteSwapped":
        return bytes(reversed(enc(a[0], v, sc)))
    if k == "BitsSwapped":
        return bytes(REV8[x] for x in enc(a[0], v, sc))
    if k == "ProcessXor":
        key = ev(a[0], sc)
        if isinstance(key, int):
            key = bytes([key])
        body = enc(a[1], v, sc)
        return bytes(b ^ key[i % len(key)] for i, b in enumerate(body))
    if k == "ProcessRotateLeft":
        return rotl(enc(a[2], v, sc), -ev(a[0], sc), ev(a[1], sc))
    if k == "OffsettedEnd":
        return enc(a[1], v, sc)
    if k == "Compressed":
        import zlib, bz2
        if a[1] not in ("zlib", "bzip2"):
            raise ModelGap("codec " + a[1])
        # the inner construct is built as a format of its own; the entries of the enclosing scope are handed over as keyword context
        body = enc(a[0], v, top_scope(dict_public(sc)))
        return (zlib.compress(body) if len(a) < 3 or a[2] is None else zlib.compress(body, a[2])) if a[1] == "zlib" else (bz2.compress(body) if len(a) < 3 or a[2] is None else bz2.compress(body, a[2]))
    raise ModelGap(k)


REV8 = [int("{:08b}".format(i)[::-1], 2) for i in range(256)]


def rotl(data, amount, group):
    """every group of `group` bytes, read as one big-endian integer, rotated left by `amount` bits (any sign, any magnitude)"""
    if not isinstance(group, int) or group < 1 or len(data) % group:
        raise Reject("rotation", "group %r does not divide %d bytes" % (group, len(data)))
    bits = 8 * group
    s = amount % bits
    out = bytearray()
    for i in range(0, len(data), group):
        x = int.from_bytes(data[i:i + group], "big")
        x = ((x << s) | (x >> (bits - s))) & ((1 << bits) - 1)
        out += x.to_bytes(group, "big")
    return bytes(out)


def statically_sized(r, sc):
    try:
        size(r, top_scope({}))
        return True
    except (Unsized, MissingKey, ModelGap, Reject, KeyError, TypeError):
        return False


def dict_public(sc):
    return {k: v for k, v in sc.items() if not (isinstance(k, str) and k.startswith("_"))}


def size_or_gap(r, sc):
    try:
        return size(r, sc)
    except (Unsized, MissingKey):
        raise Reject("sizeof", "length field has no size")


def pred(e, obj, lst, sc):
    if isinstance(e, list):
        try:
            return evalexpr(e, obj if not isinstance(obj, dict) else obj, obj, lst) if False else _pred_eval(e, obj, lst, sc)
        except (KeyError, TypeError) as x:
            raise MissingKey(str(x))
    return e


def _pred_eval(e, obj, lst, sc):
    # predicate expressions are rooted at obj_ / list_ (see recipes: ["obj"], ["list", i]); 'this' is not mixed in
    return evalexpr(e, sc, obj, lst)


def enc_v(r, v, sc):
    """encode and also return the value the member contributes to the scope (what build returns)"""
    b = enc(r, v, sc)
    return b, built_value(r, v, sc, b)


def built_value(r, v, sc, b):
    k = r[0]
    if k == "Renamed":
        return built_value(r[2], v, sc, b)
    if k == "Const":
        return untag(r[1]) if isinstance(r[1], (dict, list)) else r[1]
    if k == "Computed":
        return ev(r[1], sc)
    if k == "Rebuild":
        return ev(r[2], sc)
    if k == "Default":
        return ev(r[2], sc) if v is None else v
    if k in ("Check",):
        return None
    if k == "Struct":
        return enc_struct(r[1], v, sc)[1]
    return v


def enc_struct(ms, v, sc):
    if v is None:
        v = {}
    if not isinstance(v, dict):
        raise Reject("type", "Struct needs a dict")
    s2 = new_scope(sc)
    for kk, vv in v.items():
        s2[kk] = vv
    out = b""
    for name, m in ms:
        if is_buildnone(m):
            sub = v.get(name, None) if name else None
        else:
            if name not in v:
                raise Reject("missing", "no value for member %r" % (name,))
            sub = v[name]
        if name:
            s2[name] = sub
        b, bv = enc_v(m, sub, s2)
        out += b
        if name:
            s2[name] = bv
    return out, s2


def enc_sequence(ms, v, sc):
    if v is None:
        v = [None] * len(ms)
    s2 = new_scope(sc)
    try:
        it = list(v)
    except TypeError:
        raise Reject("type", "Sequence needs a list")
    if len(it) < len(ms):
        raise Reject("count", "too few elements")
    out = b""
    for (name, m), sub in zip(ms, it):
        if name:
            s2[name] = sub
        b, bv = enc_v(m, sub, s2)
        out += b
        if name:
            s2[name] = bv
    return out


def enum_labels(r):
    labels = {}
    pairs = [(n, v) for n, v in r[2]]
    if r[0] == "EnumClass":
        import enum
        pairs = [(e.name, int(e.value)) for e in enum.IntEnum("E", pairs)]
    if r[0] == "EnumMixed":              # labels from an enum class, then keyword labels
        import enum
        pairs = [(e.name, int(e.value)) for e in enum.IntEnum("E", pairs)] + [(n, v) for n, v in r[3]]
    if r[0] == "FlagsEnumClass":
        import enum
        pairs = [(e.name, int(e.value)) for e in enum.IntFlag("E", pairs)]
    for n, v in pairs:
        labels[n] = v
    return labels


def bits_enc(v, w, signed, swapped):
    if not isinstance(v, int):
        raise Reject("type", "not an integer")
    if w <= 0:
        raise Reject("range", "width")
    lo, hi = (-(1 << (w - 1)), (1 << (w - 1)) - 1) if signed else (0, (1 << w) - 1)
    if not lo <= v <= hi:
        raise Reject("range")
    u = v % (1 << w)
    bits = [(u >> (w - 1 - i)) & 1 for i in range(w)]
    if swapped:
        if w % 8:
            raise Reject("range", "swapped needs a multiple of 8")
        groups = [bits[i:i + 8] for i in range(0, w, 8)]
        bits = [b for g in reversed(groups) for b in g]
    return bytes(bits)


def bits_dec(bits, signed, swapped):
    w = len(bits)
    if w == 0:
        raise Reject("range", "width")
    bits = list(bits)
    if swapped:
        if w % 8:
            raise Reject("range", "swapped needs a multiple of 8")
        groups = [bits[i:i + 8] for i in range(0, w, 8)]
        bits = [b for g in reversed(groups) for b in g]
    u = 0
    for b in bits:
        u = u * 2 + (1 if b else 0)
    if signed and bits[0]:
        u -= 1 << w
    return u


def dec(r, buf, pos, end, sc):
    k = r[0]
    a = r[1:]
    if k == "name":
        n = a[0]
        if n in INTNAMES:
            nb, sg, le = INTNAMES[n]
            b, pos = take(buf, pos, end, nb)
            return int_dec(b, sg, le), pos
        if n in FLOATNAMES:
            bits, le = FLOATNAMES[n]
            b, pos = take(buf, pos, end, bits // 8)
            return float_dec(b, bits, le), pos
        if n in BITNAMES:
            b, pos = take(buf, pos, end, BITNAMES[n])
            return bits_dec(b, False, False), pos
        if n == "VarInt":
            return varint_dec(buf, pos, end)
        if n == "ZigZag":
            u, pos = varint_dec(buf, pos, end)
            return (u // 2 if u % 2 == 0 else -(u + 1) // 2), pos
        if n == "Flag":
            b, pos = take(buf, pos, end, 1)
            return b != b"\x00", pos
        if n == "Pass":
            return None, pos
        if n == "Terminated":
            if pos < end:
                raise Reject("terminated")
            return None, pos
        if n == "GreedyBytes":
            return bytes(buf[pos:end]), end
        raise ModelGap(n)
    if k == "FormatField":
        le = a[0] == "<" or (a[0] == "=" and sys.byteorder == "little")
        if a[1] in FMT_INT:
            nb, sg = FMT_INT[a[1]]
            b, pos = take(buf, pos, end, nb)
            return int_dec(b, sg, le), pos
        if a[1] in FMT_FLOAT:
            b, pos = take(buf, pos, end, FMT_FLOAT[a[1]] // 8)
            return float_dec(b, FMT_FLOAT[a[1]], le), pos
        if a[1] == "?":
            b, pos = take(buf, pos, end, 1)
            return b != b"\x00", pos
        raise ModelGap(a[1])
    if k == "BytesInteger":
        n = ev(a[0], sc)
        if n <= 0:
            raise Reject("range", "width")
        b, pos = take(buf, pos, end, n)
        return int_dec(b, a[1], bool(ev(a[2], sc))), pos
    if k == "BitsInteger":
        n = ev(a[0], sc)
        if n <= 0:
            raise Reject("range", "width")
        b, pos = take(buf, pos, end, n)
        return bits_dec(b, a[1], bool(ev(a[2], sc))), pos
    if k == "Bytes":
        return take(buf, pos, end, ev(a[0], sc))
    if k == "PaddedString":
        n = ev(a[0], sc)
        b, pos = take(buf, pos, end, n)
        return str_decode(strip_units(b, bytes(unit_of(a[1]))), a[1]), pos
    if k == "PascalString":
        n, pos = dec(a[0], buf, pos, end, sc)
        b, pos = take(buf, pos, end, n)
        return str_decode(b, a[1]), pos
    if k == "CString":
        u = unit_of(a[0])
        data = b""
        while True:
            b, pos = take(buf, pos, end, u)
            if b == bytes(u):
                return str_decode(data, a[0]), pos
            data += b
    if k == "GreedyString":
        return str_decode(buf[pos:end], a[0]), end
    if k in ("Enum", "EnumClass", "EnumMixed"):
        iv, pos = dec(a[0], buf, pos, end, sc)
        rev = {}
        for n, v in enum_labels(r).items():
            rev[v] = n
        return rev.get(iv, iv), pos
    if k in ("FlagsEnum", "FlagsEnumClass"):
        iv, pos = dec(a[0], buf, pos, end, sc)
        return {n: (iv & v == v) for n, v in enum_labels(r).items()}, pos
    if k == "Mapping":
        iv, pos = dec(a[0], buf, pos, end, sc)
        found = None
        hit = False
        for key, val in a[1]:
            if val == iv:
                found, hit = (untag(key) if isinstance(key, dict) else key), True
        if not hit:
            raise Reject("label", repr(iv))
        return found, pos
    if k == "Const":
        c = untag(a[0]) if isinstance(a[0], (dict, list)) else a[0]
        v, pos = dec(["Bytes", len(c)], buf, pos, end, sc) if a[1] is None else dec(a[1], buf, pos, end, sc)
        if v != c:
            raise Reject("const")
        return v, pos
    if k == "Computed":
        return ev(a[0], sc), pos
    if k == "Check":
        if not ev(a[0], sc):
            raise Reject("check")
        return None, pos
    if k in ("Default", "Rebuild", "Hex", "HexDump"):
        return dec(a[0], buf, pos, end, sc)
    if k == "Padding":
        n = ev(a[0], sc)
        if n < 0:
            raise Reject("pad", "negative")
        _, pos = take(buf, pos, end, n)
        return None, pos
    if k == "Renamed":
        return dec(a[1], buf, pos, end, sc)
    if k == "Lazy":
        return dec(a[0], buf, pos, end, sc)
    if k in ("OneOf", "NoneOf"):
        v, pos = dec(a[0], buf, pos, end, sc)
        vals = [untag(x) if isinstance(x, dict) else x for x in a[1]]
        if (v in vals) != (k == "OneOf"):
            raise Reject("validate")
        return v, pos
    if k in ("Struct", "LazyStruct", "AlignedStruct", "BitStruct"):
        if k == "BitStruct":
            return dec(["Bitwise", ["Struct", a[0]]], buf, pos, end, sc)
        ms = members_of(r)
        if k == "AlignedStruct":
            ms = [[m[0], ["Aligned", a[0], m[1]]] for m in ms]
        s2 = new_scope(sc)
        out = {}
        for name, m in ms:
            v, pos = dec(m, buf, pos, end, s2)
            if name:
                out[name] = v
                s2[name] = v if not isinstance(v, dict) or m[0] not in ("Struct",) else v
        return out, pos
    if k == "Sequence":
        s2 = new_scope(sc)
        out = []
        for name, m in a[0]:
            v, pos = dec(m, buf, pos, end, s2)
            out.append(v)
            if name:
                s2[name] = v
        return out, pos
    if k == "FocusedSeq":
        s2 = new_scope(sc)
        res = None
        for name, m in a[1]:
            v, pos = dec(m, buf, pos, end, s2)
            if name:
                s2[name] = v
            if name == a[0]:
                res = v
        return res, pos
    if k in ("Array", "LazyArray"):
        c = ev(a[0], sc)
        if c < 0:
            raise Reject("count", "negative")
        out = []
        for i in range(c):
            sc["_index"] = i
            v, pos = dec(a[1], buf, pos, end, sc)
            out.append(v)
        return out, pos
    if k == "PrefixedArray":
        s2 = new_scope(sc)
        c, pos = dec(a[0], buf, pos, end, s2)
        if c < 0:
            raise Reject("count", "negative")
        out = []
        for i in range(c):
            s2["_index"] = i
            v, pos = dec(a[1], buf, pos, end, s2)
            out.append(v)
        return out, pos
    if k == "GreedyRange":
        out = []
        i = 0
        while True:
            sc["_index"] = i
            try:
                v, p2 = dec(a[0], buf, pos, end, sc)
            except Reject:
                return out, pos
            if p2 == pos:
                raise ModelGap("zero-width repeat element")
            out.append(v)
            pos = p2
            i += 1
    if k == "RepeatUntil":
        out = []
        i = 0
        while True:
            sc["_index"] = i
            v, p2 = dec(a[1], buf, pos, end, sc)
            out.append(v)
            if pred(a[0], v, out, sc):
                return out, p2
            if p2 == pos:
                raise ModelGap("zero-width repeat element")
            pos = p2
            i += 1
    if k == "IfThenElse":
        return dec(a[1] if ev(a[0], sc) else a[2], buf, pos, end, sc)
    if k == "If":
        return dec(a[1], buf, pos, end, sc) if ev(a[0], sc) else (None, pos)
    if k == "Switch":
        key = ev(a[0], sc)
        for ck, c in a[1]:
            if (untag(ck) if isinstance(ck, dict) else ck) == key:
                return dec(c, buf, pos, end, sc)
        return dec(a[2], buf, pos, end, sc) if len(a) > 2 and a[2] is not None else (None, pos)
    if k == "Optional":
        try:
            return dec(a[0], buf, pos, end, sc)
        except Reject:
            return None, pos
    if k == "Select":
        for alt in a[0]:
            alt = alt[1] if is_named_pair(alt) else alt
            try:
                return dec(alt, buf, pos, end, sc)
            except Reject:
                continue
        raise Reject("select", "no alternative parses")
    if k == "Prefixed":
        n, pos = dec(a[0], buf, pos, end, sc)
        if len(a) > 2 and a[2]:
            n -= size_or_gap(a[0], sc)
        region, rend = take(buf, pos, end, n)
        v, _ = dec(a[1], buf, pos, rend, sc)
        return v, rend
    if k == "FixedSized":
        n = ev(a[0], sc)
        if n < 0:
            raise Reject("pad", "negative")
        _, rend = take(buf, pos, end, n)
        v, _ = dec(a[1], buf, pos, rend, sc)
        return v, rend
    if k == "NullTerminated":
        term = untag(a[1]) if len(a) > 1 else b"\x00"
        include, consume, require = (a[2], a[3], a[4]) if len(a) > 1 else (False, True, True)
        u = len(term)
        data = b""
        p = pos
        while True:
            if p + u > end:
                if require:
                    raise Reject("short", "terminator missing")
                if p < end:
                    raise ModelGap("partial unit")
                p = end
                break
            unit = bytes(buf[p:p + u])
            p += u
            if unit == term:
                if include:
                    data += unit
                if not consume:
                    p -= u
                break
            data += unit
        v, _ = dec(a[0], data, 0, len(data), sc)
        return v, p
    if k == "NullStripped":
        pad = untag(a[1]) if len(a) > 1 else b"\x00"
        data = strip_units(bytes(buf[pos:end]), pad)
        v, _ = dec(a[0], data, 0, len(data), sc)
        return v, end
    if k == "Padded":
        n = ev(a[0], sc)
        if n < 0:
            raise Reject("pad", "negative")
        v, p2 = dec(a[1], buf, pos, end, sc)
        if p2 - pos > n:
            raise Reject("pad", "inner consumed more than the length")
        _, p3 = take(buf, p2, end, n - (p2 - pos))
        return v, p3
    if k == "Aligned":
        m = ev(a[0], sc)
        if m < 2:
            raise Reject("pad", "modulus")
        v, p2 = dec(a[1], buf, pos, end, sc)
        _, p3 = take(buf, p2, end, -(p2 - pos) % m)
        return v, p3
    if k == "Bitwise":
        bits = bytearray()
        for x in buf[pos:end]:
            for j in range(7, -1, -1):
                bits.append((x >> j) & 1)
        v, used = dec(a[0], bytes(bits), 0, len(bits), sc)
        if statically_sized(a[0], sc):
            if used % 8:
                raise ModelGap("unaligned bit region")
            return v, pos + used // 8
        # streamed region: bytes are pulled in on demand and every bit pulled in must be consumed.  A construct that probes
        # ahead (a repeater looking for one more element, an optional part, a read-to-end field) pulls in everything that is left.
        probes = any(x in repr(a[0]) for x in ("GreedyRange", "Optional", "Select", "GreedyBytes", "GreedyString"))
        if (probes and used != len(bits)) or used % 8:
            raise Reject("stream", "unread bits remain in a streamed bit region")
        return v, pos + used // 8
    if k == "Bytewise":
        # inner consumes bytes re-assembled from the bit stream: decode greedily what is available
        avail = (end - pos) // 8
        data = bytearray()
        for i in range(avail):
            x = 0
            for b in buf[pos + 8 * i: pos + 8 * i + 8]:
                x = x * 2 + b
            data.append(x)
        v, used = dec(a[0], bytes(data), 0, len(data), sc)
        return v, pos + 8 * used
    if k == "ByteSwapped":
        n = size(a[0], sc)
        b, p2 = take(buf, pos, end, n)
        v, _ = dec(a[0], bytes(reversed(b)), 0, n, sc)
        return v, p2
    if k == "BitsSwapped":
        # every byte the inner construct reads has its bit order reversed; a statically sized inner construct gets exactly its
        # bytes, any other one reads through a byte-by-byte translating stream and consumes what it reads
        if statically_sized(a[0], sc):
            n = size(a[0], top_scope({}))
            b, p2 = take(buf, pos, end, n)
            v, _ = dec(a[0], bytes(REV8[x] for x in b), 0, n, sc)
            return v, p2
        data = bytes(REV8[x] for x in buf[pos:end])
        v, used = dec(a[0], data, 0, len(data), sc)
        return v, pos + used
    if k == "ProcessXor":
        key = ev(a[0], sc)
        if isinstance(key, int):
            key = bytes([key])
        data = bytes(b ^ key[i % len(key)] for i, b in enumerate(buf[pos:end]))
        v, _ = dec(a[1], data, 0, len(data), sc)
        return v, end
    if k == "ProcessRotateLeft":
        data = rotl(buf[pos:end], ev(a[0], sc), ev(a[1], sc))
        v, _ = dec(a[2], data, 0, len(data), sc)
        return v, end
    if k == "OffsettedEnd":
        # the inner construct is confined to everything up to (end of the enclosing region + the negative offset); the stream then
        # stands at that point whatever the inner construct consumed
        off = ev(a[0], sc)
        lim = end + off
        if off > 0 or lim < pos:
            raise Reject("short", "end offset before the current position")
        v, _ = dec(a[1], buf, pos, lim, sc)
        return v, lim
    if k == "Compressed":
        import zlib, bz2
        if a[1] not in ("zlib", "bzip2"):
            raise ModelGap("codec " + a[1])
        try:
            body = (zlib if a[1] == "zlib" else bz2).decompress(bytes(buf[pos:end]))
        except Exception:
            raise Reject("codec", "not a %s stream" % a[1])
        v, _ = dec(a[0], body, 0, len(body), top_scope(dict_public(sc)))
        return v, end
    raise ModelGap(k)


# ----------------------------------------------------------------------------- self-test on vectors that do not come from this repository
def selftest():
    # protobuf documentation: 150 -> 96 01 ; 300 -> ac 02 ; zigzag: 0->0, -1->1, 1->2, -2->3, 2147483647->4294967294
    assert varint_enc(150) == b"\x96\x01" and varint_enc(300) == b"\xac\x02" and varint_enc(0) == b"\x00" and varint_enc(127) == b"\x7f" and varint_enc(128) == b"\x80\x01"
    assert varint_dec(b"\xac\x02", 0, 2) == (300, 2)
    zz = lambda v: enc(["name", "ZigZag"], v, top_scope({}))
    assert zz(0) == b"\x00" and zz(-1) == b"\x01" and zz(1) == b"\x02" and zz(-2) == b"\x03" and zz(2147483647) == varint_enc(4294967294) and zz(-2147483648) == varint_enc(4294967295)
    assert dec(["name", "ZigZag"], b"\x03", 0, 1, {})[0] == -2
    # two's complement
    assert int_enc(-1, 2, True, False) == b"\xff\xff" and int_enc(-32768, 2, True, True) == b"\x00\x80" and int_enc(258, 3, False, True) == b"\x02\x01\x00"
    assert int_dec(b"\x80\x00", True, False) == -32768 and int_dec(b"\xff\x7f", True, True) == 32767
    # IEEE-754 constants (Wikipedia half/single/double precision examples)
    h = lambda u: float_dec_bits(u, 16)
    assert h(0x3c00) == 1.0 and h(0xc000) == -2.0 and h(0x7bff) == 65504.0 and h(0x0001) == 2.0 ** -24 and h(0x0400) == 2.0 ** -14 and h(0x3555) == 0.333251953125
    assert h(0x7c00) == float("inf") and h(0xfc00) == float("-inf") and h(0x7e00) != h(0x7e00) and str(h(0x8000)) == "-0.0"
    assert float_dec_bits(0x3f800000, 32) == 1.0 and float_dec_bits(0x3eaaaaab, 32) == 0.3333333432674407958984375 and float_dec_bits(0x7f7fffff, 32) == 3.4028234663852886e38
    assert float_dec_bits(0x3ff0000000000001, 64) == 1.0000000000000002 and float_dec_bits(0x7fefffffffffffff, 64) == 1.7976931348623157e308 and float_dec_bits(1, 64) == 5e-324
    assert float_enc_bits(1.0, 16) == 0x3c00 and float_enc_bits(65504.0, 16) == 0x7bff and float_enc_bits(0.1, 32) == 0x3dcccccd and float_enc_bits(1.0000000000000002, 64) == 0x3ff0000000000001
    # round half to even at binary16: 2049 -> 2048, 2051 -> 2052 ; 65519.99 rounds to 65504, 65520 overflows
    assert float_enc_bits(2049.0, 16) == float_enc_bits(2048.0, 16) and float_enc_bits(2051.0, 16) == float_enc_bits(2052.0, 16)
    assert float_enc_bits(65519.0, 16) == 0x7bff
    try:
        float_enc_bits(65520.0, 16)
        raise AssertionError("binary16 overflow not rejected")
    except Reject:
        pass
    assert float_enc_bits(2.0 ** -25, 16) == 0 and float_enc_bits(2.0 ** -24, 16) == 1 and float_enc_bits(1.5 * 2.0 ** -24, 16) == 2
    import struct as _s
    for v in (0.0, -0.0, 1.0, -1.5, 3.14159, 1e-40, 1e38, 6.1e-5, 5.96e-8, 1e-300, float("inf")):
        assert float_enc(v, 64, False) == _s.pack(">d", v)
    # UTF-16/32: the generic codecs emit a BOM, the explicit-endian ones do not
    assert str_encode("a", "utf_16_le") == b"a\x00" and str_encode("a", "utf_32_be") == b"\x00\x00\x00a" and str_encode("a", "utf16")[:2] in (b"\xff\xfe", b"\xfe\xff")
    # bit packing
    r = ["Bitwise", ["Struct", [["a", ["BitsInteger", 3, False, False]], ["b", ["BitsInteger", 13, True, False]]]]]
    assert enc(r, {"a": 5, "b": -1}, top_scope({})) == bytes([0b10111111, 0xff])
    assert dec(r, bytes([0b10111111, 0xff]), 0, 2, top_scope({}))[0] == {"a": 5, "b": -1}
    # rotation: 0x81 rotl 1 = 0x03 ; bytes a b c as one 24-bit number rotated by 8 = b c a ; by -8 = c a b ; amount taken modulo the width
    assert rotl(b"\x81", 1, 1) == b"\x03" and rotl(b"abc", 8, 3) == b"bca" and rotl(b"abc", -8, 3) == b"cab" and rotl(b"abcxyz", 32, 3) == b"bcayzx" and rotl(b"\x80\x01", 1, 2) == b"\x00\x03"
    return True
