"""rv: runtime-verification harness for construct/construct (see /verif/DESIGN.md)."""
