"""setup_cmd: sanity of the harness itself (import of the library from $VERIF_REPO, monitors, reference-model vectors,
KSY interpreter on a hand-written schema, fault delivery of the traced stream)."""
import sys


def main():
    from .common import import_construct
    c = import_construct()
    from . import monitors, streams, veq, refmodel, ksy_interp
    # traced stream + faults
    s = streams.TracedStream(b"abcdef")
    assert s.read(2) == b"ab" and s.tell() == 2 and s.seek(1) == 1 and s.read() == b"bcdef"
    s = streams.TracedStream(b"abcdef", fault=("short", "read", 1))
    assert s.read(2) == b"ab" and s.read(3) == b"cd" and s.fault_delivered
    s = streams.TracedStream(b"abcdef", fault=("raisev", "tell", 0))
    try:
        s.tell()
        raise AssertionError("fault not delivered")
    except ValueError:
        pass
    s = streams.TracedStream(b"", budget=3)
    try:
        for _ in range(5):
            s.read(0)
        raise AssertionError("budget not enforced")
    except streams.BudgetExceeded:
        pass
    # reference model
    refmodel.selftest()
    # KSY interpreter on a schema written by hand from the Kaitai user guide (not produced by the exporter)
    schema = {"seq": [{"id": "magic", "contents": [0x4d, 0x5a]}, {"id": "n", "type": "u2le"}, {"id": "flags", "type": "hdr"},
                      {"id": "name", "type": "strz", "encoding": "ascii"}, {"id": "items", "type": "s2be", "repeat": "expr", "repeat-expr": "n"},
                      {"id": "opt", "type": "u1", "if": "n > 5"}, {"id": "blob", "size": 3}, {"id": "rest", "size-eos": True, "type": "str", "encoding": "ascii", "pad-right": 0x20}],
              "types": {"hdr": {"seq": [{"id": "a", "type": "b1"}, {"id": "b", "type": "b3"}, {"id": "c", "type": "b12"}]}}}
    data = b"MZ" + b"\x02\x00" + bytes([0b10110000, 0b00000101]) + b"hi\x00" + b"\xff\xfe\x00\x07" + b"abc" + b"tail  "
    t = ksy_interp.interpret(schema, data)
    v = t["value"]
    assert v["n"] == 2 and v["flags"] == {"a": True, "b": 3, "c": 5} and v["name"] == "hi" and v["items"] == [-2, 7] and v["opt"] is None and v["blob"] == b"abc" and v["rest"] == "tail", v
    ext = {k["id"]: (k["start"], k["end"]) for k in t["kids"]}
    assert ext["flags"] == (4, 6) and ext["name"] == (6, 9) and ext["items"] == (9, 13) and ext["blob"] == (13, 16) and ext["rest"] == (16, 22), ext
    print("refmodel / ksy_interp / streams selftest ok")
    print("rv selftest ok: construct %s from %s" % (c.__version__, c.__file__))
    return 0
