"""setup_cmd: sanity of the harness itself (import of the library from $VERIF_REPO, monitors, reference-model vectors)."""
import sys


def main():
    from .common import import_construct
    c = import_construct()
    from . import monitors, streams, veq
    s = streams.TracedStream(b"abc")
    assert s.read(2) == b"ab" and s.tell() == 2
    try:
        from . import refmodel
        refmodel.selftest()
        print("refmodel selftest ok")
    except ImportError:
        pass
    print("rv selftest ok: construct %s from %s" % (c.__version__, c.__file__))
    return 0
