"""A small Kaitai Struct (KSY) interpreter for exactly the keys construct's exporter emits.

    interpret(schema: dict, data: bytes) -> Node      (Node = dict(id, start, end, value, kids))

Semantics follow the Kaitai Struct user guide: `seq` attributes in order; `type` u/s/f N le/be, bN (bit fields packed
MSB-first, re-aligned to a byte at the next non-bit attribute), str/strz with encoding, user types (`types`), `enum`;
`size`, `size-eos`, `terminator/include/consume/eos-error`, `pad-right`, `contents`, `repeat: expr|eos|until`, `if`,
`instances` with `pos`.  Two documented leniencies keep it from flagging dialect rather than layout (DESIGN C19):
expression strings are Python-spelled and evaluated over lexically chained scopes (this['n'], n, lengthfield all
resolve), and an endianness suffix on one-byte integers is accepted.  A seq attribute whose type names an entry of
`instances` is resolved through it (zero width in the sequence).
"""
import re, struct


class KsyError(Exception):
    """the schema cannot be interpreted (missing/invalid type information)"""


class KsyEOF(Exception):
    pass


class KsyMismatch(Exception):
    """contents do not match"""


class Scope(dict):
    def __init__(self, parent=None):
        dict.__init__(self)
        self.parent = parent

    def lookup(self, k):
        s = self
        while s is not None:
            if dict.__contains__(s, k):
                return dict.__getitem__(s, k)
            s = s.parent
        raise KeyError(k)

    def __getitem__(self, k):
        if k == "_":
            return self.parent if self.parent is not None else self
        if k in ("_root",):
            s = self
            while s.parent is not None:
                s = s.parent
            return s
        return self.lookup(k)


class Env(dict):
    """globals for eval: unknown names resolve through the scope chain"""

    def __init__(self, scope, cur):
        dict.__init__(self)
        self.scope = scope
        self["this"] = scope
        self["_"] = cur
        self["__builtins__"] = {}
        self["len_"] = len
        self["True"], self["False"] = True, False

    def __missing__(self, k):
        return self.scope.lookup(k)


class Stream:
    def __init__(self, data, base=0):
        self.data = data
        self.pos = 0
        self.base = base          # absolute offset of data[0] in the outermost stream
        self.bits_left = 0
        self.bits = 0

    def align(self):
        self.bits_left = 0

    def read(self, n):
        self.align()
        if n < 0 or self.pos + n > len(self.data):
            raise KsyEOF("need %d bytes at %d of %d" % (n, self.pos, len(self.data)))
        b = self.data[self.pos:self.pos + n]
        self.pos += n
        return b

    def read_bits(self, n):
        v = 0
        for _ in range(n):
            if self.bits_left == 0:
                if self.pos >= len(self.data):
                    raise KsyEOF("bits")
                self.bits = self.data[self.pos]
                self.pos += 1
                self.bits_left = 8
            self.bits_left -= 1
            v = (v << 1) | ((self.bits >> self.bits_left) & 1)
        return v

    def bitpos(self):
        return (self.base + self.pos) * 8 - self.bits_left

    def eof(self):
        return self.pos >= len(self.data) and self.bits_left == 0


PRIM = re.compile(r"^(u|s|f)(\d+)(le|be)?$")
BITS = re.compile(r"^b(\d+)$")


class Interp:
    def __init__(self, schema, data):
        self.schema = schema
        self.types = schema.get("types", {}) or {}
        self.enums = schema.get("enums", {}) or {}
        self.instances = schema.get("instances", {}) or {}
        self.root_data = data
        self.path = []

    def evalx(self, e, scope, cur=None):
        if isinstance(e, (int, bool)):
            return e
        if not isinstance(e, str):
            raise KsyError("expression %r" % (e,))
        try:
            return eval(e, Env(scope, cur))
        except KsyError:
            raise
        except Exception as x:
            raise KsyError("expression %r: %s: %s" % (e, type(x).__name__, x))

    def run(self):
        st = Stream(self.root_data)
        self.root_stream = st
        scope = Scope(None)
        kids = self.seq(self.schema.get("seq", []), st, scope)
        return {"id": None, "start": 0, "end": st.base + st.pos, "value": scope_value(kids), "kids": kids, "bitstart": 0, "bitend": st.bitpos()}

    def seq(self, attrs, st, scope):
        kids = []
        for a in attrs:
            node = self.attr(a, st, scope)
            kids.append(node)
            if a.get("id") is not None:
                dict.__setitem__(scope, a["id"], node["value"])
        return kids

    def attr(self, a, st, scope):
        self.path.append(a.get("id"))
        try:
            return self._attr(a, st, scope)
        except (KsyError, KsyEOF, KsyMismatch) as e:
            if not hasattr(e, "at"):
                e.at = tuple(self.path)
                e.attr = {k: v for k, v in a.items() if k not in ("doc",)}
            raise
        finally:
            self.path.pop()

    def _attr(self, a, st, scope):
        aid = a.get("id")
        if "if" in a and not self.evalx(a["if"], scope):
            bp = st.bitpos()
            return {"id": aid, "start": st.base + st.pos, "end": st.base + st.pos, "value": None, "kids": [], "skipped": True, "bitstart": bp, "bitend": bp}
        rep = a.get("repeat")
        if rep is None:
            return self.one(a, st, scope)
        b0 = st.bitpos()
        start = st.base + st.pos
        items = []
        if rep == "expr":
            n = self.evalx(a["repeat-expr"], scope)
            if not isinstance(n, int) or n < 0:
                raise KsyError("repeat-expr %r" % (n,))
            for i in range(n):
                items.append(self.one(a, st, scope))
        elif rep == "eos":
            while not st.eof():
                items.append(self.one(a, st, scope))
        elif rep == "until":
            while True:
                it = self.one(a, st, scope)
                items.append(it)
                if self.evalx(a["repeat-until"], scope, it["value"]):
                    break
        else:
            raise KsyError("repeat %r" % rep)
        return {"id": aid, "start": start, "end": st.base + st.pos, "value": [i["value"] for i in items], "kids": items, "bitstart": b0, "bitend": st.bitpos()}

    def one(self, a, st, scope):
        aid = a.get("id")
        t = a.get("type")
        if isinstance(t, str) and BITS.match(t) and "size" not in a:
            b0 = st.bitpos()
            n = int(BITS.match(t).group(1))
            v = st.read_bits(n)
            if n == 1:
                v = bool(v)
            return {"id": aid, "start": b0 // 8, "end": (st.bitpos() + 7) // 8, "value": v, "kids": [], "bitstart": b0, "bitend": st.bitpos()}
        st.align()
        b0 = st.bitpos()
        start = st.base + st.pos
        if isinstance(t, str) and t in self.instances:
            inst = self.instances[t]
            pos = self.evalx(inst["pos"], scope)
            sub = Stream(self.root_data)
            if pos < 0:
                pos += len(self.root_data)
            sub.pos = pos
            a2 = {k: v for k, v in inst.items() if k != "pos"}
            node = self.one(a2, sub, scope)
            return {"id": aid, "start": start, "end": start, "value": node["value"], "kids": [], "instance_at": pos, "bitstart": b0, "bitend": b0}
        if "contents" in a:
            want = bytes(a["contents"])
            got = st.read(len(want))
            if got != want:
                raise KsyMismatch("contents")
            return self.node(aid, start, st, got, [], b0)
        # ---- delimit the region
        region = None
        if "size" in a:
            n = self.evalx(a["size"], scope)
            if isinstance(n, str):
                try:
                    n = int(n)
                except ValueError:
                    raise KsyError("size %r" % (n,))
            if not isinstance(n, int) or isinstance(n, bool):
                raise KsyError("size %r" % (n,))
            region = st.read(n)
        elif a.get("size-eos"):
            region = st.read(len(st.data) - st.pos)
        if "terminator" in a and t != "strz":
            region = self.terminated(a, st, region, a["terminator"], a.get("include", False), a.get("consume", True), a.get("eos-error", True))
        if region is not None and "pad-right" in a:
            region = region.rstrip(bytes([a["pad-right"]]))
        # ---- interpret
        if t is None:
            if region is None:
                raise KsyError("attribute %r has neither type nor size" % (aid,))
            return self.node(aid, start, st, region, [], b0)
        if t in ("str", "strz"):
            enc = a.get("encoding", "ascii")
            if t == "strz":
                if region is not None:
                    z = region.find(b"\x00")          # strz inside a sized region: up to the first zero byte
                    raw = region if z < 0 else region[:z]
                else:
                    raw = self.terminated(a, st, None, 0, False, True, True)
            else:
                if region is None:
                    raise KsyError("str without size")
                raw = region
            try:
                v = raw.decode(enc)
            except Exception:
                raise KsyMismatch("undecodable string")
            return self.node(aid, start, st, v, [], b0)
        sub = st if region is None else Stream(region, start)
        if t in self.enums:
            raise KsyError("attribute %r: type %r names an enum - the underlying integer type is not given" % (aid, t))
        if t in self.types:
            if len(self.path) > 60:
                raise KsyError("user type %r is nested more than 60 levels deep (self-referential type?)" % (t,))
            sc2 = Scope(scope)
            kids = self.seq(self.types[t].get("seq", []), sub, sc2)
            sub.align()
            return self.node(aid, start, st, scope_value(kids), kids, b0)
        if t == "vlq_base128_le":
            v, sh = 0, 0
            while True:
                b = sub.read(1)[0]
                v |= (b & 0x7f) << sh
                sh += 7
                if not b & 0x80:
                    break
            return self.node(aid, start, st, v, [], b0)
        m = PRIM.match(t) if isinstance(t, str) else None
        if m:
            kind, n, en = m.group(1), int(m.group(2)), m.group(3)
            if en is None and n > 1:
                raise KsyError("type %r without endianness" % t)
            raw = sub.read(n)
            if kind == "f":
                if n not in (4, 8):
                    raise KsyError("float size %d" % n)
                v = struct.unpack((">" if en == "be" else "<") + ("f" if n == 4 else "d"), raw)[0]
            else:
                v = int.from_bytes(raw, "big" if en != "le" else "little", signed=(kind == "s"))
            if "enum" in a:
                table = self.enums.get(a["enum"])
                if table is None:
                    raise KsyError("enum %r is not defined" % (a["enum"],))
                v = table.get(str(v), table.get(v, v))
            return self.node(aid, start, st, v, [], b0)
        if isinstance(t, str) and BITS.match(t):
            nb = int(BITS.match(t).group(1))
            v = sub.read_bits(nb)
            sub.align()
            return self.node(aid, start, st, v, [], b0)
        raise KsyError("attribute %r: unknown type %r" % (aid, t))

    def terminated(self, a, st, region, term, include, consume, eos_error):
        tb = bytes([term])
        if region is not None:
            z = region.find(tb)
            if z < 0:
                return region
            return region[:z + (1 if include else 0)]
        out = bytearray()
        while True:
            if st.pos >= len(st.data):
                if eos_error:
                    raise KsyEOF("terminator")
                return bytes(out)
            b = st.data[st.pos:st.pos + 1]
            st.pos += 1
            if b == tb:
                if include:
                    out += b
                if not consume:
                    st.pos -= 1
                return bytes(out)
            out += b

    def node(self, aid, start, st, value, kids, b0):
        return {"id": aid, "start": start, "end": st.base + st.pos, "value": value, "kids": kids, "bitstart": b0, "bitend": st.bitpos()}


def scope_value(kids):
    out = {}
    anon = []
    for k in kids:
        if k["id"] is not None:
            out[k["id"]] = k["value"]
        else:
            anon.append(k["value"])
    return out if out or not anon else anon


def interpret(schema, data):
    return Interp(schema, data).run()
