"""CLI:  python -m rv check <ID> [--tier quick|thorough]
         python -m rv worker <ID> <tier> <seed> <index> <n> <outfile>
         python -m rv replay <path>
         python -m rv selftest
"""
import sys, os, json, time, subprocess, tempfile, shutil, importlib, collections, resource, signal

from .common import VERIF, REPO, Ctx, EXIT_HELD, EXIT_VIOLATION, EXIT_INCONCLUSIVE, jhash, Inconclusive, short_tb

PY = "/venv/bin/python"
NCPU = min(16, os.cpu_count() or 4)


def load_check(pid):
    return importlib.import_module("rv.checks.%s" % pid.lower())


def child_env(pycache):
    env = dict(os.environ)
    env["PYTHONPATH"] = VERIF + os.pathsep + REPO
    env["PYTHONHASHSEED"] = "0"
    env["TZ"] = "UTC"
    env["PYTHONPYCACHEPREFIX"] = pycache
    env["PYTHONDONTWRITEBYTECODE"] = "1"
    env["VERIF_REPO"] = REPO
    return env


def known_findings():
    p = os.path.join(VERIF, "known_findings.json")
    if not os.path.exists(p):
        return []
    return json.load(open(p)).get("findings", [])


# ------------------------------------------------------------------ worker
def worker_main(pid, tier, seed, index, n, outfile):
    resource.setrlimit(resource.RLIMIT_AS, (6 << 30, 6 << 30))
    from .common import import_construct
    import_construct()
    from . import monitors
    mod = load_check(pid)
    ctx = Ctx(pid, tier, seed, index, n)
    monitors.COVERAGE.start()
    try:
        mod.run(ctx)
    except Inconclusive as e:
        ctx.inconclusive.append("worker %d: %s" % (index, e))
    except BaseException as e:
        ctx.inconclusive.append("worker %d harness error: %s: %s\n%s" % (index, type(e).__name__, e, short_tb()))
    monitors.COVERAGE.stop()
    out = ctx.dump()
    out["coverage"] = sorted(monitors.COVERAGE.hit)
    from .common import tag
    with open(outfile, "w") as f:
        json.dump(out, f, default=tag)
    return 0


# ------------------------------------------------------------------ parent
def check_main(pid, tier):
    t0 = time.time()
    seed = int(os.environ.get("VERIF_SEED", "0") or 0)
    mod = load_check(pid)
    nworkers = getattr(mod, "WORKERS", NCPU)
    if callable(nworkers):
        nworkers = nworkers(tier)
    tmp = tempfile.mkdtemp(prefix="rv-%s-" % pid)
    pycache = os.path.join(tmp, "pyc")
    os.makedirs(pycache)
    env = child_env(pycache)
    procs = []
    watchdog = getattr(mod, "WATCHDOG", {"quick": 1500, "thorough": 6 * 3600})[tier]
    inconclusive = []
    try:
        for i in range(nworkers):
            out = os.path.join(tmp, "w%d.json" % i)
            log = open(os.path.join(tmp, "w%d.log" % i), "w")
            p = subprocess.Popen([PY, "-B", "-X", "faulthandler", "-m", "rv", "worker", pid, tier, str(seed), str(i), str(nworkers), out],
                                 cwd=VERIF, env=env, stdout=log, stderr=subprocess.STDOUT)
            procs.append((p, out, log))
        deadline = time.time() + watchdog
        results = []
        for i, (p, out, log) in enumerate(procs):
            try:
                rc = p.wait(timeout=max(1, deadline - time.time()))
            except subprocess.TimeoutExpired:
                p.kill()
                p.wait()
                inconclusive.append("worker %d hit the wall-clock watchdog (%ds)" % (i, watchdog))
                continue
            log.close()
            if rc != 0 or not os.path.exists(out):
                tail = open(log.name).read()[-1500:]
                inconclusive.append("worker %d exited rc=%s without a result: %s" % (i, rc, tail))
                continue
            results.append(json.load(open(out)))
    finally:
        for p, _, _ in procs:
            if p.poll() is None:
                p.kill()
        shutil.rmtree(tmp, ignore_errors=True)

    # ---- merge
    evaluations = sum(r["evaluations"] for r in results)
    counters = collections.Counter()
    nt = set()
    samples, violations = [], []
    viol_counts = collections.Counter()
    coverage = set()
    notes = {}
    for r in results:
        counters.update(r["counters"])
        nt.update(r["nt"])
        for s in r["samples"]:
            if len(samples) < 8:
                samples.append(s)
        violations.extend(r["violations"])
        viol_counts.update(r["viol_counts"])
        coverage.update(r["coverage"])
        inconclusive.extend(r["inconclusive"])
        notes.update(r.get("notes", {}))

    required = list(getattr(mod, "REQUIRED_ANCHORS", []))
    missing = [a for a in required if a not in coverage]
    if missing and results:
        inconclusive.append("anchored functions never executed by the workload: %s" % ", ".join(missing))
    min_nt = getattr(mod, "MIN_NONTRIVIAL", 2)
    if len(nt) < min_nt and not violations:
        inconclusive.append("only %d distinct non-trivial cases observed (need >= %d)" % (len(nt), min_nt))
    gate = getattr(mod, "gate", None)
    if gate is not None and results:
        for msg in gate(counters, tier) or []:
            inconclusive.append(msg)

    # ---- classify against known findings
    kf = [k for k in known_findings() if k.get("property") == pid]
    known = {k["key"]: k for k in kf if k.get("status") == "known"}
    new_mechs = collections.OrderedDict()
    known_hits = collections.OrderedDict()
    for v in violations:
        if v["mech"] in known:
            known_hits.setdefault(v["mech"], v)
        else:
            new_mechs.setdefault(v["mech"], []).append(v)

    rdir = os.path.join(VERIF, "replays", pid)
    if os.path.isdir(rdir):
        for fn in os.listdir(rdir):          # replay files of earlier runs would only confuse: keep the current run's
            if fn.endswith(".json"):
                os.unlink(os.path.join(rdir, fn))
    lines = []
    for mech, vs in new_mechs.items():
        os.makedirs(rdir, exist_ok=True)
        v = vs[0]
        rec = {"property": pid, "mech": mech, "msg": v["msg"], "case": v["case"], "seed": seed, "tier": tier,
               "count": viol_counts.get(mech, len(vs)), "more_cases": [x["case"] for x in vs[1:4]]}
        path = os.path.join(rdir, jhash([pid, mech])[:16] + ".json")
        with open(path, "w") as f:
            json.dump(rec, f, indent=1, default=repr)
        if len(lines) < 12:
            lines.append("VIOLATION property=%s replay=%s" % (pid, path))
            print("  mechanism: %s  (x%d)\n  %s" % (mech, rec["count"], v["msg"].replace("\n", "\n  ")[:700]))
        elif len(lines) == 12:
            lines.append("VIOLATION property=%s replay=%s   (+%d further mechanisms, see %s)" % (pid, path, len(new_mechs) - 12, rdir))
    for mech, v in known_hits.items():
        print("KNOWN-FINDING: property=%s %s [%s] (x%d this run)" % (pid, known[mech]["what"], mech, viol_counts.get(mech, 1)))

    wall = time.time() - t0
    cov_report = {}
    allanch = getattr(mod, "ANCHORS", required)
    if allanch:
        cov_report = {"anchored_functions": len(allanch), "reached": sum(1 for a in allanch if a in coverage),
                      "unreached": [a for a in allanch if a not in coverage]}
    level = getattr(mod, "LEVEL", "exploration")
    cov = {
        "evaluations": int(evaluations),
        "distinct_nontrivial": len(nt),
        "rule": getattr(mod, "RULE", ""),
        "samples": samples if samples else [{"note": "no sample recorded"}],
        "counters": dict(sorted(counters.items())),
        "anchor_coverage": cov_report,
        "library_functions_entered": len(coverage),
        "workers": len(results),
        "known_findings_reproduced": sorted(known_hits),
        "new_violation_mechanisms": sorted(new_mechs),
        "inconclusive_reasons": inconclusive,
        "exhaustive": bool(getattr(mod, "EXHAUSTIVE", False)),
    }
    cov.update(notes)
    if level == "translation_validation":
        cov["programs"] = int(counters.get("programs", 0))
        cov["disagreements_checked"] = int(counters.get("comparisons", 0))
    ev = {
        "property_id": pid, "tier": tier, "seed": seed, "level": level, "coverage": cov,
        "assumptions": list(getattr(mod, "ASSUMPTIONS", [])),
        "wall_s": round(wall, 2),
        "violations": int(sum(viol_counts[m] for m in new_mechs)),
    }
    os.makedirs(os.path.join(VERIF, "evidence"), exist_ok=True)
    with open(os.path.join(VERIF, "evidence", pid + ".json"), "w") as f:
        json.dump(ev, f, indent=1, default=repr)

    print("%s tier=%s seed=%d: %d evaluations, %d distinct non-trivial, %d workers, %.1fs; anchors %s/%s" % (
        pid, tier, seed, evaluations, len(nt), len(results), wall,
        cov_report.get("reached", "-"), cov_report.get("anchored_functions", "-")))
    top = ", ".join("%s=%d" % kv for kv in sorted(counters.items())[:14])
    if top:
        print("  observed: " + top)
    for l in lines:
        print(l)
    if lines:
        for r in inconclusive:
            print("NOTE (also inconclusive in part): %s" % r.replace("\n", " | ")[:600])
        return EXIT_VIOLATION
    if inconclusive:
        for r in inconclusive:
            print("INCONCLUSIVE property=%s reason=%s" % (pid, r.replace("\n", " | ")[:800]))
        return EXIT_INCONCLUSIVE
    return EXIT_HELD


def replay_main(path):
    from .common import import_construct
    import_construct()
    rec = json.load(open(path))
    mod = load_check(rec["property"])
    ctx = Ctx(rec["property"], rec.get("tier", "quick"), rec.get("seed", 0), 0, 1)
    mod.replay(ctx, rec["case"])
    if ctx.violations:
        for v in ctx.violations:
            print("REPRODUCED mechanism=%s\n  %s" % (v["mech"], v["msg"]))
        return 1
    print("not reproduced (no violation on this tree)")
    return 0


def main(argv):
    if len(argv) >= 2 and argv[0] == "check":
        tier = os.environ.get("VERIF_TIER", "quick")
        if "--tier" in argv:
            tier = argv[argv.index("--tier") + 1]
        return check_main(argv[1].upper(), tier)
    if len(argv) >= 7 and argv[0] == "worker":
        return worker_main(argv[1], argv[2], int(argv[3]), int(argv[4]), int(argv[5]), argv[6])
    if len(argv) >= 2 and argv[0] == "replay":
        return replay_main(argv[1])
    if argv and argv[0] == "selftest":
        from . import selftest
        return selftest.main()
    print(__doc__)
    return 2


if __name__ == "__main__":
    sys.exit(main(sys.argv[1:]))
