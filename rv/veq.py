"""Structural equality used by the monitors instead of Container.__eq__ (which is itself
under test in C20).  NaN policy: all NaNs are one class; other floats compare by bit
pattern (so -0.0 != 0.0)."""
import math, struct


def _isnan(x):
    return isinstance(x, float) and x != x


def force(v):
    """Force lazy results (Lazy lambdas) into plain values."""
    if callable(v) and getattr(v, "__name__", "") == "execute":
        return v()
    return v


def norm(v, depth=0):
    """Normalise a library result / python value into a comparable plain structure."""
    if depth > 40:
        return ("deep",)
    v = force(v)
    if v is None:
        return None
    if isinstance(v, bool):
        return ("bool", bool(v))
    cn = type(v).__name__
    if cn == "EnumIntegerString":
        return ("enum", int(v), str.__str__(v))
    if isinstance(v, int):
        return ("int", int(v))
    if isinstance(v, float):
        if v != v:
            return ("nan",)
        return ("float", struct.pack(">d", v))
    if isinstance(v, (bytes, bytearray)):
        return ("bytes", bytes(v))
    if isinstance(v, str):
        return ("str", str.__str__(v))
    if isinstance(v, dict):
        if cn == "LazyContainer":
            keys = list(v.keys())
            items = [(k, v[k]) for k in keys]
        else:
            items = list(dict.items(v))
        out = {}
        for k, x in items:
            if isinstance(k, str) and k.startswith("_"):
                continue
            out[str.__str__(k) if isinstance(k, str) else k] = norm(x, depth + 1)
        return ("dict", out)
    if isinstance(v, tuple) and hasattr(v, "_fields"):
        return ("ntuple", tuple(v._fields), [norm(x, depth + 1) for x in v])
    if isinstance(v, (list, tuple)):
        if cn == "LazyListContainer":
            return ("list", [norm(v[i], depth + 1) for i in range(len(v))])
        return ("list", [norm(x, depth + 1) for x in list(v)])
    return ("other", cn, repr(v))


def veq(a, b):
    return norm(a) == norm(b)


def veq_loose_enum(a, b):
    """Like veq but an enum label equals its plain string and an EnumInteger its int."""
    return _loosen(norm(a)) == _loosen(norm(b))


def _loosen(n):
    if isinstance(n, tuple):
        if n and n[0] == "enum":
            return ("str", n[2])
        if n and n[0] == "dict":
            return ("dict", {k: _loosen(x) for k, x in n[1].items()})
        if n and n[0] == "list":
            return ("list", [_loosen(x) for x in n[1]])
        if n and n[0] == "bool":
            return n
    return n


def show(v):
    from .common import tag
    return tag(v)
