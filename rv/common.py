"""Shared helpers: environment pinning, JSON tagging of values, the per-worker Ctx."""
import os, sys, json, hashlib, random, struct, collections, time, traceback

VERIF = os.path.dirname(os.path.dirname(os.path.abspath(__file__)))
REPO = os.path.realpath(os.environ.get("VERIF_REPO", "/repo"))

EXIT_HELD, EXIT_VIOLATION, EXIT_INCONCLUSIVE = 0, 1, 2


def import_construct():
    """Import the library from $VERIF_REPO and make sure that is what we got."""
    if REPO not in sys.path:
        sys.path.insert(0, REPO)
    import construct
    got = os.path.realpath(construct.__file__)
    if not got.startswith(REPO + os.sep):
        raise RuntimeError("construct imported from %s, expected under %s" % (got, REPO))
    return construct


# --------------------------------------------------------------------------
# JSON tagging: every case / value that appears in evidence or a replay file
# --------------------------------------------------------------------------
def tag(v, depth=0):
    """Turn a Python value (incl. bytes, floats, containers, enum strings) into JSON data."""
    if depth > 12:
        return {"repr": repr(v)[:200]}
    if v is None or isinstance(v, bool):
        return v
    t = type(v)
    if t.__name__ == "EnumIntegerString":
        return {"enum": [int(v), str(v)]}
    if isinstance(v, int):
        return int(v) if abs(v) < 2**53 else {"i": str(int(v))}
    if isinstance(v, float):
        return {"f": struct.pack(">d", v).hex()}
    if isinstance(v, (bytes, bytearray, memoryview)):
        return {"b": bytes(v).hex()}
    if isinstance(v, str):
        return {"s": str(v)} if any(ord(c) > 126 or ord(c) < 32 for c in v) else str(v)
    if isinstance(v, dict):
        out = {}
        for k, x in list(dict.items(v)):
            if isinstance(k, str) and k.startswith("_"):
                continue
            out[str(k)] = tag(x, depth + 1)
        return {"d": out}
    if isinstance(v, (list, tuple)):
        return [tag(x, depth + 1) for x in list.__iter__(v)] if isinstance(v, list) else {"t": [tag(x, depth + 1) for x in v]}
    if isinstance(v, BaseException):
        return {"exc": type(v).__name__, "msg": str(v)[:300]}
    return {"repr": repr(v)[:200]}


def untag(j):
    """Inverse of tag for the value forms used in recipes / cases."""
    if isinstance(j, dict):
        if "b" in j and len(j) == 1:
            return bytes.fromhex(j["b"])
        if "f" in j and len(j) == 1:
            return struct.unpack(">d", bytes.fromhex(j["f"]))[0]
        if "i" in j and len(j) == 1:
            return int(j["i"])
        if "s" in j and len(j) == 1:
            return j["s"]
        if "d" in j and len(j) == 1:
            return {k: untag(x) for k, x in j["d"].items()}
        if "t" in j and len(j) == 1:
            return tuple(untag(x) for x in j["t"])
        if "enum" in j and len(j) == 1:
            return j["enum"][1]
        raise ValueError("cannot untag %r" % (j,))
    if isinstance(j, list):
        return [untag(x) for x in j]
    return j


def jhash(obj):
    return hashlib.sha1(json.dumps(obj, sort_keys=True, default=repr).encode()).hexdigest()


def h64(*parts):
    s = "\x1f".join(p if isinstance(p, str) else json.dumps(p, sort_keys=True, default=repr) for p in parts)
    return int.from_bytes(hashlib.blake2b(s.encode(), digest_size=8).digest(), "big")


class Inconclusive(Exception):
    pass


class Ctx:
    """What a check's worker reports into.  One per worker process."""
    MAX_VIOL_PER_KEY = 6
    MAX_SAMPLES = 6
    MAX_NT = 400000

    def __init__(self, pid, tier, seed, index, nworkers):
        self.pid, self.tier, self.seed, self.index, self.nworkers = pid, tier, seed, index, nworkers
        self.rng = random.Random(seed * 1000 + index)
        self.evaluations = 0
        self.counters = collections.Counter()
        self.nt = set()
        self.samples = []
        self.violations = []          # list of dicts
        self.viol_counts = collections.Counter()
        self.inconclusive = []
        self.notes = {}
        self.t0 = time.time()

    @property
    def quick(self):
        return self.tier == "quick"

    def pick(self, q, t):
        return q if self.tier == "quick" else t

    def mine(self, i):
        """Static sharding of enumerated work: item i belongs to this worker?"""
        return i % self.nworkers == self.index

    def ev(self, n=1):
        self.evaluations += n

    def count(self, name, n=1):
        self.counters[name] += n

    def nontrivial(self, *key):
        if len(self.nt) < self.MAX_NT:
            self.nt.add(h64(*key))

    def sample(self, case):
        if len(self.samples) < self.MAX_SAMPLES:
            self.samples.append(case)

    def violation(self, mech, msg, case):
        """mech: short mechanism string (input to the known-findings classifier);
        case: JSON-able dict that `replay` can re-execute."""
        self.viol_counts[mech] += 1
        if self.viol_counts[mech] <= self.MAX_VIOL_PER_KEY:
            self.violations.append({"mech": mech, "msg": str(msg)[:600], "case": case})

    def dump(self):
        return {
            "pid": self.pid, "index": self.index, "evaluations": self.evaluations,
            "counters": dict(self.counters), "nt": sorted(self.nt), "samples": self.samples,
            "violations": self.violations, "viol_counts": dict(self.viol_counts),
            "inconclusive": self.inconclusive, "notes": self.notes,
            "wall_s": time.time() - self.t0,
        }


def exc_name(e):
    return type(e).__name__


def short_tb():
    return traceback.format_exc(limit=6)[-1500:]


def raise_site(e):
    """Innermost library frame an exception passed through: 'core:Class.method' (mechanism key material)."""
    tb = e.__traceback__
    site = None
    lib = os.path.join(REPO, "construct") + os.sep
    while tb is not None:
        co = tb.tb_frame.f_code
        if co.co_filename.startswith(lib):
            site = os.path.basename(co.co_filename)[:-3] + ":" + co.co_qualname
        tb = tb.tb_next
    return site or "outside-library"
