"""Traced / faulty streams.  The library only ever calls read/write/seek/tell on the
stream object it is given, so a plain Python object implementing those is the whole
boundary."""
import io


class BudgetExceeded(BaseException):
    """Raised (as BaseException so that `except Exception` in the library cannot
    swallow it) when a case exceeds its logical step budget."""


class TracedStream:
    """Seekable binary stream over a bytearray that logs every operation.

    log entries: (op, arg, result_or_exc, pos_before, pos_after)
    fault: None or (kind, opname, k): on the k-th (0-based) call of `opname`:
        kind 'raise'      -> raise OSError
        kind 'short'      -> read returns one byte fewer than asked (sized reads of >= 2
                             bytes only: a 0-byte answer to read(1) *is* end-of-file and
                             no library could tell the difference) / write reports one fewer
        kind 'noseek'     -> seek raises io.UnsupportedOperation from then on
        kind 'notell'     -> tell raises io.UnsupportedOperation from then on
    """

    def __init__(self, data=b"", pos=0, fault=None, budget=None, keeplog=True):
        self.buf = bytearray(data)
        self.pos = pos
        self.log = []
        self.counts = {"read": 0, "write": 0, "seek": 0, "tell": 0}
        self.fault = fault
        self.fault_delivered = False
        self.budget = budget
        self.nops = 0
        self.keeplog = keeplog
        self._noseek = False
        self._notell = False

    # -- helpers
    def _enter(self, op):
        self.nops += 1
        if self.budget is not None and self.nops > self.budget:
            raise BudgetExceeded("stream operation budget %d exceeded" % self.budget)
        k = self.counts[op]
        self.counts[op] = k + 1
        f = self.fault
        if f is not None and f[1] == op and f[2] == k:
            return f[0]
        return None

    def _rec(self, op, arg, res, p0):
        if self.keeplog:
            self.log.append((op, arg, res, p0, self.pos))

    # -- stream API
    def read(self, n=-1):
        p0 = self.pos
        fk = self._enter("read")
        if fk in ("raise", "raisev"):
            self.fault_delivered = True
            self._rec("read", n, "OSError", p0)
            raise (OSError("injected read failure") if fk == "raise" else ValueError("I/O operation on closed file (injected)"))
        if n is None or n < 0:
            data = bytes(self.buf[self.pos:])
        else:
            data = bytes(self.buf[self.pos:self.pos + n])
        if fk == "short" and n is not None and n >= 2 and len(data) >= 2:
            self.fault_delivered = True
            data = data[:-1]
        self.pos += len(data)
        self._rec("read", n, len(data), p0)
        return data

    def write(self, data):
        p0 = self.pos
        fk = self._enter("write")
        if fk in ("raise", "raisev"):
            self.fault_delivered = True
            self._rec("write", len(data), "OSError", p0)
            raise (OSError("injected write failure") if fk == "raise" else ValueError("I/O operation on closed file (injected)"))
        data = bytes(data)
        if fk == "short" and len(data) >= 1:
            self.fault_delivered = True
            data = data[:-1]
        end = self.pos + len(data)
        if self.pos > len(self.buf):
            self.buf.extend(bytes(self.pos - len(self.buf)))
        self.buf[self.pos:end] = data
        self.pos = end
        self._rec("write", len(data), len(data), p0)
        return len(data)

    def seek(self, off, whence=0):
        p0 = self.pos
        fk = self._enter("seek")
        if fk == "noseek":
            self._noseek = True
        if fk in ("raise", "raisev") or self._noseek:
            self.fault_delivered = True
            self._rec("seek", (off, whence), "OSError", p0)
            raise (OSError("injected seek failure") if fk == "raise" else ValueError("closed file (injected)") if fk == "raisev" else io.UnsupportedOperation("not seekable"))
        if whence == 0:
            new = off
        elif whence == 1:
            new = self.pos + off
        elif whence == 2:
            new = len(self.buf) + off
        else:
            raise ValueError("bad whence")
        if new < 0:
            self._rec("seek", (off, whence), "ValueError", p0)
            raise ValueError("negative seek position %r" % (new,))
        self.pos = new
        self._rec("seek", (off, whence), new, p0)
        return new

    def tell(self):
        fk = self._enter("tell")
        if fk == "notell":
            self._notell = True
        if fk in ("raise", "raisev") or self._notell:
            self.fault_delivered = True
            self._rec("tell", None, "OSError", self.pos)
            raise (OSError("injected tell failure") if fk == "raise" else ValueError("closed file (injected)") if fk == "raisev" else io.UnsupportedOperation("not tellable"))
        self._rec("tell", None, self.pos, self.pos)
        return self.pos

    def seekable(self):
        return not self._noseek

    def readable(self):
        return True

    def writable(self):
        return True

    def getvalue(self):
        return bytes(self.buf)

    def close(self):
        pass


FAULT_KINDS = {
    "read": ("raise", "raisev", "short"),
    "write": ("raise", "raisev", "short"),
    "seek": ("raise", "raisev", "noseek"),
    "tell": ("raise", "raisev", "notell"),
}
