"""pytest plugin (loaded with  -p rv.pytest_guard ): the repository's own test-suite as a workload under the C17 mutation guard.

While any public call (parse_stream / build_stream / sizeof, which parse/build/parse_file/build_file go through) is in progress
on a thread, an attribute write or delete on a Construct object that was not created during that call, performed by code of
the library itself (construct/...), is recorded.  User code in the tests (custom adapters, hooks) is not judged.
The result is written as JSON to $RV_GUARD_OUT at session end."""
import json, os, sys, threading

STATE = {"calls": 0, "writes": [], "tests": 0, "by_class": {}}
TLS = threading.local()
CURRENT = [None]


def pytest_configure(config):
    import construct.core as core
    C = core.Construct
    lib = os.path.dirname(os.path.abspath(core.__file__)) + os.sep

    def wrap(name):
        orig = getattr(C, name)

        def w(self, *a, **k):
            depth = getattr(TLS, "depth", 0)
            if depth == 0:
                TLS.fresh = set()
            TLS.depth = depth + 1
            STATE["calls"] += 1
            try:
                return orig(self, *a, **k)
            finally:
                TLS.depth -= 1
        w.__name__ = name
        setattr(C, name, w)
    for n in ("parse_stream", "build_stream", "sizeof"):
        wrap(n)
    init0 = C.__init__

    def __init__(self, *a, **k):
        if getattr(TLS, "depth", 0):
            TLS.fresh.add(id(self))
        init0(self, *a, **k)

    def record(self, what):
        if getattr(TLS, "depth", 0) and id(self) not in TLS.fresh:
            f = sys._getframe(2)
            if f.f_code.co_filename.startswith(lib):
                cls = type(self).__name__
                STATE["by_class"][cls + "." + what] = STATE["by_class"].get(cls + "." + what, 0) + 1
                if len(STATE["writes"]) < 200:
                    STATE["writes"].append({"class": cls, "attr": what, "by": "%s:%s" % (os.path.basename(f.f_code.co_filename), f.f_code.co_qualname), "test": CURRENT[0]})

    def __setattr__(self, name, value):
        record(self, name)
        object.__setattr__(self, name, value)

    def __delattr__(self, name):
        record(self, "del " + name)
        object.__delattr__(self, name)
    C.__init__ = __init__
    C.__setattr__ = __setattr__
    C.__delattr__ = __delattr__


def pytest_runtest_setup(item):
    CURRENT[0] = item.nodeid
    STATE["tests"] += 1


def pytest_sessionfinish(session, exitstatus):
    out = os.environ.get("RV_GUARD_OUT")
    if out:
        with open(out, "w") as f:
            json.dump(STATE, f)
