"""Typed recipe + value generation for the reference-model checks (C01 C02 C03 C05 C06 C18).

Recipes are produced so that only validly parameterised compositions come out: greedy members only at the end
of a region, lengths/counts/selectors refer to earlier small-integer members (named n*/t*/f*) or to keyword
context, statically sized bit regions are multiples of 8, repeat elements are never statically zero-width.
"""
from .common import tag, untag
from . import refmodel as M
from .recipes import is_named_pair

ENCODINGS = ["ascii", "utf8", "utf16", "utf_16_le", "utf_16_be", "utf32", "utf_32_le", "utf_32_be"]
INT_NAMES = sorted(M.INTNAMES)
FLOAT_NAMES = sorted(M.FLOATNAMES)
SMALL = ["Byte", "Int8ub", "Int8ul", "Int16ub", "Int16ul", "Int24ub", "Int32ul", "Short"]


class Gen:
    def __init__(self, rng, maxdepth=3, arity=4, fragment="full", reparse_safe=False, strict=False):
        # strict (C06b, C18): no greedy, optional or look-ahead parts anywhere - every strict prefix of an encoding is incomplete
        self.strict = strict
        # reparse_safe (C02): terminator-delimited regions only around data that cannot contain the terminator once parsed
        self.reparse_safe = reparse_safe
        self.rng = rng
        self.maxdepth = maxdepth
        self.arity = arity
        self.fragment = fragment      # "core" (C03/C06/C18) or "full" (C01/C02/C05)
        self.kw = {}

    # ------------------------------------------------------------------ leaves
    def int_leaf(self):
        r = self.rng
        c = r.random()
        if c < 0.45:
            return ["name", r.choice(INT_NAMES)]
        if c < 0.6:
            return ["FormatField", r.choice("=<>"), r.choice("BHLQbhlq")]
        if c < 0.85:
            return ["BytesInteger", r.choice([1, 2, 3, 5, 7, 8, 9, 16]), r.random() < 0.5, r.random() < 0.5]
        return ["name", r.choice(["VarInt", "ZigZag"])]

    def float_leaf(self):
        r = self.rng
        return ["name", r.choice(FLOAT_NAMES)] if r.random() < 0.7 else ["FormatField", r.choice("=<>"), r.choice("efd")]

    def string_leaf(self, tail):
        r = self.rng
        enc = r.choice(ENCODINGS)
        c = r.random()
        if c < 0.3:
            u = M.UNIT[enc]
            return ["PaddedString", u * r.randint(0, 6) + (r.randrange(u) if r.random() < 0.3 else 0), enc]
        if c < 0.6:
            return ["PascalString", ["name", r.choice(["Byte", "VarInt", "Int16ul"])], enc]
        if c < 0.85 or not tail:
            return ["CString", enc]
        return ["GreedyString", enc]

    def mapping_leaf(self):
        r = self.rng
        sub = ["name", r.choice(["Byte", "Int8ul", "Int16ub", "Int16ul", "VarInt"])]
        c = r.random()
        if c < 0.4:
            labels = r.choice([[["one", 1], ["two", 2], ["four", 4]], [["zero", 0], ["max", 255]], [["a", 1]], [["x", 7], ["y", 8], ["z", 9]]])
            return [r.choice(["Enum", "EnumClass"]), sub, labels]
        if c < 0.75:
            labels = r.choice([[["one", 1], ["two", 2], ["four", 4]], [["r", 1], ["w", 2], ["x", 4], ["hi", 128]], [["a", 1]], [["r", 1], ["w", 2], ["rw", 3]]])
            form = "FlagsEnum" if any(v & (v - 1) for _, v in labels) else r.choice(["FlagsEnum", "FlagsEnumClass"])
            return [form, sub, labels]
        return ["Mapping", ["name", "Byte"], [["a", 0], ["b", 1], [tag(b"k"), 2], [7, 200]]]

    def leaf(self, tail):
        r = self.rng
        if self.strict:
            tail = False
        c = r.random()
        if tail and c > 0.975:
            return ["name", "Terminated"]
        if c < 0.30:
            return self.int_leaf()
        if c < 0.38:
            return self.float_leaf()
        if c < 0.50:
            return ["Bytes", r.randint(0, 5)]
        if c < 0.64:
            return self.string_leaf(tail)
        if c < 0.74:
            return self.mapping_leaf()
        if c < 0.78:
            return ["name", "Flag"]
        if c < 0.82:
            return ["Const", tag(bytes(r.randrange(256) for _ in range(r.randint(1, 3)))), None]
        if c < 0.85:
            return ["Const", r.randint(0, 255), ["name", "Byte"]]
        if c < 0.88:
            return ["Padding", r.randint(0, 3)]
        if c < 0.91:
            return ["Default", ["name", "Byte"], r.randint(0, 255)]
        if c < 0.93:
            return ["Computed", r.randint(0, 9)]
        if tail and c < 0.97:
            return ["name", "GreedyBytes"]
        return ["name", "Pass"] if c > 0.985 else self.int_leaf()

    def fixed_leaf(self):
        """a leaf with a static size > 0"""
        r = self.rng
        c = r.random()
        if c < 0.5:
            return ["name", r.choice(INT_NAMES)]
        if c < 0.6:
            return ["name", r.choice(FLOAT_NAMES)]
        if c < 0.8:
            return ["Bytes", r.randint(1, 4)]
        if c < 0.9:
            return ["BytesInteger", r.choice([1, 2, 3, 5]), r.random() < 0.5, r.random() < 0.5]
        return ["name", "Flag"]

    # ------------------------------------------------------------------ composites
    def recipe(self, depth=None, tail=True, scope_ints=None):
        """scope_ints: names of earlier small-int members visible as this.<name> (same scope)"""
        r = self.rng
        if depth is None:
            depth = self.maxdepth
        if self.strict:
            tail = False
        if depth <= 0 or r.random() < 0.18:
            return self.leaf(tail)
        c = r.random()
        sub = lambda t=False, d=depth - 1: self.recipe(d, t, None)
        if c < 0.22:
            return self.struct(depth, tail)
        if c < 0.245:
            # same member grammar as Struct (named lengths/counts/selectors, derived members, dependants), values given as a list
            return ["Sequence", [m for m in self.struct(depth, tail, inseq=True)[1]]]
        if c < 0.27:
            n = r.randint(1, self.arity)
            return ["Sequence", [[None if r.random() < 0.7 else "s%d" % i, self.recipe(depth - 1, tail and i == n - 1)] for i in range(n)]]
        if c < 0.31:
            return ["Array", r.randint(0, 3), self.nonzero(depth - 1)]
        if c < 0.35:
            return ["PrefixedArray", ["name", r.choice(["Byte", "VarInt", "Int16ul", "Int8sb"])], self.nonzero(depth - 1)]
        if c < 0.40 and tail:
            return ["GreedyRange", self.nonzero(depth - 1)]
        if c < 0.43:
            return ["RepeatUntil", ["bin", "==", ["obj"], 0], ["name", r.choice(["Byte", "Int16ub", "VarInt"])]]
        if c < 0.50:
            lf = ["name", r.choice(["Byte", "VarInt", "Int16ub", "Int32ul", "Int8sb"])]
            incl = r.random() < 0.35 and lf[1] != "VarInt"
            return ["Prefixed", lf, self.recipe(depth - 1, True), incl]
        if c < 0.55:
            # reparse_safe: no greedy construct inside a zero-padded region (the padding would parse as further elements)
            inner = self.recipe(depth - 1, not self.reparse_safe)
            return ["FixedSized", self.len_for(inner), inner]
        if c < 0.60 and self.reparse_safe:
            inner = r.choice([["name", "GreedyBytes"], ["GreedyString", "ascii"], ["GreedyString", "utf8"], ["GreedyRange", ["OneOf", ["name", "Byte"], [1, 2, 3]]]])
            return ["NullTerminated", inner, tag(r.choice([b"\x00", b"\xff"])), False, True, True]
        if c < 0.60:
            inner = self.recipe(depth - 1, True)
            term = r.choice([b"\x00", b"\x00", b"\xff", b"\xfe"])
            # a multi-byte terminator is only defined over unit-aligned data (Issue 1046): use it over even-sized inner constructs only
            try:
                if M.size(inner, M.top_scope(dict(self.kw))) % 2 == 0 and r.random() < 0.5:
                    term = r.choice([b"\x00\x00", b"\r\n"])
            except (M.Unsized, M.MissingKey, M.ModelGap):
                pass
            return ["NullTerminated", inner, tag(term), False, True, True]
        if c < 0.63 and tail:
            # NullStripped is only symmetric around raw greedy data (anything else may legitimately end in the pad byte)
            return ["NullStripped", r.choice([["name", "GreedyBytes"], ["GreedyString", "ascii"], ["GreedyString", "utf8"]]), tag(r.choice([b"\x00", b"\x20"]))]
        if c < 0.69:
            inner = self.sized(depth - 1)
            return ["Padded", self.len_for(inner), inner, tag(r.choice([b"\x00", b"*"]))]
        if c < 0.75:
            return ["Aligned", r.randint(2, 9), self.recipe(depth - 1, False), tag(r.choice([b"\x00", b"\xaa"]))]
        if c < 0.765 and self.fragment == "full":
            return self.bitstream(tail)
        if c < 0.80:
            return self.bitregion()
        if c < 0.83:
            if r.random() < 0.6:
                return ["ByteSwapped", self.fixed_leaf()]
            # bit order reversed in every byte: fixed-size inner constructs are translated as one block, all others byte by byte
            # through a translating stream (inner constructs that only read forward)
            B, V = ["name", "Byte"], ["name", "VarInt"]
            inner = [self.fixed_leaf(), ["PascalString", V, "utf8"], ["Prefixed", V, ["name", "GreedyBytes"], False], ["Struct", [["n", V], ["d", ["Bytes", ["this", "n"]]]]],
                     ["CString", "ascii"], ["PrefixedArray", B, ["name", "Int16ul"]], ["Struct", [["a", ["name", "Int16ub"]], ["s", ["PascalString", B, "ascii"]]]]]
            if tail and not self.strict:
                inner += [["name", "GreedyBytes"], ["Struct", [["a", B], ["rest", ["name", "GreedyBytes"]]]], ["GreedyRange", B]]    # (one-byte elements: the translating stream cannot step back over a partly read element)
            return ["BitsSwapped", r.choice(inner)]
        if c < 0.86 and tail and self.fragment == "full":
            return ["ProcessXor", r.choice([0, 1, 0x5a, 255, tag(b"\x01\x02"), tag(b"\x00")]), self.recipe(depth - 1, True)]
        if c < 0.875 and tail and self.fragment == "full":
            g = r.choice([1, 2, 3, 3, 4, 5, 8])
            amount = r.choice([0, 1, 7, 8, 8, 16, 24, -8, -3, 8 * g, 8 * g + 8, 13, r.randint(-70, 70)])
            inner = r.choice([["Bytes", g * r.randint(0, 3)], ["Array", r.randint(1, 2), ["BytesInteger", g, False, r.random() < 0.3]],
                              ["Struct", [["p", ["Bytes", g]], ["q", ["BytesInteger", g, True, False]]]]])
            return ["ProcessRotateLeft", amount, g, inner]
        if c < 0.886 and tail and not self.strict and self.fragment == "full":
            return r.choice([self.select_family, lambda: self.lazy_family(depth), self.region_family, self.root_family, lambda: self.index_family(tail)])()
        if c < 0.90:
            return ["Optional", self.optional_inner()] if (tail and not self.strict) else ["Hex", self.int_leaf()]
        if c < 0.94:
            return ["Renamed", "rn", self.recipe(depth - 1, tail), "docs" if r.random() < 0.5 else None]
        if c < 0.97:
            return ["OneOf", ["name", "Byte"], sorted(set(r.randrange(256) for _ in range(r.randint(1, 5))))]
        return ["AlignedStruct", r.randint(2, 5), [["a%d" % i, self.fixed_leaf()] for i in range(r.randint(1, 3))]]

    def select_family(self):
        """alternatives (unnamed recipes) that cannot be confused after a rebuild: either each demands the end of the data
        after a different fixed length, or they hold values of different types / different keys - an earlier alternative then
        fails on build only after it has already produced some bytes"""
        r = self.rng
        B = ["name", "Byte"]
        T = ["name", "Terminated"]
        c = r.random()
        if c < 0.35:
            ws = r.sample([["name", "Int8ub"], ["name", "Int16ub"], ["name", "Int24ub"], ["name", "Int32ul"], ["name", "Int64sb"]], r.randint(2, 3))   # (not Bytes: it builds integers too)
            return ["Select", [["Struct", [["k", B], ["v", w], [None, T]]] for w in ws]]
        if c < 0.55:
            return ["Select", [["Sequence", [[None, B], [None, ["PascalString", B, "ascii"]], [None, T]]], ["Sequence", [[None, B], [None, ["name", "Int16ub"]], [None, T]]]]]
        if c < 0.75:
            return ["Select", [["Struct", [["a", B], ["s", ["CString", "ascii"]], [None, T]]], ["Struct", [["a", B], ["n", ["name", "Int16ul"]], [None, T]]], ["Struct", [["a", B], [None, T]]]]]
        if c < 0.9:
            return ["Select", [["Struct", [["t", ["Const", 1, B]], ["x", ["name", "Int16ub"]]]], ["Struct", [["t", ["Const", 2, B]], ["y", ["Bytes", 3]]]], ["Struct", [["t", B], ["z", ["name", "Int32ub"]]]]]]
        return ["Select", [["Sequence", [[None, ["OneOf", B, [1, 2, 3]]], [None, ["OneOf", B, [1, 2]]]]], ["Sequence", [[None, ["OneOf", B, [1, 2, 3, 4, 5]]], [None, ["Bytes", 2]]]]]]

    def lazy_family(self, depth):
        """deferred parsing: members are skipped by their actual size (which for length-prefixed members is read from the
        stream); LazyStruct members do not refer to each other (documented restriction)"""
        r = self.rng
        B = ["name", "Byte"]
        pre = lambda: r.choice([["Prefixed", B, ["Bytes", r.randint(0, 3)], False], ["Prefixed", B, ["name", "GreedyBytes"], False], ["Prefixed", ["name", "Int16ul"], ["name", "Int16ub"], True],
                                ["PrefixedArray", B, ["name", "Int16ub"]], ["PrefixedArray", ["name", "VarInt"], B], ["PascalString", B, "utf8"], ["Prefixed", ["name", "VarInt"], ["CString", "ascii"], False]])
        c = r.random()
        if c < 0.4:
            return ["LazyArray", r.randint(0, 3), pre() if r.random() < 0.6 else self.nonzero(depth - 1)]
        if c < 0.75:
            ms = []
            for i in range(r.randint(1, 4)):
                ms.append(["z%d" % i, r.choice([self.fixed_leaf(), pre(), ["CString", "utf8"], ["name", "VarInt"], ["Struct", [["a", B], ["b", pre()]]]])])
            return ["LazyStruct", ms]
        return ["Struct", [["h", B], ["z", ["Lazy", r.choice([pre(), self.fixed_leaf(), ["Array", 2, ["name", "Int16ub"]]])]], ["t", B]]]

    def region_family(self):
        """regions delimited from their end, tunnels whose inner format refers to the enclosing scope, anonymous members that build
        from nothing behind a selector - always behind a header so that nothing starts at offset 0"""
        r = self.rng
        B = ["name", "Byte"]
        GB = ["name", "GreedyBytes"]
        c = r.random()
        if c < 0.35:
            k = r.randint(1, 3)
            # (reparse_safe: only payloads that take every byte of their region, only regions without padding - anything else
            #  legitimately moves the end-relative footer when the parsed value is built again)
            body = ["Struct", [["payload", ["OffsettedEnd", -k, GB if self.reparse_safe else r.choice([GB, ["GreedyRange", ["name", "Int16ub"]], ["GreedyString", "utf8"]])]], ["crc", ["Bytes", k]]]]
            wraps = [["Prefixed", B, body, False], ["Prefixed", ["name", "Int16ul"], ["Struct", [["x", B], ["inner", body]]], True]] + ([] if self.reparse_safe else [["FixedSized", 12, body]])
            return ["Struct", [["h", ["name", "Int16ub"]], ["blk", r.choice(wraps)]]]
        if c < 0.7:
            inner = r.choice([["Bytes", ["this", "n0"]], ["Array", ["this", "n0"], ["name", "Int16ub"]], ["Struct", [["a", B], ["d", ["Bytes", ["this", "_", "n0"]]]]],
                              ["IfThenElse", ["bin", ">", ["this", "n0"], 1], ["name", "Int32ub"], B], GB])
            return ["Struct", [["n0", B], ["z", ["Prefixed", r.choice([B, ["name", "VarInt"]]), ["Compressed", inner, r.choice(["zlib", "zlib", "bzip2"]), r.choice([None, None, 1, 9])], False]], ["t", B]]]
        # an anonymous Switch all of whose branches build from nothing
        return ["Struct", [["t0", B], [None, ["Switch", ["this", "t0"], [[0, ["Padding", 1]], [1, ["Const", tag(b"x"), None]], [2, ["Padding", 2, tag(b"*")]]], r.choice([None, ["name", "Pass"]])]], ["v", B]]]

    def root_family(self):
        """references to the outermost scope from three and more levels down, through every scope-opening construct"""
        r = self.rng
        B = ["name", "Byte"]
        R = ["this", "_root", "n0"]
        leaf = lambda: r.choice([["Bytes", R], ["Array", R, B], ["If", ["bin", ">=", R, 1], ["name", "Int16ub"]], ["Switch", R, [[0, B], [1, ["name", "Int16ub"]]], ["Bytes", 3]],
                                 ["PaddedString", ["bin", "+", R, 1], "ascii"]])
        lvl3 = ["Struct", [["p", B], ["q", leaf()]]]
        mid = r.choice([["Struct", [["m", B], ["s", lvl3]]], ["Sequence", [[None, B], ["s", lvl3]]], ["PrefixedArray", B, lvl3], ["Array", 2, ["Struct", [["s", lvl3]]]],
                        ["FocusedSeq", "s", [[None, ["Const", tag(b"\x01"), None]], ["s", lvl3]]], ["Prefixed", B, ["Struct", [["s", lvl3], ["r", ["PrefixedArray", B, ["Struct", [["e", leaf()]]]]]]], False]])
        return ["Struct", [["n0", B], ["a", mid], ["t", leaf()]]]

    def index_family(self, tail=True):
        """repeaters whose elements open a scope of their own and depend on the running element index (this._index reaches
        the members of a Struct / Sequence element, and nested ones, in both directions)"""
        r = self.rng
        B = ["name", "Byte"]
        I = ["this", "_index"]
        el = r.choice([
            ["Struct", [["tag", B], ["body", ["Bytes", ["bin", "+", I, 1]]]]],
            ["Struct", [["hd", ["If", ["bin", "==", I, 0], ["Const", tag(b"HD"), None]]], ["v", ["name", "Int16ub"]]]],
            ["Struct", [["i", ["Computed", I]], ["xs", ["Array", I, B]], ["t", B]]],
            ["Struct", [["inner", ["Struct", [["d", ["Bytes", I]], ["e", B]]]], ["t", B]]],
            ["Struct", [["t", B], ["s", ["Switch", I, [[0, B], [1, ["name", "Int16ul"]]], ["Bytes", 3]]]]],
            ["Sequence", [[None, B], [None, ["PaddedString", ["bin", "+", I, 2], "ascii"]]]],
            ["Struct", [["w", ["IfThenElse", ["bin", ">=", I, 2], ["name", "Int32ub"], B]], ["p", ["Padding", I]]]],
        ])
        rep = r.choice([["Array", r.randint(1, 4), el], ["PrefixedArray", r.choice([B, ["name", "VarInt"]]), el]] + ([["GreedyRange", el]] if tail and not self.strict else []))
        return ["Struct", [["h", B], ["xs", rep]]]

    def optional_inner(self):
        # Optional at the end of a region: alternatives that cannot be confused with "nothing"
        # (not Const/Default/...: anything that builds from nothing makes Optional.build(None) emit bytes - the alternatives
        #  would be confusable between the two directions)
        return self.rng.choice([["name", "Int16ub"], ["OneOf", ["name", "Byte"], [1, 2, 3]], ["Bytes", 2], ["name", "Int32sl"]])

    def nonzero(self, depth):
        """element of a repeater: never statically zero-width, never greedy"""
        for _ in range(20):
            x = self.recipe(depth, False)
            try:
                if M.size(x, M.top_scope(dict(self.kw))) == 0:
                    continue
            except (M.Unsized, M.MissingKey, M.ModelGap):
                pass
            if self.may_be_empty(x):
                continue
            return x
        return self.fixed_leaf()

    def may_be_empty(self, x):
        k = x[0]
        if k in ("Computed", "Check", "Padding", "Optional", "Default") and k != "Default":
            return True
        if k == "name":
            return x[1] in ("Pass", "GreedyBytes")
        if k in ("Bytes", "PaddedString"):
            return x[1] == 0
        if k in ("GreedyString", "GreedyRange", "NullStripped"):
            return True
        if k in ("Array",):
            return x[1] == 0 or self.may_be_empty(x[2])
        if k in ("Struct", "Sequence"):
            return all(self.may_be_empty(m[1]) for m in x[1])
        if k in ("Renamed",):
            return self.may_be_empty(x[2])
        if k in ("If", "IfThenElse", "Switch"):
            return True
        if k == "AlignedStruct":
            return False
        if k in ("Hex", "ByteSwapped", "BitsSwapped"):
            return self.may_be_empty(x[1])
        if k in ("Padded", "FixedSized"):
            return x[1] == 0
        if k == "Aligned":
            return self.may_be_empty(x[2])
        return False

    def sized(self, depth):
        for _ in range(10):
            x = self.recipe(depth, False)
            try:
                M.size(x, M.top_scope(dict(self.kw)))
                return x
            except (M.Unsized, M.MissingKey, M.ModelGap):
                continue
        return self.fixed_leaf()

    def len_for(self, inner):
        try:
            s = M.size(inner, M.top_scope(dict(self.kw)))
            return s + self.rng.randint(0, 3)
        except (M.Unsized, M.MissingKey, M.ModelGap):
            return self.rng.randint(2, 12)

    def bitregion(self):
        r = self.rng
        total = 8 * r.randint(1, 4)
        ms = []
        left = total
        i = 0
        while left:
            w = r.randint(1, min(left, 17))
            c = r.random()
            if w == 1 and c < 0.3:
                ms.append(["b%d" % i, ["name", "Flag"]])
            elif c < 0.1:
                ms.append([None, ["Padding", w]])
            elif w % 8 == 0 and c < 0.5:
                ms.append(["b%d" % i, ["BitsInteger", w, r.random() < 0.5, True]])
            elif w in (1, 4, 8) and c < 0.6:
                ms.append(["b%d" % i, ["name", {1: "Bit", 4: "Nibble", 8: "Octet"}[w]]])
            else:
                ms.append(["b%d" % i, ["BitsInteger", w, r.random() < 0.5, False]])
            left -= w
            i += 1
        return ["BitStruct", ms] if r.random() < 0.5 else ["Bitwise", ["Struct", ms]]

    def bitstream(self, tail):
        """a bit region whose size is not known statically (the streaming implementation): the width of a field, a count or
        a greedy tail is discovered while parsing.  Total widths are multiples of 8 by construction."""
        r = self.rng
        c = r.random()
        w = r.randint(1, 7)
        head = [["w", ["BitsInteger", w, False, False]], [None, ["Padding", 8 - w]]]
        if c < 0.3 and tail:
            # leftover bits of a partially consumed byte followed by a read-to-end field
            return ["Bitwise", ["Struct", [["w", ["BitsInteger", w, False, False]], ["rest", ["name", "GreedyBytes"]]]]]
        if c < 0.4 and tail:
            return ["Bitwise", ["Struct", head + [["xs", ["GreedyRange", ["BitsInteger", r.choice([4, 8, 16, 24]), r.random() < 0.5, False]]]]]]
        if c < 0.45 and tail:
            return ["Bitwise", ["GreedyRange", ["BitsInteger", r.choice([3, 5, 6, 7, 12]), False, False]]]
        if c < 0.5 and tail:
            wa, wb = r.choice([(3, 2), (20, 12), (5, 3), (12, 4)])
            return ["Bitwise", ["Struct", [["xs", ["GreedyRange", ["BitsInteger", wa, False, False]]], ["tail", ["BitsInteger", wb, False, False]]]]]
        if c < 0.75:
            return ["Bitwise", ["Struct", [["n0", ["name", "Nibble"]], ["f", ["name", "Flag"]], [None, ["Padding", 3]], ["xs", ["Array", ["this", "n0"], ["BitsInteger", r.choice([8, 16]), False, r.random() < 0.3]]]]]]
        return ["Bitwise", ["Struct", [["n0", ["BitsInteger", 3, False, False]], ["v", ["BitsInteger", 13, True, False]], ["d", ["Bytewise", ["Bytes", ["this", "n0"]]]]]]]

    def struct(self, depth, tail, inseq=False):
        r = self.rng
        n = r.randint(1, self.arity)
        ms = []
        ints = []          # names of small-int members so far
        flags = []
        i = 0
        while i < n:
            last = (i == n - 1)
            c = r.random()
            name = "m%d" % i
            if c < 0.13:
                ms.append(["n%d" % i, ["name", r.choice(SMALL)]])
                ints.append("n%d" % i)
            elif c < 0.16:
                # a length/count/selector that build derives by itself
                ms.append(["n%d" % i, r.choice([["Default", ["name", "Byte"], r.randint(0, 3)], ["Const", r.randint(0, 3), ["name", "Byte"]],
                                                 ["Default", ["name", "Int16ul"], r.randint(1, 2)]])])
                ints.append("n%d" % i)
            elif c < 0.22:
                ms.append(["f%d" % i, ["name", "Flag"]])
                flags.append("f%d" % i)
            elif c < 0.40 and ints:
                ref = ["this", r.choice(ints)]
                d = r.random()
                # (sometimes a power of two of the field: the constant is the LEFT operand of the shift)
                ref2 = ref if r.random() < 0.8 else ["bin", "<<", 1, ["bin", "&", ref, 3]]
                if d < 0.3:
                    ms.append([name, ["Bytes", ref2]])
                elif d < 0.5:
                    ms.append([name, ["Array", ref2, self.nonzero(depth - 1)]])
                elif d < 0.62:
                    ms.append([name, ["PaddedString", ref, "ascii"]])
                elif d < 0.72:
                    ms.append([name, ["FixedSized", ["bin", "+", ref, 6], self.recipe(depth - 1, not self.reparse_safe)]])
                elif d < 0.85:
                    cases = [[k, self.recipe(depth - 1, tail and last)] for k in r.sample([0, 1, 2, 3], r.randint(1, 3))]
                    ms.append([name, ["Switch", ref, cases, self.recipe(depth - 1, tail and last) if r.random() < 0.5 else None]])
                elif d < 0.93:
                    ms.append([name, ["IfThenElse", ["bin", r.choice([">", "==", "<="]), ref, r.randint(0, 2)], self.recipe(depth - 1, tail and last), self.recipe(depth - 1, tail and last)]])
                else:
                    ms.append([None, ["Check", ["bin", "<", ref, 5]]])
            elif c < 0.46 and flags:
                ms.append([name, ["If", ["this", r.choice(flags)], self.recipe(depth - 1, tail and last)]])
            elif c < 0.52 and not last and not inseq:
                # count derived at build time (a Sequence's later members are not visible while building)
                ms.append(["c%d" % i, ["Rebuild", ["name", r.choice(["Byte", "VarInt", "Int16ul"])], ["fn", "len", ["this", "items%d" % i]]]])
                ms.append(["items%d" % i, ["Array", ["this", "c%d" % i], self.nonzero(depth - 1)]])
                i += 1
            elif c < 0.56 and ints and depth > 1:
                # nested structure looking outward one level and at the keyword context
                inner = [["x", ["name", "Byte"]], ["d", ["Bytes", ["this", "_", r.choice(ints)]]], ["k", ["Bytes", ["this", "_params", "k"]]]]
                self.kw["k"] = 2
                ms.append([name, ["Struct", inner]])
            elif c < 0.60:
                if ints and r.random() < 0.5:
                    # a computed member that later lengths / counts / selectors depend on (build recomputes it whatever the value holds)
                    ms.append(["n%d" % i, ["Computed", ["bin", "+", ["this", r.choice(ints)], 1]]])
                    ints.append("n%d" % i)
                else:
                    ms.append([name, ["Computed", ["bin", "+", ["this", r.choice(ints)], 1]]] if ints else [name, ["Computed", 5]])
            elif c < 0.64:
                ms.append([None, r.choice([["Const", tag(b"MZ"), None], ["Padding", 2], ["name", "Pass"]])])
            else:
                ms.append([name, self.recipe(depth - 1, tail and last)])
            i += 1
        return ["Struct", ms]


# ---------------------------------------------------------------------------------- values
def boundary_ints(lo, hi, rng):
    c = [lo, hi, 0, 1, -1, lo + 1, hi - 1, (lo + hi) // 2, 127, 128, 255, 256]
    c = [x for x in c if lo <= x <= hi]
    return rng.choice(c) if rng.random() < 0.7 else rng.randint(lo, hi)


def int_range(r, sc):
    """-> (lo, hi) of an integer-valued recipe, or None"""
    k = r[0]
    if k == "name":
        n = r[1]
        if n in M.INTNAMES:
            nb, sg, _ = M.INTNAMES[n]
            return (-(1 << (8 * nb - 1)), (1 << (8 * nb - 1)) - 1) if sg else (0, (1 << (8 * nb)) - 1)
        if n in M.BITNAMES:
            return (0, (1 << M.BITNAMES[n]) - 1)
        if n == "VarInt":
            return (0, 1 << 70)
        if n == "ZigZag":
            return (-(1 << 70), 1 << 70)
    if k == "FormatField" and r[2] in M.FMT_INT:
        nb, sg = M.FMT_INT[r[2]]
        return (-(1 << (8 * nb - 1)), (1 << (8 * nb - 1)) - 1) if sg else (0, (1 << (8 * nb)) - 1)
    if k in ("BytesInteger", "BitsInteger"):
        n = M.ev(r[1], sc)
        bits = 8 * n if k == "BytesInteger" else n
        return (-(1 << (bits - 1)), (1 << (bits - 1)) - 1) if r[2] else (0, (1 << bits) - 1)
    return None


STRINGS = ["", "a", "ab", "hello", "Zz9", "Аф", "é", "x" * 7, "€"]


def genval(r, rng, sc, name=None):
    """a value from the construct's domain (build-side: derived members omitted / None)"""
    k = r[0]
    a = r[1:]
    ir = int_range(r, sc) if k in ("name", "FormatField", "BytesInteger", "BitsInteger") else None
    if ir is not None:
        lo, hi = ir
        if name and name[0] in "nt" and (len(name) == 1 or name[1:].isdigit()):
            return rng.choice([0, 1, 2, 3, 4, 2, 1])
        return boundary_ints(lo, hi, rng)
    if k == "name":
        n = a[0]
        if n in M.FLOATNAMES:
            return gen_float(M.FLOATNAMES[n][0], rng)
        if n == "Flag":
            return rng.random() < 0.5
        if n == "GreedyBytes":
            return bytes(rng.randrange(256) for _ in range(rng.randint(0, 6)))
        return None
    if k == "FormatField":
        if a[1] in M.FMT_FLOAT:
            return gen_float(M.FMT_FLOAT[a[1]], rng)
        return rng.random() < 0.5
    if k == "Bytes":
        n = M.ev(a[0], sc)
        if not isinstance(n, int) or n > 4096:
            raise M.ModelGap("value generation: length")
        return bytes(rng.randrange(256) for _ in range(n))
    if k in ("PaddedString", "PascalString", "CString", "GreedyString"):
        enc = a[1] if k in ("PaddedString", "PascalString") else a[0]
        s = rng.choice(STRINGS)
        if enc == "ascii":
            s = "".join(ch for ch in s if ord(ch) < 128)
        if k == "PaddedString":
            n = M.ev(a[0], sc)
            while s and len(M.str_encode(s, enc)) > n:
                s = s[:-1]
            if s and len(M.str_encode(s, enc)) > n:
                s = ""
            if enc in ("utf16", "utf32") and len(M.str_encode("a", enc)) - M.UNIT[enc] > n:
                s = ""
        return s
    if k in ("Enum", "EnumClass", "EnumMixed"):
        labels = M.enum_labels(r)
        c = rng.random()
        if c < 0.6:
            return rng.choice(sorted(labels))
        ir = int_range(a[0], sc)
        v = boundary_ints(max(ir[0], 0), min(ir[1], 1 << 20), rng)
        return v
    if k in ("FlagsEnum", "FlagsEnumClass"):
        labels = M.enum_labels(r)
        return {n: rng.random() < 0.5 for n in labels}
    if k == "Mapping":
        key = rng.choice(a[1])[0]
        return untag(key) if isinstance(key, dict) else key
    if k in ("Const", "Computed", "Check", "Padding", "Rebuild", "Peek", "StopIf", "Seek"):
        return None
    if k in ("Lazy", "RawCopy"):
        return genval(a[0], rng, sc, name) if k == "Lazy" else {"value": genval(a[0], rng, sc, name)}
    if k == "Default":
        return None if rng.random() < 0.5 else genval(a[0], rng, sc, name)
    if k == "Bitwise" and a[0][0] == "Struct" and a[0][1] and a[0][1][-1][1] == ["name", "GreedyBytes"]:
        # a read-to-end field inside a bit region holds one byte (0/1) per bit; the region must end on a byte boundary
        v = genval(a[0], rng, sc)
        fixed = sum(M.size(m, M.new_scope(sc)) for _, m in a[0][1][:-1])
        v[a[0][1][-1][0]] = bytes(rng.randrange(2) for _ in range(-fixed % 8 + 8 * rng.randint(0, 2)))
        return v
    if k in ("Hex", "HexDump", "ByteSwapped", "BitsSwapped", "NullStripped", "Bitwise", "Bytewise"):
        return genval(a[0], rng, sc)
    if k == "Renamed":
        return genval(a[1], rng, sc, name)
    if k == "OneOf":
        return rng.choice(a[1])
    if k in ("Struct", "LazyStruct", "BitStruct", "AlignedStruct"):
        ms = M.members_of(r) if k != "BitStruct" else a[0]
        s2 = M.new_scope(sc)
        out = {}
        for nm, m in ms:
            if nm is None and m[0] == "Renamed" and m[1]:
                nm = m[1]
            v = genval(m, rng, s2, nm)
            if nm:
                if not (M.is_buildnone(m) and v is None):
                    out[nm] = v
                s2[nm] = v if v is not None or not M.is_buildnone(m) else scope_value(m, s2)
        return out
    if k == "Sequence":
        s2 = M.new_scope(sc)
        out = []
        for nm, m in a[0]:
            v = genval(m, rng, s2, nm)
            out.append(v)
            if nm:
                s2[nm] = v if v is not None or not M.is_buildnone(m) else scope_value(m, s2)
        return out
    if k in ("Array", "LazyArray"):
        try:
            c = M.ev(a[0], sc)
        except (M.MissingKey, TypeError):      # (a count computed from a member that only exists once the value is built)
            c = None
        if not isinstance(c, int):
            c = rng.randint(0, 3)
        if c > 64:
            raise M.ModelGap("value generation: count %d too large" % c)
        return _elements(a[1], max(0, c), rng, sc)
    if k in ("PrefixedArray", "GreedyRange"):
        el = a[1] if k == "PrefixedArray" else a[0]
        return _elements(el, rng.randint(0, 3), rng, sc)
    if k == "RepeatUntil":
        ir = int_range(a[1], sc)
        return [rng.randint(1, min(ir[1], 300)) for _ in range(rng.randint(0, 3))] + [0]
    if k == "IfThenElse":
        return genval(a[1] if M.ev(a[0], sc) else a[2], rng, sc)
    if k == "If":
        return genval(a[1], rng, sc) if M.ev(a[0], sc) else None
    if k == "Switch":
        key = M.ev(a[0], sc)
        for ck, c in a[1]:
            if ck == key:
                return genval(c, rng, sc)
        return genval(a[2], rng, sc) if len(a) > 2 and a[2] is not None else None
    if k == "Optional":
        return genval(a[0], rng, sc) if rng.random() < 0.6 else None
    if k == "Select":
        alt = rng.choice(a[0])
        return genval(alt[1] if is_named_pair(alt) else alt, rng, sc)
    if k in ("Prefixed", "FixedSized", "Padded", "Aligned", "ProcessXor", "Pointer"):
        return genval(a[1], rng, sc)
    if k == "ProcessRotateLeft":
        return genval(a[2], rng, sc)
    if k == "OffsettedEnd":
        return genval(a[1], rng, sc)
    if k == "Compressed":
        return genval(a[0], rng, sc)
    if k == "GreedyString":
        return rng.choice(["", "ab", "hello"])
    if k == "FocusedSeq":
        s2 = M.new_scope(sc)
        for nm, m in a[1]:
            if nm == a[0]:
                return genval(m, rng, s2, nm)
        return None
    if k == "NullTerminated":
        return genval(a[0], rng, sc)
    raise M.ModelGap("genval " + k)


def _elements(el, n, rng, sc):
    """n element values, each generated with the repeater's running index visible (this._index)"""
    had, prev = "_index" in sc, sc.get("_index")
    out = []
    try:
        for i in range(n):
            sc["_index"] = i
            out.append(genval(el, rng, sc))
    finally:
        if had:
            sc["_index"] = prev
        else:
            sc.pop("_index", None)
    return out


def scope_value(m, sc):
    """what a build-from-nothing member contributes to the scope while values are being generated"""
    try:
        if m[0] == "Const":
            return untag(m[1]) if isinstance(m[1], (dict, list)) else m[1]
        if m[0] == "Computed":
            return M.ev(m[1], sc)
        if m[0] == "Default":
            return M.ev(m[2], sc)
    except M.MissingKey:
        pass
    return None


def gen_float(bits, rng):
    c = rng.random()
    if c < 0.5:
        return rng.choice([0.0, -0.0, 1.0, -1.0, 0.5, 1.5, 2.0, 100.0, -3.25, float("inf"), float("-inf"), 65504.0, 2.0 ** -14, 2.0 ** -24])
    u = rng.getrandbits(bits)
    v = M.float_dec_bits(u, bits)
    return v if v == v else 1.25
