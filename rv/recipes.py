"""Recipes: JSON trees that rebuild a construct without any PRNG (replayable, printable).

    mk(recipe)      -> real construct object, through the public constructors / names
    mkexpr(e)       -> expression object (this/obj_/len_...) or a plain constant
    evalexpr(e, sc) -> native evaluation of the same expression on a scope model

Expression forms: constants (int/bool/None/str/tagged bytes) or
    ["this", n1, n2, ...]   this.n1.n2...   (names may be "_", "_root", "_params", "_index")
    ["obj"], ["obj", f]     obj_, obj_.f
    ["list", i]             list_[i]
    ["lit", tagged]         constant
    ["lam", n1, n2, ...]    a plain Python callable  lambda ctx: ctx.n1.n2  (attribute access; integer steps index)
    ["lamitem", n1, ...]    lambda ctx: ctx[n1][...]
    ["bin", op, a, b]  ["un", op, a]  ["fn", name, a]
"""
import operator, hashlib, zlib
from .common import untag, tag

BINOPS = {"+": operator.add, "-": operator.sub, "*": operator.mul, "/": operator.truediv, "//": operator.floordiv,
          "%": operator.mod, "**": operator.pow, "^": operator.xor, "<<": operator.lshift, ">>": operator.rshift,
          "&": operator.and_, "|": operator.or_,
          "<": operator.lt, "<=": operator.le, ">": operator.gt, ">=": operator.ge, "==": operator.eq, "!=": operator.ne}
UNOPS_NATIVE = {"-": operator.neg, "+": operator.pos, "~": operator.not_}
UNOPS_PY = {"-": operator.neg, "+": operator.pos, "~": operator.invert}
FUNCS = {"len": len, "sum": sum, "min": min, "max": max, "abs": abs}


def is_expr(e):
    return isinstance(e, list) and e and e[0] in ("this", "obj", "list", "bin", "un", "fn", "lam", "lamitem")


def mkexpr(e):
    import construct as C
    if not isinstance(e, list):
        return untag(e) if isinstance(e, dict) else e
    k = e[0]
    if k == "lit":
        return untag(e[1])
    if k == "this":
        x = C.this
        for f in e[1:]:
            x = getattr(x, f) if isinstance(f, str) else x[f]
        return x
    if k == "obj":
        x = C.obj_
        for f in e[1:]:
            x = getattr(x, f) if isinstance(f, str) else x[f]
        return x
    if k == "lam":
        steps = list(e[1:])

        def by_attribute(ctx):
            for f in steps:
                ctx = getattr(ctx, f) if isinstance(f, str) else ctx[f]
            return ctx
        return by_attribute
    if k == "lamitem":
        steps = list(e[1:])

        def by_item(ctx):
            for f in steps:
                ctx = ctx[f]
            return ctx
        return by_item
    if k == "list":                      # ["list"] the list itself; ["list", i, j, ...] an item path below it
        x = C.list_
        for f in e[1:]:
            x = x[f]
        return x
    if k == "fn":
        return {"len": C.len_, "sum": C.sum_, "min": C.min_, "max": C.max_, "abs": C.abs_}[e[1]](mkexpr(e[2]))
    if k == "un":
        return UNOPS_PY[e[1]](mkexpr(e[2]))
    if k == "bin":
        return BINOPS[e[1]](mkexpr(e[2]), mkexpr(e[3]))
    raise ValueError("bad expression %r" % (e,))


def evalexpr(e, scope, obj=None, lst=None):
    """Native evaluation on a scope model (nested dicts with '_' links)."""
    if not isinstance(e, list):
        return untag(e) if isinstance(e, dict) else e
    k = e[0]
    if k == "lit":
        return untag(e[1])
    if k in ("this", "lam", "lamitem"):
        v = scope
        for f in e[1:]:
            v = v[f]
        return v
    if k == "obj":
        v = obj
        for f in e[1:]:
            v = v[f]
        return v
    if k == "list":
        v = lst
        for f in e[1:]:
            v = v[f]
        return v
    if k == "fn":
        return FUNCS[e[1]](evalexpr(e[2], scope, obj, lst))
    if k == "un":
        return UNOPS_NATIVE[e[1]](evalexpr(e[2], scope, obj, lst))
    if k == "bin":
        return BINOPS[e[1]](evalexpr(e[2], scope, obj, lst), evalexpr(e[3], scope, obj, lst))
    raise ValueError("bad expression %r" % (e,))


HASHES = {
    "sum8": lambda d: sum(d) & 0xFF,
    "crc32": lambda d: zlib.crc32(d) & 0xFFFFFFFF,
    "md5": lambda d: hashlib.md5(d).digest(),
    "sha1": lambda d: hashlib.sha1(d).digest(),
    "sha256": lambda d: hashlib.sha256(d).digest(),
    "md5list": lambda d: list(hashlib.md5(d).digest()[:4]),
    "sha1padded": lambda d: hashlib.sha1(d).digest(), "crc32aligned": lambda d: zlib.crc32(d) & 0xFFFFFFFF,
    "crc32hex": lambda d: "%08x" % (zlib.crc32(d) & 0xFFFFFFFF), "md5HEX": lambda d: hashlib.md5(d).hexdigest().upper()[:12],
}


def is_named_pair(x):
    """[name-or-None, recipe] as opposed to a bare recipe (kinds are capitalised or "name"; member names are lower case)"""
    return isinstance(x, list) and len(x) == 2 and isinstance(x[1], list) and (x[0] is None or (isinstance(x[0], str) and not x[0][:1].isupper() and x[0] != "name"))


def _members(ms):
    out = []
    for name, r in ms:
        c = mk(r)
        out.append((name / c) if name else c)
    return out


def mk(r):
    """Recipe -> construct."""
    import construct as C
    k = r[0]
    a = r[1:]
    if k == "name":                      # public singleton by name: Int16ul, VarInt, Flag, Pass, Tell ...
        return getattr(C, a[0])
    if k == "FormatField":
        return C.FormatField(a[0], a[1])
    if k == "BytesInteger":
        return C.BytesInteger(mkexpr(a[0]), signed=a[1], swapped=mkexpr(a[2]))
    if k == "BitsInteger":
        return C.BitsInteger(mkexpr(a[0]), signed=a[1], swapped=mkexpr(a[2]))
    if k == "Bytes":
        return C.Bytes(mkexpr(a[0]))
    if k == "PaddedString":
        return C.PaddedString(mkexpr(a[0]), a[1])
    if k == "PascalString":
        return C.PascalString(mk(a[0]), a[1])
    if k == "CString":
        return C.CString(a[0])
    if k == "GreedyString":
        return C.GreedyString(a[0])
    if k == "Enum":
        return C.Enum(mk(a[0]), **{n: v for n, v in a[1]})
    if k == "EnumClass":                 # merged from an IntEnum class
        import enum
        E = enum.IntEnum("E", [(n, v) for n, v in a[1]])
        return C.Enum(mk(a[0]), E)
    if k == "EnumMixed":                 # an IntEnum class plus keyword labels
        import enum
        E = enum.IntEnum("E", [(n, v) for n, v in a[1]])
        return C.Enum(mk(a[0]), E, **{n: v for n, v in a[2]})
    if k == "FlagsEnum":
        return C.FlagsEnum(mk(a[0]), **{n: v for n, v in a[1]})
    if k == "FlagsEnumClass":
        import enum
        E = enum.IntFlag("E", [(n, v) for n, v in a[1]])
        return C.FlagsEnum(mk(a[0]), E)
    if k == "Mapping":
        return C.Mapping(mk(a[0]), {untag(x) if isinstance(x, dict) else x: v for x, v in a[1]})
    if k == "Const":
        v = untag(a[0]) if isinstance(a[0], (dict, list)) else a[0]
        return C.Const(v) if a[1] is None else C.Const(v, mk(a[1]))
    if k == "Computed":
        return C.Computed(mkexpr(a[0]))
    if k == "Default":
        return C.Default(mk(a[0]), mkexpr(a[1]))
    if k == "Rebuild":
        return C.Rebuild(mk(a[0]), mkexpr(a[1]))
    if k == "Check":
        return C.Check(mkexpr(a[0]))
    if k == "StopIf":
        return C.StopIf(mkexpr(a[0]))
    if k == "Padding":
        return C.Padding(mkexpr(a[0]), pattern=untag(a[1])) if len(a) > 1 else C.Padding(mkexpr(a[0]))
    if k == "Struct":
        return C.Struct(*_members(a[0]))
    if k == "Sequence":
        return C.Sequence(*_members(a[0]))
    if k == "FocusedSeq":
        return C.FocusedSeq(a[0], *_members(a[1]))
    if k == "Union":
        return C.Union(mkexpr(a[0]), *_members(a[1]))
    if k == "LazyStruct":
        return C.LazyStruct(*_members(a[0]))
    if k == "AlignedStruct":
        if len(a) > 2:                   # [modulus, members, npos]: the first npos members positionally, the others as keywords
            return C.AlignedStruct(mkexpr(a[0]), *_members(a[1][:a[2]]), **{n: mk(m) for n, m in a[1][a[2]:]})
        return C.AlignedStruct(mkexpr(a[0]), *_members(a[1]))
    if k == "BitStruct":
        return C.BitStruct(*_members(a[0]))
    if k == "Array":
        return C.Array(mkexpr(a[0]), mk(a[1])) if len(a) < 3 else C.Array(mkexpr(a[0]), mk(a[1]), discard=a[2])
    if k == "ArrayIdx":                  # operator spelling  x[n]
        return mk(a[1])[mkexpr(a[0])]
    if k == "LazyArray":
        return C.LazyArray(mkexpr(a[0]), mk(a[1]))
    if k == "PrefixedArray":
        return C.PrefixedArray(mk(a[0]), mk(a[1]))
    if k == "GreedyRange":
        return C.GreedyRange(mk(a[0])) if len(a) < 2 else C.GreedyRange(mk(a[0]), discard=a[1])
    if k == "RepeatUntil":
        return C.RepeatUntil(mkexpr(a[0]), mk(a[1])) if len(a) < 3 else C.RepeatUntil(mkexpr(a[0]), mk(a[1]), discard=a[2])
    if k == "IfThenElse":
        return C.IfThenElse(mkexpr(a[0]), mk(a[1]), mk(a[2]))
    if k == "If":
        return C.If(mkexpr(a[0]), mk(a[1]))
    if k == "Switch":
        cases = {(untag(x) if isinstance(x, dict) else x): mk(c) for x, c in a[1]}
        return C.Switch(mkexpr(a[0]), cases) if len(a) < 3 or a[2] is None else C.Switch(mkexpr(a[0]), cases, default=mk(a[2]))
    if k == "Select":
        return C.Select(*_members([x if is_named_pair(x) else (None, x) for x in a[0]]))
    if k == "Optional":
        return C.Optional(mk(a[0]))
    if k == "Prefixed":
        return C.Prefixed(mk(a[0]), mk(a[1]), includelength=bool(a[2]) if len(a) > 2 else False)
    if k == "FixedSized":
        return C.FixedSized(mkexpr(a[0]), mk(a[1]))
    if k == "NullTerminated":
        kw = {}
        if len(a) > 1:
            kw = dict(term=untag(a[1]), include=a[2], consume=a[3], require=a[4])
        return C.NullTerminated(mk(a[0]), **kw)
    if k == "NullStripped":
        return C.NullStripped(mk(a[0]), pad=untag(a[1])) if len(a) > 1 else C.NullStripped(mk(a[0]))
    if k == "Padded":
        return C.Padded(mkexpr(a[0]), mk(a[1]), pattern=untag(a[2])) if len(a) > 2 else C.Padded(mkexpr(a[0]), mk(a[1]))
    if k == "Aligned":
        return C.Aligned(mkexpr(a[0]), mk(a[1]), pattern=untag(a[2])) if len(a) > 2 else C.Aligned(mkexpr(a[0]), mk(a[1]))
    if k == "OffsettedEnd":
        return C.OffsettedEnd(mkexpr(a[0]), mk(a[1]))
    if k == "Bitwise":
        return C.Bitwise(mk(a[0]))
    if k == "Bytewise":
        return C.Bytewise(mk(a[0]))
    if k == "ByteSwapped":
        return C.ByteSwapped(mk(a[0]))
    if k == "BitsSwapped":
        return C.BitsSwapped(mk(a[0]))
    if k == "ProcessXor":
        return C.ProcessXor(mkexpr(a[0]), mk(a[1]))
    if k == "ProcessRotateLeft":
        return C.ProcessRotateLeft(mkexpr(a[0]), mkexpr(a[1]), mk(a[2]))
    if k == "Compressed":
        return C.Compressed(mk(a[0]), a[1], a[2] if len(a) > 2 else None)
    if k == "Pointer":
        return C.Pointer(mkexpr(a[0]), mk(a[1])) if len(a) < 3 else C.Pointer(mkexpr(a[0]), mk(a[1]), stream=mkexpr(a[2]))
    if k == "Peek":
        return C.Peek(mk(a[0]))
    if k == "Seek":
        return C.Seek(mkexpr(a[0]), mkexpr(a[1]) if len(a) > 1 else 0)
    if k == "RawCopy":
        return C.RawCopy(mk(a[0]))
    if k == "Checksum":
        return C.Checksum(mk(a[0]), HASHES[a[1]], mkexpr(a[2]))
    if k == "Lazy":
        return C.Lazy(mk(a[0]))
    if k == "Hex":
        return C.Hex(mk(a[0]))
    if k == "HexDump":
        return C.HexDump(mk(a[0]))
    if k == "OneOf":
        return C.OneOf(mk(a[0]), [untag(x) if isinstance(x, dict) else x for x in a[1]])
    if k == "NoneOf":
        return C.NoneOf(mk(a[0]), [untag(x) if isinstance(x, dict) else x for x in a[1]])
    if k == "ExprValidator":
        return C.ExprValidator(mk(a[0]), mkexpr(a[1]))
    if k == "ExprAdapter":
        return C.ExprAdapter(mk(a[0]), mkexpr(a[1]), mkexpr(a[2]))
    if k == "NamedTuple":
        return C.NamedTuple(a[0], a[1], mk(a[2]))
    if k == "Renamed":                   # name / x * docs
        c = mk(a[1])
        c = (a[0] / c) if a[0] else c
        return c * a[2] if len(a) > 2 and a[2] else c
    if k == "Slicing":                   # ["Slicing", sub, count, start, stop, step, empty]
        return C.Slicing(mk(a[0]), a[1], a[2], a[3], a[4] if len(a) > 4 else 1, empty=a[5] if len(a) > 5 else None)
    if k == "Indexing":                  # ["Indexing", sub, count, index, empty]
        return C.Indexing(mk(a[0]), a[1], a[2], empty=a[3] if len(a) > 3 else None)
    if k == "RestreamData":
        return C.RestreamData(untag(a[0]) if isinstance(a[0], dict) else mkexpr(a[0]) if is_expr(a[0]) else mk(a[0]), mk(a[1]))
    if k == "Transformed":               # fixed menu of functions, by name
        from construct.lib import swapbytes, swapbitsinbytes, bytes2bits, bits2bytes
        fn = {"swapbytes": swapbytes, "swapbitsinbytes": swapbitsinbytes, "bytes2bits": bytes2bits, "bits2bytes": bits2bytes}
        return C.Transformed(mk(a[0]), fn[a[1]], a[2], fn[a[3]], a[4])
    if k == "Restreamed":
        from construct.lib import swapbytes, swapbitsinbytes, bytes2bits, bits2bytes
        fn = {"swapbytes": swapbytes, "swapbitsinbytes": swapbitsinbytes, "bytes2bits": bytes2bits, "bits2bytes": bits2bytes}
        sc = {"n//8": (lambda n: n // 8), "n*8": (lambda n: n * 8), "n": (lambda n: n), None: None}
        return C.Restreamed(mk(a[0]), fn[a[1]], a[2], fn[a[3]], a[4], sc[a[5]])
    raise ValueError("unknown recipe kind %r" % (k,))


def shape(r, depth=0):
    """Structural shape of a recipe (parameters dropped) used for distinctness counting."""
    if not isinstance(r, list) or not r or not isinstance(r[0], str):
        return "_"
    k = r[0]
    if k == "name":
        return r[1]
    kids = []
    for x in r[1:]:
        if isinstance(x, list) and x and isinstance(x[0], str) and x[0][:1].isupper() or (isinstance(x, list) and x and x[0] == "name"):
            kids.append(shape(x, depth + 1))
        elif isinstance(x, list) and x and isinstance(x[0], list):
            for m in x:
                if isinstance(m, list) and len(m) == 2 and isinstance(m[1], list):
                    kids.append(shape(m[1], depth + 1))
    return k + ("(" + ",".join(kids) + ")" if kids else "")


def rdepth(r):
    if not isinstance(r, list) or not r or not isinstance(r[0], str) or r[0] == "name":
        return 0
    d = 0
    for x in r[1:]:
        if isinstance(x, list) and x and isinstance(x[0], str) and (x[0][:1].isupper() or x[0] == "name"):
            d = max(d, rdepth(x))
        elif isinstance(x, list) and x and isinstance(x[0], list):
            for m in x:
                if isinstance(m, list) and len(m) == 2 and isinstance(m[1], list):
                    d = max(d, rdepth(m[1]))
    return d + 1
